#!/bin/bash
# tools/thorough_some.sh ID... : runs the thorough tier of the given checks, one line each
cd "$(dirname "$0")/.."
for id in "$@"; do
  out=$(./check $id thorough 2>/dev/null | grep -E "VIOLATION|thorough:" | tr '\n' ' ' | cut -c1-400)
  echo "$out"
done

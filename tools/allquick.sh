#!/bin/bash
# tools/allquick.sh [SEED] : runs every quick check once on the current tree, prints one line each
export VERIF_SEED=${1:-1}
cd "$(dirname "$0")/.."
for id in $(python3 -c "import json;print(' '.join(c['property_id'] for c in json.load(open('MANIFEST.json'))['checks']))"); do
  out=$(./check $id quick 2>/dev/null | grep -E "VIOLATION|quick:" | tr '\n' ' ' | cut -c1-400)
  echo "seed=$VERIF_SEED $out"
done

#!/bin/bash
# mkseed.sh ID : creates worktree + prompt file
ID=$1
git -C /repo worktree add --detach /tmp/wt/$ID HEAD -q 2>&1 | tail -1
mkdir -p /tmp/wt/$ID-out
python3 - "$ID" <<'PY'
import sys
i=sys.argv[1]
t=open('/tmp/wt/PROMPT.txt').read().replace('@ID@',i).replace('@PROP@',open(f'/tmp/wt/prop-{i}.txt').read())
open(f'/tmp/wt/prompt-{i}.txt','w').write(t)
PY

import json,os,shutil,glob,sys
i,dest,detected_by,tier=sys.argv[1],sys.argv[2],sys.argv[3],sys.argv[4]
d=f"/verif/seeded/{dest}"
os.makedirs(d,exist_ok=True)
for f in glob.glob(f'/tmp/wt/{i}-out/*'):
    b=os.path.basename(f)
    if b.endswith('.log') or b.endswith('.in') : continue
    if os.path.isdir(f):
        shutil.copytree(f, f'{d}/{b}', dirs_exist_ok=True); continue
    shutil.copy(f, f'{d}/'+('agent_meta.json' if b=='meta.json' else b))
a=json.load(open(f'{d}/agent_meta.json'))
m={"property":i,"breaks":a.get("summary"),"needs_to_manifest":a.get("needs"),"files":a.get("files"),"demonstration":a.get("demo"),
   "confirmed_by_me":f"in the scratch worktree /tmp/wt/{i} (since removed): `cargo test --workspace --no-fail-fast --offline` has no failing test with the change; the demonstration fails with the change and passes without it",
   "detected_by":detected_by,"detected_in_tier":tier,
   "how_run":f"git -C /repo apply seeded/{dest}/patch.diff && ./check {i} quick ; git -C /repo checkout -- ."}
json.dump(m,open(f'{d}/meta.json','w'),indent=1)

#!/bin/bash
# confirm.sh ID DEMOFILE TESTNAME : verifies a seeded change in /tmp/wt/ID
ID=$1; DEMO=$2; TEST=$3
W=/tmp/wt/$ID; export CARGO_TARGET_DIR=/tmp/wt/$ID-target CARGO_NET_OFFLINE=true
cd $W || exit 1
echo "### $ID: suite with change"
cargo test --workspace --no-fail-fast --offline 2>&1 | grep -E "^test result|FAILED|error(\[|:)" | grep -v "^test result: ok" | head
echo "### $ID: demo with change (expect failure)"
cp /tmp/wt/$ID-out/$DEMO crates/uplc/tests/$DEMO
cargo test -p uplc --test $TEST --offline 2>&1 | grep -E "^test result" 
git apply -R /tmp/wt/$ID-out/patch.diff
echo "### $ID: demo without change (expect pass)"
cargo test -p uplc --test $TEST --offline 2>&1 | grep -E "^test result"
git apply /tmp/wt/$ID-out/patch.diff
rm -f crates/uplc/tests/$DEMO
git status --short

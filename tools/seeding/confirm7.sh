#!/bin/bash
# confirm7.sh ID CRATE DEMOFILE TESTNAME  (integration test under crates/CRATE/tests)
ID=$1; CRATE=$2; DEMO=$3; TEST=$4
W=/tmp/wt/$ID; export CARGO_TARGET_DIR=/tmp/wt/$ID-target CARGO_NET_OFFLINE=true
cd $W || exit 1
echo "### $ID: suite with change"
cargo test --workspace --no-fail-fast --offline 2>&1 | grep -E "^test result|FAILED|error(\[|:)" | grep -v "^test result: ok" | head
mkdir -p crates/$CRATE/tests
cp /tmp/wt/$ID-out/$DEMO crates/$CRATE/tests/$DEMO
echo "### $ID: demo with change (expect failure)"
cargo test -p $CRATE --test $TEST --offline 2>&1 | grep -E "^test result|error(\[|:)"
git apply -R /tmp/wt/$ID-out/patch.diff
echo "### $ID: demo without change (expect pass)"
cargo test -p $CRATE --test $TEST --offline 2>&1 | grep -E "^test result|error(\[|:)"
git apply /tmp/wt/$ID-out/patch.diff
rm -f crates/$CRATE/tests/$DEMO; rmdir crates/$CRATE/tests 2>/dev/null
git status --short

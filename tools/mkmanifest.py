#!/usr/bin/env python3
"""Regenerates /verif/MANIFEST.json from the table below (kept in one place so it stays valid)."""
import json, subprocess, sys, os

ROOT = os.path.dirname(os.path.dirname(os.path.abspath(__file__)))
props = [json.loads(l) for l in open(os.path.join(ROOT, "properties.jsonl"))]
ids = [p["id"] for p in props]

# id -> (technique, level text, level_note, design_ref)
CHECKS = {
 "C03": ("property-based differential testing against an independent reference evaluator (proptest-driven choice sequences + exhaustive enumeration of small terms)",
         "Every closed term generated (exhaustively up to a node bound over a reduced alphabet, randomly beyond: typed, applied and chaotic generators) is evaluated by a big-step reference evaluator written from the Plutus Core specification and by the crate under semantics variants A-E; results are compared as fully discharged closed terms, traces in order. Held on everything explored; no absence claim beyond the exhaustive family.",
         "Trusted: the harness' reference evaluator and its ~48 builtin denotations; error kinds are not compared; terms that use unmodelled builtins or exceed the reference fuel are skipped and counted.",
         "DESIGN.md section 4 C03"),
}

NOT_APPLICABLE = {
}

def hook_commits():
    try:
        out = subprocess.check_output(["git", "-C", "/repo", "log", "--format=%H %s"], text=True)
        return [l.split()[0] for l in out.splitlines() if " verif-hooks" in l or l.split(" ",1)[1].startswith("verif-hooks")]
    except Exception:
        return []

checks = []
for i in ids:
    if i in CHECKS:
        tech, text, note, ref = CHECKS[i]
        checks.append({
            "property_id": i,
            "quick_cmd": f"./check {i} quick",
            "thorough_cmd": f"./check {i} thorough",
            "evidence_file": f"/verif/evidence/{i}.json",
            "replay_cmd_template": f"./check {i} quick --replay {{path}}",
            "engine": "vharness",
            "level_claimed": {"category": "exploration", "text": text, "design_ref": ref},
            "level_note": note,
            "technique": tech,
        })

pending = "not yet covered by a registered check in this revision of /verif (work in progress; see DESIGN.md section 4 for the planned property-based check)"
na = []
for i in ids:
    if i not in CHECKS:
        na.append({"property_id": i, "reason": NOT_APPLICABLE.get(i, pending)})

manifest = {
    "version": 1,
    "setup_cmd": "cd /verif/harness && CARGO_NET_OFFLINE=true cargo build --profile verif",
    "hooks": {
        "guard": "cargo feature `verif-hooks` on crates aiken-lang and aiken-project (default off)",
        "enable": "the harness crate depends on /repo/crates/{aiken-lang,aiken-project} by path with features = [\"verif-hooks\"]; ./check rebuilds it (cargo build --profile verif) before every run",
        "baseline_off_cmd": "cd /repo && cargo nextest run --workspace --no-fail-fast --test-threads 8 --offline || cargo test --workspace --no-fail-fast --offline",
        "source_commits": hook_commits(),
        "add_only": True,
    },
    "engines": [
        {"name": "vharness", "path": "/verif/harness", "serves_properties": sorted(CHECKS.keys()),
         "kind_free_text": "Rust binary (vcheck): supervisor + worker processes; proptest 1.9 TestRunner drives choice sequences (Vec<u32>) decoded by hand-written type-directed generators; exhaustive enumerators for small finite families; reference models in harness/src/model; replay files in /verif/replays"},
    ],
    "checks": checks,
    "not_applicable": na,
    "notes": "Exit codes: 0 held on everything explored, 1 with a VIOLATION line, 2 inconclusive/infrastructure (watchdog, build failure). VERIF_SEED selects the PRNG seed (default 0). Known findings: /verif/known_findings.json.",
}
json.dump(manifest, open(os.path.join(ROOT, "MANIFEST.json"), "w"), indent=1)
print("wrote MANIFEST.json with", len(checks), "checks,", len(na), "not_applicable")

#!/usr/bin/env python3
"""Regenerates /verif/MANIFEST.json from the table below (kept in one place so it stays valid)."""
import json, subprocess, sys, os

ROOT = os.path.dirname(os.path.dirname(os.path.abspath(__file__)))
props = [json.loads(l) for l in open(os.path.join(ROOT, "properties.jsonl"))]
ids = [p["id"] for p in props]

# id -> (technique, level text, level_note, design_ref)
CHECKS = {
 "C03": ("property-based differential testing against an independent reference evaluator (proptest-driven choice sequences + exhaustive enumeration of small terms)",
         "Every closed term generated (exhaustively up to a node bound over a reduced alphabet, randomly beyond: typed, applied and chaotic generators) is evaluated by a big-step reference evaluator written from the Plutus Core specification and by the crate under semantics variants A-E; results are compared as fully discharged closed terms, traces in order. Held on everything explored; no absence claim beyond the exhaustive family.",
         "Trusted: the harness' reference evaluator and its ~48 builtin denotations; error kinds are not compared; terms that use unmodelled builtins or exceed the reference fuel are skipped and counted.",
         "DESIGN.md section 4 C03"),
 "C08": ("property-based round-trip testing (proptest-driven generators; encode/decode/print/parse round trips plus an independently recomputed blake2b-224 hash)",
         "Generated programs over every term constructor and constant nesting, in four binder forms and several versions, are pushed through flat/CBOR/hex encode-decode, through the decode->print->parse->encode path of the CLI, and through the SerializableProgram JSON form; equality is judged by the harness' own deep comparison and bytes must be reproduced bit for bit; the published hash is compared with the harness' own BLAKE2b-224. Held on everything explored.",
         "Trusted: the harness' BLAKE2b (self-tested against hashlib vectors) and its structural comparison; BLS constants are out of the flat domain by the encoder's own documentation; the CLI binary itself is not spawned in the quick tier.",
         "DESIGN.md section 4 C08"),
 "C11": ("property-based testing against an independent binder-resolution model (exhaustive enumeration of small terms + proptest-driven random terms)",
         "Named and de Bruijn terms with frequent shadowing, duplicate names and free variables are converted between the binder forms and through the code generator's interner; every variable occurrence must resolve to the binder an independent 30-line resolver computes, free variables must be rejected, and round trips must be the identity / alpha-equivalent. Exhaustive up to a node bound, random beyond.",
         "Trusted: the harness' resolver (M-BIND). The exhaustive family uses a reduced shape alphabet.",
         "DESIGN.md section 4 C11"),
 "C15": ("property-based round-trip testing (print then parse; every builtin and type name enumerated, constants and strings generated)",
         "Generated programs over all term constructors, every builtin (enumerated), every constant type nesting and strings over all of Unicode are printed and parsed back; the parsed program must have the same de Bruijn structure and equal constants and print to the same text.",
         "Trusted: the harness' independent name resolution and constant equality. MlResult constants are out of domain (the printer documents that they cannot be represented).",
         "DESIGN.md section 4 C15"),
 "C20": ("mutation-based fuzzing of every untrusted-input entry point with an Ok-or-Err validity oracle plus re-encode fixpoints (proptest-driven mutations of valid seeds; crashes and hangs caught by a supervisor process)",
         "Mutations (bit flips, truncations, splices, huge length prefixes, renamed builtins, deep nesting) of valid flat/CBOR/hex programs, UPLC text, shipped .ak sources, blueprints, schemas and aiken.toml files, and arbitrary PlutusData against every shipped schema, are given to the decoders, parsers, the formatter, blueprint loading and Parameter::validate; each must return a value or an error, and whatever is accepted must re-encode to a fixpoint. Stack overflows and hangs are detected by the supervisor.",
         "Trusted: nothing beyond the harness. Inputs nested deeper than 10 parentheses are excluded from the Aiken-text targets because of the recorded known finding (exponential parse time); they are counted in evidence. libFuzzer campaigns are not part of the registered commands.",
         "DESIGN.md section 4 C20"),
}

NOT_APPLICABLE = {
}

def hook_commits():
    try:
        out = subprocess.check_output(["git", "-C", "/repo", "log", "--format=%H %s"], text=True)
        return [l.split()[0] for l in out.splitlines() if " verif-hooks" in l or l.split(" ",1)[1].startswith("verif-hooks")]
    except Exception:
        return []

checks = []
for i in ids:
    if i in CHECKS:
        tech, text, note, ref = CHECKS[i]
        checks.append({
            "property_id": i,
            "quick_cmd": f"./check {i} quick",
            "thorough_cmd": f"./check {i} thorough",
            "evidence_file": f"/verif/evidence/{i}.json",
            "replay_cmd_template": f"./check {i} quick --replay {{path}}",
            "engine": "vharness",
            "level_claimed": {"category": "exploration", "text": text, "design_ref": ref},
            "level_note": note,
            "technique": tech,
        })

pending = "not yet covered by a registered check in this revision of /verif (work in progress; see DESIGN.md section 4 for the planned property-based check)"
na = []
for i in ids:
    if i not in CHECKS:
        na.append({"property_id": i, "reason": NOT_APPLICABLE.get(i, pending)})

manifest = {
    "version": 1,
    "setup_cmd": "cd /verif/harness && CARGO_NET_OFFLINE=true cargo build --profile verif",
    "hooks": {
        "guard": "cargo feature `verif-hooks` on crates aiken-lang and aiken-project (default off)",
        "enable": "the harness crate depends on /repo/crates/{aiken-lang,aiken-project} by path with features = [\"verif-hooks\"]; ./check rebuilds it (cargo build --profile verif) before every run",
        "baseline_off_cmd": "cd /repo && cargo nextest run --workspace --no-fail-fast --test-threads 8 --offline || cargo test --workspace --no-fail-fast --offline",
        "source_commits": hook_commits(),
        "add_only": True,
    },
    "engines": [
        {"name": "vharness", "path": "/verif/harness", "serves_properties": sorted(CHECKS.keys()),
         "kind_free_text": "Rust binary (vcheck): supervisor + worker processes; proptest 1.9 TestRunner drives choice sequences (Vec<u32>) decoded by hand-written type-directed generators; exhaustive enumerators for small finite families; reference models in harness/src/model; replay files in /verif/replays"},
    ],
    "checks": checks,
    "not_applicable": na,
    "notes": "Exit codes: 0 held on everything explored, 1 with a VIOLATION line, 2 inconclusive/infrastructure (watchdog, build failure). VERIF_SEED selects the PRNG seed (default 0). Known findings: /verif/known_findings.json.",
}
json.dump(manifest, open(os.path.join(ROOT, "MANIFEST.json"), "w"), indent=1)
print("wrote MANIFEST.json with", len(checks), "checks,", len(na), "not_applicable")

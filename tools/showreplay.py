#!/usr/bin/env python3
"""Print a replay file compactly: the generated part of the source (library helpers elided)."""
import json, sys, re
for f in sys.argv[1:]:
    j = json.load(open(f))
    d = j.get("detail", {})
    inp = d.get("input") or j.get("input") or {}
    src = inp.get("source", "") if isinstance(inp, dict) else ""
    # drop the fixed library g_* functions
    src = re.sub(r"fn g_\w+\(.*?\n}\n\n", "", src, flags=re.S)
    print("=" * 100)
    print(f, "|", j.get("check"), "|", j.get("signature"))
    print(src)
    if isinstance(inp, dict):
        print("args:", inp.get("args"))
    for k, v in d.items():
        if k != "input":
            print(f"{k}: {str(v)[:600]}")

#!/usr/bin/env python3-vt
"""Validates MANIFEST.json and every evidence file against the schemas in /root/.vp."""
import json, sys, os, jsonschema
root = os.path.dirname(os.path.dirname(os.path.abspath(__file__)))
m = json.load(open(f"{root}/MANIFEST.json"))
jsonschema.validate(m, json.load(open("/root/.vp/MANIFEST.schema.json")))
es = json.load(open("/root/.vp/EVIDENCE.schema.json"))
bad = 0
for c in m["checks"]:
    try:
        e = json.load(open(c["evidence_file"]))
        jsonschema.validate(e, es)
        print(c["property_id"], "ok", e["tier"], e["coverage"]["evaluations"], e["coverage"]["distinct_nontrivial"], f'{e["wall_s"]:.0f}s', "exit", e.get("exit"))
    except Exception as ex:
        bad += 1
        print(c["property_id"], "BAD", str(ex)[:200])
ids = {json.loads(l)["id"] for l in open(f"{root}/properties.jsonl")}
claimed = {c["property_id"] for c in m["checks"]}
na = {n["property_id"] for n in m.get("not_applicable", [])}
assert claimed | na == ids and not (claimed & na), (ids - claimed - na, claimed & na)
sys.exit(1 if bad else 0)

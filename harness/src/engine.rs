//! Engine shared by all property checks.
//!
//! * `Src`   – a cursor over a choice sequence (`Vec<u32>`); every random decision of every
//!             generator is drawn from it, so proptest can shrink the sequence and a replay file
//!             is just the sequence.
//! * `Stats` – measured coverage (evaluations, distinct non-trivial cases, class histogram,
//!             samples) merged by the supervisor into the evidence file.
//! * `Cx`    – per-worker context: runs proptest-driven checks (`prop`), shares enumerated
//!             domains between workers (`mine`), records violations and known findings.
use proptest::{
    strategy::{Strategy, ValueTree},
    test_runner::{Config, RngAlgorithm, RngSeed, TestCaseError, TestError, TestRng, TestRunner},
};
use serde_json::{Value as J, json};
use std::{
    cell::RefCell,
    collections::{BTreeMap, HashSet},
    hash::{Hash, Hasher},
    panic::{AssertUnwindSafe, catch_unwind},
    path::PathBuf,
    sync::{
        Arc, Mutex,
        atomic::{AtomicU64, Ordering},
    },
};

// ------------------------------------------------------------------------------------------------
// choice source

pub struct Src<'a> {
    data: &'a [u32],
    pos: usize,
}

impl<'a> Src<'a> {
    pub fn new(data: &'a [u32]) -> Self {
        Src { data, pos: 0 }
    }

    /// Next raw choice; 0 (the simplest choice) once the sequence is exhausted.
    pub fn next(&mut self) -> u32 {
        let v = self.data.get(self.pos).copied().unwrap_or(0);
        self.pos += 1;
        v
    }

    pub fn exhausted(&self) -> bool {
        self.pos >= self.data.len()
    }

    pub fn used(&self) -> usize {
        self.pos.min(self.data.len())
    }

    /// Uniform in 0..n, monotone in the raw choice (smaller raw choice = smaller index).
    pub fn below(&mut self, n: usize) -> usize {
        if n <= 1 {
            // still consume nothing: a forced choice is not a choice
            return 0;
        }
        ((self.next() as u64 * n as u64) >> 32) as usize
    }

    /// Inclusive range.
    pub fn range(&mut self, lo: i64, hi: i64) -> i64 {
        debug_assert!(lo <= hi);
        lo + self.below((hi - lo + 1) as usize) as i64
    }

    pub fn bool(&mut self) -> bool {
        self.below(2) == 1
    }

    /// true with probability num/den; `false` is the simple outcome.
    pub fn chance(&mut self, num: usize, den: usize) -> bool {
        self.below(den) >= den - num
    }

    /// Weighted index; put the simplest alternative first.
    pub fn weighted(&mut self, weights: &[u32]) -> usize {
        let total: u32 = weights.iter().sum();
        let mut x = self.below(total as usize) as u32;
        for (i, w) in weights.iter().enumerate() {
            if x < *w {
                return i;
            }
            x -= *w;
        }
        weights.len() - 1
    }

    pub fn pick<'b, T>(&mut self, xs: &'b [T]) -> &'b T {
        &xs[self.below(xs.len())]
    }

    pub fn u64(&mut self) -> u64 {
        ((self.next() as u64) << 32) | self.next() as u64
    }

    pub fn byte(&mut self) -> u8 {
        (self.next() >> 24) as u8
    }

    pub fn bytes(&mut self, len: usize) -> Vec<u8> {
        (0..len).map(|_| self.byte()).collect()
    }
}

// ------------------------------------------------------------------------------------------------
// failures

#[derive(Debug, Clone)]
pub struct Failure {
    /// Root-cause key, matched against known_findings.json.
    pub signature: String,
    /// Human readable description of the failing case (inputs, expected, actual).
    pub detail: J,
}

impl Failure {
    pub fn new(signature: impl Into<String>, detail: J) -> Self {
        Failure {
            signature: signature.into(),
            detail,
        }
    }
}

pub type CheckResult = Result<(), Failure>;

// ------------------------------------------------------------------------------------------------
// panic capture

thread_local! {
    static LAST_PANIC: RefCell<Option<(String, String)>> = const { RefCell::new(None) };
}

pub fn install_panic_hook() {
    std::panic::set_hook(Box::new(|info| {
        let msg = if let Some(s) = info.payload().downcast_ref::<&str>() {
            s.to_string()
        } else if let Some(s) = info.payload().downcast_ref::<String>() {
            s.clone()
        } else {
            "<non-string panic>".to_string()
        };
        let loc = info
            .location()
            .map(|l| format!("{}:{}", l.file(), l.line()))
            .unwrap_or_default();
        if std::env::var("VERIF_BACKTRACE").is_ok() {
            eprintln!("panic: {msg} at {loc}\n{}", std::backtrace::Backtrace::force_capture());
        }
        LAST_PANIC.with(|p| *p.borrow_mut() = Some((msg, loc)));
    }));
}

/// Run `f`, turning a panic into `Err((message, location))`.
pub fn no_panic<T>(f: impl FnOnce() -> T) -> Result<T, (String, String)> {
    LAST_PANIC.with(|p| *p.borrow_mut() = None);
    match catch_unwind(AssertUnwindSafe(f)) {
        Ok(v) => Ok(v),
        Err(_) => Err(LAST_PANIC
            .with(|p| p.borrow_mut().take())
            .unwrap_or_else(|| ("<unknown panic>".into(), String::new()))),
    }
}

/// Signature of a panic: entry point + file of the panic + first words of the message
/// (digits removed so the same root cause with another number matches).
pub fn panic_signature(entry: &str, msg: &str, loc: &str) -> String {
    let file = loc.rsplit('/').next().unwrap_or(loc);
    let file = file.split(':').next().unwrap_or(file);
    let short: String = msg
        .chars()
        .filter(|c| !c.is_ascii_digit())
        .take(60)
        .collect::<String>()
        .split_whitespace()
        .take(6)
        .collect::<Vec<_>>()
        .join(" ");
    // call site (file + message) first, entry point last: a known finding is keyed on the call
    // site and matches whatever entry point reaches it
    format!("panic:{file}:{short}@{entry}")
}

pub fn panic_failure(entry: &str, p: (String, String), input: J) -> Failure {
    Failure::new(
        panic_signature(entry, &p.0, &p.1),
        json!({"panic": p.0, "at": p.1, "entry": entry, "input": input}),
    )
}

// ------------------------------------------------------------------------------------------------
// stats

#[derive(Default)]
pub struct Stats {
    pub evaluations: u64,
    nontrivial: HashSet<u64>,
    pub classes: BTreeMap<String, u64>,
    pub samples: Vec<J>,
    sample_seen: u64,
    pub frozen: bool,
    pub exhaustive: Option<bool>,
}

pub fn hash_of<T: Hash + ?Sized>(t: &T) -> u64 {
    let mut h = std::collections::hash_map::DefaultHasher::new();
    t.hash(&mut h);
    h.finish()
}

impl Stats {
    /// A throw-away collector that records nothing (used while shrinking).
    pub fn scratch() -> Stats {
        Stats { frozen: true, ..Stats::default() }
    }

    pub fn eval(&mut self) {
        if !self.frozen {
            self.evaluations += 1;
        }
    }

    pub fn evals(&mut self, n: u64) {
        if !self.frozen {
            self.evaluations += n;
        }
    }

    /// Record a distinct non-trivial case identified by `key`.
    pub fn nontrivial<T: Hash + ?Sized>(&mut self, key: &T) {
        if !self.frozen && self.nontrivial.len() < 4_000_000 {
            self.nontrivial.insert(hash_of(key));
        }
    }

    pub fn class(&mut self, name: &str) {
        if !self.frozen {
            *self.classes.entry(name.to_string()).or_insert(0) += 1;
        }
    }

    pub fn class_n(&mut self, name: &str, n: u64) {
        if !self.frozen {
            *self.classes.entry(name.to_string()).or_insert(0) += n;
        }
    }

    /// Keep a sample: the first few, then exponentially spaced ones.
    pub fn sample(&mut self, f: impl FnOnce() -> J) {
        if self.frozen {
            return;
        }
        self.sample_seen += 1;
        let n = self.sample_seen;
        if n <= 3 || (n.is_power_of_two() && self.samples.len() < 12) {
            self.samples.push(f());
        }
    }

    pub fn to_json(&self) -> J {
        json!({
            "evaluations": self.evaluations,
            "nontrivial": self.nontrivial.iter().collect::<Vec<_>>(),
            "classes": self.classes,
            "samples": self.samples,
            "exhaustive": self.exhaustive,
        })
    }
}

// ------------------------------------------------------------------------------------------------
// known findings

#[derive(Debug, Clone)]
pub struct Known {
    pub property: String,
    pub status: String,
    pub signature: String,
    pub what: String,
}

pub fn load_known(root: &std::path::Path) -> Vec<Known> {
    let p = root.join("known_findings.json");
    let Ok(s) = std::fs::read_to_string(p) else {
        return vec![];
    };
    let Ok(j) = serde_json::from_str::<J>(&s) else {
        return vec![];
    };
    j["findings"]
        .as_array()
        .map(|a| {
            a.iter()
                .map(|e| Known {
                    property: e["property"].as_str().unwrap_or("").to_string(),
                    status: e["status"].as_str().unwrap_or("").to_string(),
                    signature: e["signature"].as_str().unwrap_or("").to_string(),
                    what: e["what"].as_str().unwrap_or("").to_string(),
                })
                .collect()
        })
        .unwrap_or_default()
}

// ------------------------------------------------------------------------------------------------
// worker context

#[derive(Clone, Copy, PartialEq, Eq, Debug)]
pub enum Tier {
    Quick,
    Thorough,
}

impl Tier {
    pub fn name(self) -> &'static str {
        match self {
            Tier::Quick => "quick",
            Tier::Thorough => "thorough",
        }
    }
    /// pick by tier
    pub fn of<T>(self, quick: T, thorough: T) -> T {
        match self {
            Tier::Quick => quick,
            Tier::Thorough => thorough,
        }
    }
}

pub struct Replay {
    pub check: String,
    pub choices: Option<Vec<u32>>,
    pub input: J,
}

pub struct Progress {
    pub counter: AtomicU64,
    pub current: Mutex<(String, Vec<u32>)>,
}

pub struct Cx {
    pub property: String,
    pub tier: Tier,
    pub seed: u64,
    pub worker: usize,
    pub nworkers: usize,
    pub root: PathBuf,
    pub workdir: PathBuf,
    pub stats: Stats,
    pub known: Vec<Known>,
    pub known_hits: BTreeMap<String, u64>,
    pub violations: Vec<(String, PathBuf)>,
    pub replay: Option<Replay>,
    pub progress: Arc<Progress>,
    /// write the case about to run to a side file (for crashes that kill the process)
    pub crashy: bool,
    pub notes: Vec<String>,
    /// proptest shrink iterations per failure (lower it for expensive cases)
    pub shrink_iters: u32,
}

impl Cx {
    pub fn is_replay(&self) -> bool {
        self.replay.is_some()
    }

    /// Split `total` cases over the workers.
    pub fn share_of(&self, total: u64) -> u64 {
        let base = total / self.nworkers as u64;
        let extra = if (self.worker as u64) < total % self.nworkers as u64 {
            1
        } else {
            0
        };
        base + extra
    }

    /// Is item `i` of an enumerated domain this worker's?
    pub fn mine(&self, i: u64) -> bool {
        i % self.nworkers as u64 == self.worker as u64
    }

    fn known_status(&self, sig: &str) -> Option<&Known> {
        self.known
            .iter()
            .find(|k| k.status == "known" && k.property == self.property && sig.starts_with(&k.signature))
    }

    fn side_file(&self) -> PathBuf {
        self.workdir.join(format!("current-{}.json", self.worker))
    }

    fn tick(&self, name: &str, choices: Option<&[u32]>, input: Option<&J>) {
        self.progress.counter.fetch_add(1, Ordering::Relaxed);
        if let Ok(mut cur) = self.progress.current.try_lock() {
            cur.0.clear();
            cur.0.push_str(name);
            cur.1.clear();
            if let Some(c) = choices {
                cur.1.extend_from_slice(c);
            }
        }
        if self.crashy {
            let j = json!({"property": self.property, "check": name, "choices": choices, "input": input});
            let _ = std::fs::write(self.side_file(), j.to_string());
        }
    }

    pub fn note(&mut self, s: impl Into<String>) {
        self.notes.push(s.into());
    }

    /// Record a violation (or a known finding) found outside `prop`, e.g. in an enumeration.
    pub fn report(&mut self, check: &str, choices: Option<&[u32]>, f: Failure) {
        if let Some(k) = self.known_status(&f.signature) {
            *self.known_hits.entry(k.signature.clone()).or_insert(0) += 1;
            return;
        }
        // one replay per root cause per worker
        if self.violations.iter().any(|(s, _)| *s == f.signature) {
            return;
        }
        let h = hash_of(&(f.signature.as_str(), choices, f.detail.to_string()));
        let path = self
            .root
            .join("replays")
            .join(format!("{}-{:016x}.json", self.property, h));
        let j = json!({
            "property": self.property,
            "check": check,
            "signature": f.signature,
            "choices": choices,
            "input": f.detail.get("input").cloned().unwrap_or(J::Null),
            "detail": f.detail,
            "seed": self.seed,
            "tier": self.tier.name(),
        });
        let _ = std::fs::create_dir_all(path.parent().unwrap());
        let _ = std::fs::write(&path, serde_json::to_string_pretty(&j).unwrap());
        println!("VIOLATION property={} replay={}", self.property, path.display());
        println!("  signature: {}", f.signature);
        let d = f.detail.to_string();
        println!("  detail: {}", &d[..d.len().min(1500)]);
        self.violations.push((f.signature, path));
    }

    /// Run one directly described case (enumerations, corpus files). In replay mode only the
    /// case whose check name matches is run, with the recorded input.
    pub fn direct(&mut self, check: &str, input: &J, f: impl FnOnce(&mut Stats) -> CheckResult) {
        self.tick(check, None, Some(input));
        let r = match no_panic(|| f(&mut self.stats)) {
            Ok(r) => r,
            Err(p) => Err(panic_failure(check, p, input.clone())),
        };
        if let Err(mut fail) = r {
            if fail.detail.get("input").is_none() {
                fail.detail["input"] = input.clone();
            }
            self.report(check, None, fail);
        }
    }

    /// In replay mode: the recorded input if the replay targets `check`.
    pub fn replay_input(&self, check: &str) -> Option<J> {
        match &self.replay {
            Some(r) if r.check == check && r.choices.is_none() => Some(r.input.clone()),
            _ => None,
        }
    }

    /// A proptest-driven check: `total` cases over all workers, each a choice sequence of at most
    /// `max_len` draws decoded by `f`. Failures are shrunk by proptest and written as replay files.
    pub fn prop(
        &mut self,
        name: &str,
        total: u64,
        max_len: usize,
        f: impl Fn(&mut Src, &mut Stats) -> CheckResult,
    ) {
        if let Some(r) = &self.replay {
            if r.check != name {
                return;
            }
            let Some(choices) = r.choices.clone() else {
                return;
            };
            self.tick(name, Some(&choices), None);
            let res = {
                let stats = &mut self.stats;
                match no_panic(|| f(&mut Src::new(&choices), stats)) {
                    Ok(r) => r,
                    Err(p) => Err(panic_failure(name, p, J::Null)),
                }
            };
            if let Err(fail) = res {
                if std::env::var("VERIF_SHRINK").is_ok() {
                    // re-shrink a recorded failure (debugging aid)
                    let want = fail.signature.clone();
                    let budget = std::env::var("VERIF_SHRINK").ok().and_then(|s| s.parse().ok()).unwrap_or(3000usize);
                    let mut scratch = Stats { frozen: true, ..Stats::default() };
                    let minimal = shrink_choices(choices.clone(), budget, |c| matches!(no_panic(|| f(&mut Src::new(c), &mut scratch)), Ok(Err(fl)) if fl.signature == want));
                    let res2 = no_panic(|| f(&mut Src::new(&minimal), &mut scratch)).unwrap_or(Ok(()));
                    if let Err(f2) = res2 {
                        self.report(name, Some(&minimal), f2);
                        return;
                    }
                }
                self.report(name, Some(&choices), fail);
            }
            return;
        }

        let cases = self.share_of(total);
        if cases == 0 {
            return;
        }
        let mut remaining = cases;
        let mut round = 0u64;
        // After a violation (or known finding) the search continues with a fresh runner, so one
        // shallow defect does not hide what lies behind it; at most a few rounds.
        while remaining > 0 && round < 6 {
            let seed_material = hash_of(&(self.seed, self.worker as u64, name, round));
            let mut seed_bytes = [0u8; 32];
            for (i, b) in seed_bytes.iter_mut().enumerate() {
                *b = (seed_material.rotate_left((i as u32 * 7) % 64) >> (i % 8)) as u8 ^ (i as u8).wrapping_mul(31);
            }
            let config = Config {
                cases: remaining.min(u32::MAX as u64) as u32,
                failure_persistence: None,
                rng_seed: RngSeed::Fixed(seed_material),
                max_shrink_iters: self.shrink_iters.min(200),
                max_shrink_time: 0,
                max_local_rejects: u32::MAX,
                max_global_rejects: u32::MAX,
                ..Config::default()
            };
            let mut runner = TestRunner::new_with_rng(
                config,
                TestRng::from_seed(RngAlgorithm::ChaCha, &seed_bytes),
            );
            let strat = proptest::collection::vec(proptest::num::u32::ANY, 0..=max_len);

            let shared = RefCell::new((std::mem::take(&mut self.stats), None::<Failure>, 0u64));
            let known_local = RefCell::new(BTreeMap::<String, u64>::new());
            let this: &Cx = self;
            let result = runner.run(&strat, |choices| {
                let mut g = shared.borrow_mut();
                let (stats, first_fail, ran) = &mut *g;
                this.tick(name, Some(&choices), None);
                if !stats.frozen {
                    *ran += 1;
                }
                let res = match no_panic(|| f(&mut Src::new(&choices), stats)) {
                    Ok(r) => r,
                    Err(p) => Err(panic_failure(name, p, J::Null)),
                };
                match res {
                    Ok(()) => Ok(()),
                    Err(fail) => {
                        if let Some(k) = this.known_status(&fail.signature) {
                            if !stats.frozen {
                                *known_local.borrow_mut().entry(k.signature.clone()).or_insert(0) += 1;
                            }
                            return Ok(());
                        }
                        // shrinking: only accept failures with the same root cause
                        if let Some(ff) = first_fail.as_ref() {
                            if ff.signature != fail.signature {
                                return Ok(());
                            }
                        } else {
                            stats.frozen = true;
                        }
                        *first_fail = Some(fail.clone());
                        Err(TestCaseError::fail(fail.signature))
                    }
                }
            });
            let (mut stats, last_fail, ran) = shared.into_inner();
            for (k, v) in known_local.into_inner() {
                *self.known_hits.entry(k).or_insert(0) += v;
            }
            stats.frozen = false;
            self.stats = stats;
            remaining = remaining.saturating_sub(ran.max(1));
            round += 1;
            match result {
                Ok(()) => break,
                Err(TestError::Fail(_, minimal)) => {
                    // second shrinking pass, structure-preserving: truncate, zero blocks, delete
                    // blocks, halve values (choice sequences decode type-directed generators,
                    // so zeroing a block collapses a sub-structure to its simplest alternative
                    // without shifting what comes before it)
                    let want_sig = last_fail.as_ref().map(|f| f.signature.clone());
                    let minimal = {
                        let mut scratch = Stats { frozen: true, ..Stats::default() };
                        let this: &Cx = self;
                        let budget = self.shrink_iters as usize;
                        shrink_choices(minimal, budget, |c| {
                            this.tick(name, Some(c), None);
                            let r = match no_panic(|| f(&mut Src::new(c), &mut scratch)) {
                                Ok(r) => r,
                                Err(p) => Err(panic_failure(name, p, J::Null)),
                            };
                            match (&r, &want_sig) {
                                (Err(fl), Some(w)) => fl.signature == *w,
                                (Err(_), None) => true,
                                _ => false,
                            }
                        })
                    };
                    // re-run the minimal case to get its own description
                    let res = {
                        let mut scratch = Stats {
                            frozen: true,
                            ..Stats::default()
                        };
                        match no_panic(|| f(&mut Src::new(&minimal), &mut scratch)) {
                            Ok(r) => r,
                            Err(p) => Err(panic_failure(name, p, J::Null)),
                        }
                    };
                    let fail = match res {
                        Err(fail) => fail,
                        Ok(()) => last_fail.unwrap_or_else(|| {
                            Failure::new("flaky", json!({"note": "minimal case passed on re-run"}))
                        }),
                    };
                    let before = self.violations.len();
                    let sig = fail.signature.clone();
                    self.report(name, Some(&minimal), fail);
                    if self.violations.len() == before && self.known_status(&sig).is_none() {
                        // same root cause reported already: stop this check
                        break;
                    }
                }
                Err(TestError::Abort(reason)) => {
                    self.note(format!("{name}: proptest aborted: {reason}"));
                    break;
                }
            }
        }
    }
}

/// Draw a single value from a proptest strategy with the runner's RNG (used where a proptest
/// strategy is more convenient than a hand-written decoder, e.g. regex strings).
pub fn draw<S: Strategy>(runner: &mut TestRunner, s: &S) -> S::Value {
    s.new_tree(runner).expect("strategy").current()
}

/// Structure-preserving shrinking of a choice sequence; `test` returns true while the case still
/// fails with the same root cause. At most `budget` calls.
pub fn shrink_choices(mut cur: Vec<u32>, budget: usize, mut test: impl FnMut(&[u32]) -> bool) -> Vec<u32> {
    let mut calls = 0usize;
    let mut attempt = |cand: &[u32], calls: &mut usize| -> bool {
        if *calls >= budget {
            return false;
        }
        *calls += 1;
        test(cand)
    };
    // drop trailing zeros (an exhausted sequence reads as zeros)
    while cur.last() == Some(&0) {
        cur.pop();
    }
    // 1. truncate (binary search on the prefix length)
    let (mut lo, mut hi) = (0usize, cur.len());
    while lo < hi && calls < budget {
        let mid = (lo + hi) / 2;
        if attempt(&cur[..mid], &mut calls) {
            hi = mid;
        } else {
            lo = mid + 1;
        }
    }
    if hi < cur.len() && attempt(&cur[..hi], &mut calls) {
        cur.truncate(hi);
    }
    let mut improved = true;
    let mut rounds = 0;
    while improved && calls < budget && rounds < 4 {
        improved = false;
        rounds += 1;
        // 2. zero blocks
        for size in [64usize, 16, 4, 1] {
            let mut i = 0;
            while i < cur.len() && calls < budget {
                let end = (i + size).min(cur.len());
                if cur[i..end].iter().any(|x| *x != 0) {
                    let mut cand = cur.clone();
                    for x in &mut cand[i..end] {
                        *x = 0;
                    }
                    if attempt(&cand, &mut calls) {
                        cur = cand;
                        improved = true;
                    }
                }
                i = end;
            }
        }
        // 3. delete blocks
        for size in [16usize, 4, 1] {
            let mut i = 0;
            while i + size <= cur.len() && calls < budget {
                let mut cand = cur.clone();
                cand.drain(i..i + size);
                if attempt(&cand, &mut calls) {
                    cur = cand;
                    improved = true;
                } else {
                    i += size;
                }
            }
        }
        while cur.last() == Some(&0) {
            cur.pop();
        }
    }
    // 4. halve remaining values
    let mut i = 0;
    while i < cur.len() && calls < budget {
        let mut v = cur[i];
        while v > 0 && calls < budget {
            let cand_v = v / 2;
            let mut cand = cur.clone();
            cand[i] = cand_v;
            if attempt(&cand, &mut calls) {
                cur = cand;
                v = cand_v;
            } else {
                break;
            }
        }
        i += 1;
    }
    cur
}

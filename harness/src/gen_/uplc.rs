//! G-UPLC: own de Bruijn term type `T`, conversions to the crate's binder forms, and the typed /
//! chaotic generators.
use crate::engine::Src;
use crate::gen_::consts::{self, CTy};
use std::rc::Rc;
use uplc::{
    ast::{Constant, DeBruijn, Name, NamedDeBruijn, Program, Term, Unique},
    builtins::DefaultFunction as F,
};

#[derive(Debug, Clone, PartialEq)]
pub enum T {
    /// 1-based de Bruijn index
    Var(usize),
    Lam(Rc<T>),
    App(Rc<T>, Rc<T>),
    Delay(Rc<T>),
    Force(Rc<T>),
    Con(Rc<Constant>),
    Builtin(F),
    Error,
    Constr(usize, Vec<T>),
    Case(Rc<T>, Vec<T>),
}

impl T {
    pub fn app(self, a: T) -> T {
        T::App(Rc::new(self), Rc::new(a))
    }
    pub fn lam(self) -> T {
        T::Lam(Rc::new(self))
    }
    pub fn delay(self) -> T {
        T::Delay(Rc::new(self))
    }
    pub fn force(self) -> T {
        T::Force(Rc::new(self))
    }
    pub fn con(c: Constant) -> T {
        T::Con(Rc::new(c))
    }
    pub fn int(i: i64) -> T {
        T::con(Constant::Integer(i.into()))
    }

    pub fn size(&self) -> usize {
        match self {
            T::Var(_) | T::Con(_) | T::Builtin(_) | T::Error => 1,
            T::Lam(b) | T::Delay(b) | T::Force(b) => 1 + b.size(),
            T::App(f, a) => 1 + f.size() + a.size(),
            T::Constr(_, fs) => 1 + fs.iter().map(|f| f.size()).sum::<usize>(),
            T::Case(s, bs) => 1 + s.size() + bs.iter().map(|f| f.size()).sum::<usize>(),
        }
    }

    /// Largest (index - binders above it) over all variables: 0 for closed terms.
    pub fn max_free(&self) -> usize {
        fn go(t: &T, depth: usize) -> usize {
            match t {
                T::Var(i) => {
                    if *i == 0 {
                        // index 0 refers to no binder at all
                        usize::MAX
                    } else {
                        i.saturating_sub(depth)
                    }
                }
                T::Con(_) | T::Builtin(_) | T::Error => 0,
                T::Lam(b) => go(b, depth + 1),
                T::Delay(b) | T::Force(b) => go(b, depth),
                T::App(f, a) => go(f, depth).max(go(a, depth)),
                T::Constr(_, fs) => fs.iter().map(|f| go(f, depth)).max().unwrap_or(0),
                T::Case(s, bs) => bs.iter().map(|f| go(f, depth)).fold(go(s, depth), usize::max),
            }
        }
        go(self, 0)
    }

    pub fn is_closed(&self) -> bool {
        self.max_free() == 0
    }

    pub fn to_ndb(&self) -> Term<NamedDeBruijn> {
        match self {
            T::Var(i) => Term::Var(Rc::new(NamedDeBruijn {
                text: "i".into(),
                index: DeBruijn::new(*i),
            })),
            T::Lam(b) => Term::Lambda {
                parameter_name: Rc::new(NamedDeBruijn {
                    text: "i".into(),
                    index: DeBruijn::new(0),
                }),
                body: Rc::new(b.to_ndb()),
            },
            T::App(f, a) => Term::Apply {
                function: Rc::new(f.to_ndb()),
                argument: Rc::new(a.to_ndb()),
            },
            T::Delay(b) => Term::Delay(Rc::new(b.to_ndb())),
            T::Force(b) => Term::Force(Rc::new(b.to_ndb())),
            T::Con(c) => Term::Constant(c.clone()),
            T::Builtin(f) => Term::Builtin(*f),
            T::Error => Term::Error,
            T::Constr(tag, fs) => Term::Constr {
                tag: *tag,
                fields: fs.iter().map(|f| f.to_ndb()).collect(),
            },
            T::Case(s, bs) => Term::Case {
                constr: Rc::new(s.to_ndb()),
                branches: bs.iter().map(|f| f.to_ndb()).collect(),
            },
        }
    }

    pub fn to_db(&self) -> Term<DeBruijn> {
        match self {
            T::Var(i) => Term::Var(Rc::new(DeBruijn::new(*i))),
            T::Lam(b) => Term::Lambda {
                parameter_name: Rc::new(DeBruijn::new(0)),
                body: Rc::new(b.to_db()),
            },
            T::App(f, a) => Term::Apply {
                function: Rc::new(f.to_db()),
                argument: Rc::new(a.to_db()),
            },
            T::Delay(b) => Term::Delay(Rc::new(b.to_db())),
            T::Force(b) => Term::Force(Rc::new(b.to_db())),
            T::Con(c) => Term::Constant(c.clone()),
            T::Builtin(f) => Term::Builtin(*f),
            T::Error => Term::Error,
            T::Constr(tag, fs) => Term::Constr {
                tag: *tag,
                fields: fs.iter().map(|f| f.to_db()).collect(),
            },
            T::Case(s, bs) => Term::Case {
                constr: Rc::new(s.to_db()),
                branches: bs.iter().map(|f| f.to_db()).collect(),
            },
        }
    }

    /// Named form with fresh, globally distinct uniques; texts `v<unique>`. Free variables (index
    /// beyond the binders) get uniques 1_000_000 + overshoot.
    pub fn to_named(&self) -> Term<Name> {
        fn go(t: &T, scope: &mut Vec<isize>, next: &mut isize) -> Term<Name> {
            let name = |u: isize| {
                Rc::new(Name {
                    text: format!("v{u}"),
                    unique: Unique::new(u),
                })
            };
            match t {
                T::Var(i) => {
                    let u = if *i >= 1 && *i <= scope.len() {
                        scope[scope.len() - i]
                    } else {
                        1_000_000 + (*i as isize)
                    };
                    Term::Var(name(u))
                }
                T::Lam(b) => {
                    let u = *next;
                    *next += 1;
                    scope.push(u);
                    let body = go(b, scope, next);
                    scope.pop();
                    Term::Lambda {
                        parameter_name: name(u),
                        body: Rc::new(body),
                    }
                }
                T::App(f, a) => Term::Apply {
                    function: Rc::new(go(f, scope, next)),
                    argument: Rc::new(go(a, scope, next)),
                },
                T::Delay(b) => Term::Delay(Rc::new(go(b, scope, next))),
                T::Force(b) => Term::Force(Rc::new(go(b, scope, next))),
                T::Con(c) => Term::Constant(c.clone()),
                T::Builtin(f) => Term::Builtin(*f),
                T::Error => Term::Error,
                T::Constr(tag, fs) => Term::Constr {
                    tag: *tag,
                    fields: fs.iter().map(|f| go(f, scope, next)).collect(),
                },
                T::Case(s, bs) => Term::Case {
                    constr: Rc::new(go(s, scope, next)),
                    branches: bs.iter().map(|f| go(f, scope, next)).collect(),
                },
            }
        }
        go(self, &mut vec![], &mut 0)
    }

    pub fn from_ndb(t: &Term<NamedDeBruijn>) -> T {
        match t {
            Term::Var(n) => T::Var(n.index.inner()),
            Term::Lambda { body, .. } => T::Lam(Rc::new(T::from_ndb(body))),
            Term::Apply { function, argument } => {
                T::App(Rc::new(T::from_ndb(function)), Rc::new(T::from_ndb(argument)))
            }
            Term::Delay(b) => T::Delay(Rc::new(T::from_ndb(b))),
            Term::Force(b) => T::Force(Rc::new(T::from_ndb(b))),
            Term::Constant(c) => T::Con(c.clone()),
            Term::Builtin(f) => T::Builtin(*f),
            Term::Error => T::Error,
            Term::Constr { tag, fields } => T::Constr(*tag, fields.iter().map(T::from_ndb).collect()),
            Term::Case { constr, branches } => T::Case(
                Rc::new(T::from_ndb(constr)),
                branches.iter().map(T::from_ndb).collect(),
            ),
        }
    }

    pub fn from_db(t: &Term<DeBruijn>) -> T {
        match t {
            Term::Var(n) => T::Var(n.inner()),
            Term::Lambda { body, .. } => T::Lam(Rc::new(T::from_db(body))),
            Term::Apply { function, argument } => {
                T::App(Rc::new(T::from_db(function)), Rc::new(T::from_db(argument)))
            }
            Term::Delay(b) => T::Delay(Rc::new(T::from_db(b))),
            Term::Force(b) => T::Force(Rc::new(T::from_db(b))),
            Term::Constant(c) => T::Con(c.clone()),
            Term::Builtin(f) => T::Builtin(*f),
            Term::Error => T::Error,
            Term::Constr { tag, fields } => T::Constr(*tag, fields.iter().map(T::from_db).collect()),
            Term::Case { constr, branches } => T::Case(
                Rc::new(T::from_db(constr)),
                branches.iter().map(T::from_db).collect(),
            ),
        }
    }

    pub fn program_ndb(&self) -> Program<NamedDeBruijn> {
        Program {
            version: (1, 1, 0),
            term: self.to_ndb(),
        }
    }

    /// Text in the concrete UPLC syntax (via the crate's printer on the de Bruijn form).
    pub fn text(&self) -> String {
        Program {
            version: (1, 1, 0),
            term: self.to_db(),
        }
        .to_pretty()
    }

    /// Compact own rendering that does not go through the crate's printer.
    pub fn show(&self) -> String {
        match self {
            T::Var(i) => format!("#{i}"),
            T::Lam(b) => format!("(lam {})", b.show()),
            T::App(f, a) => format!("[{} {}]", f.show(), a.show()),
            T::Delay(b) => format!("(delay {})", b.show()),
            T::Force(b) => format!("(force {})", b.show()),
            T::Con(c) => format!("(con {})", consts::show_const(c)),
            T::Builtin(f) => format!("(builtin {:?})", f),
            T::Error => "(error)".into(),
            T::Constr(tag, fs) => format!(
                "(constr {tag}{})",
                fs.iter().map(|f| format!(" {}", f.show())).collect::<String>()
            ),
            T::Case(s, bs) => format!(
                "(case {}{})",
                s.show(),
                bs.iter().map(|f| format!(" {}", f.show())).collect::<String>()
            ),
        }
    }
}

// ------------------------------------------------------------------------------------------------
// typed generation

#[derive(Debug, Clone, PartialEq)]
pub enum Ty {
    C(CTy),
    Fun(Box<Ty>, Box<Ty>),
    Delayed(Box<Ty>),
    /// sum of products
    Sop(Vec<Vec<Ty>>),
}

impl Ty {
    pub fn int() -> Ty {
        Ty::C(CTy::Int)
    }
    pub fn bool() -> Ty {
        Ty::C(CTy::Bool)
    }
    fn fun(a: Ty, b: Ty) -> Ty {
        Ty::Fun(Box::new(a), Box::new(b))
    }
}

pub struct GenCfg {
    pub max_depth: usize,
    /// allow `case` on builtin constants (only meaningful for semantics variant E)
    pub case_on_const: bool,
    pub allow_error: bool,
    pub big_consts: bool,
}

impl Default for GenCfg {
    fn default() -> Self {
        GenCfg {
            max_depth: 6,
            case_on_const: true,
            allow_error: true,
            big_consts: false,
        }
    }
}

pub fn gen_ty(src: &mut Src, depth: usize) -> Ty {
    let w: &[u32] = if depth == 0 { &[6, 2, 2, 1, 1, 1] } else { &[6, 2, 2, 1, 1, 1, 2, 2, 1, 1, 1] };
    match src.weighted(w) {
        0 => Ty::int(),
        1 => Ty::bool(),
        2 => Ty::C(CTy::Bytes),
        3 => Ty::C(CTy::Data),
        4 => Ty::C(CTy::Unit),
        5 => Ty::C(CTy::Str),
        6 => Ty::C(CTy::List(Box::new(gen_cty(src, depth - 1)))),
        7 => Ty::fun(gen_ty(src, depth - 1), gen_ty(src, depth - 1)),
        8 => Ty::Delayed(Box::new(gen_ty(src, depth - 1))),
        9 => Ty::C(CTy::Pair(
            Box::new(gen_cty(src, depth - 1)),
            Box::new(gen_cty(src, depth - 1)),
        )),
        _ => {
            let n = 1 + src.below(3);
            Ty::Sop(
                (0..n)
                    .map(|_| {
                        let k = src.below(3);
                        (0..k).map(|_| gen_ty(src, depth - 1)).collect()
                    })
                    .collect(),
            )
        }
    }
}

pub fn gen_cty(src: &mut Src, depth: usize) -> CTy {
    let w: &[u32] = if depth == 0 { &[5, 2, 2, 2, 1, 1] } else { &[5, 2, 2, 2, 1, 1, 2, 2] };
    match src.weighted(w) {
        0 => CTy::Int,
        1 => CTy::Bool,
        2 => CTy::Bytes,
        3 => CTy::Data,
        4 => CTy::Unit,
        5 => CTy::Str,
        6 => CTy::List(Box::new(gen_cty(src, depth - 1))),
        _ => CTy::Pair(
            Box::new(gen_cty(src, depth - 1)),
            Box::new(gen_cty(src, depth - 1)),
        ),
    }
}

fn force_n(mut t: T, n: u32) -> T {
    for _ in 0..n {
        t = t.force();
    }
    t
}

fn bi(f: F, forces: u32, args: Vec<T>) -> T {
    let mut t = force_n(T::Builtin(f), forces);
    for a in args {
        t = t.app(a);
    }
    t
}

/// Generate a term of type `ty` in environment `env` (env[len-1] is index 1).
pub fn gen_term(src: &mut Src, cfg: &GenCfg, ty: &Ty, env: &mut Vec<Ty>, depth: usize) -> T {
    // variables of the right type
    let vars: Vec<usize> = env
        .iter()
        .rev()
        .enumerate()
        .filter(|(_, t)| *t == ty)
        .map(|(i, _)| i + 1)
        .collect();

    let leaf = |src: &mut Src, env: &mut Vec<Ty>| -> T {
        if !vars.is_empty() && src.chance(2, 3) {
            return T::Var(*src.pick(&vars));
        }
        match ty {
            Ty::C(c) => T::con(consts::gen_const(src, c, cfg.big_consts)),
            Ty::Fun(a, b) => {
                env.push((**a).clone());
                let body = gen_term(src, cfg, b, env, 0);
                env.pop();
                body.lam()
            }
            Ty::Delayed(a) => gen_term(src, cfg, a, env, 0).delay(),
            Ty::Sop(alts) => {
                let tag = src.below(alts.len());
                let fields = alts[tag].iter().map(|t| gen_term(src, cfg, t, env, 0)).collect();
                T::Constr(tag, fields)
            }
        }
    };

    if depth == 0 {
        return leaf(src, env);
    }
    let d = depth - 1;

    // alternatives: 0 leaf, 1 intro form (lambda/delay/constr with deep body), 2 let-application,
    // 3 force of delay, 4 builtin producing ty, 5 ifThenElse/chooseList/... polymorphic eliminators,
    // 6 case on Sop, 7 case on constant, 8 partial builtin as function, 9 error
    let w: [u32; 10] = [4, 3, 3, 2, 4, 2, 2, if cfg.case_on_const { 1 } else { 0 }, 1, if cfg.allow_error { 1 } else { 0 }];
    match src.weighted(&w) {
        0 => leaf(src, env),
        1 => match ty {
            Ty::Fun(a, b) => {
                env.push((**a).clone());
                let body = gen_term(src, cfg, b, env, d);
                env.pop();
                body.lam()
            }
            Ty::Delayed(a) => gen_term(src, cfg, a, env, d).delay(),
            Ty::Sop(alts) => {
                let tag = src.below(alts.len());
                let fields = alts[tag].iter().map(|t| gen_term(src, cfg, t, env, d)).collect();
                T::Constr(tag, fields)
            }
            Ty::C(_) => leaf(src, env),
        },
        2 => {
            let a = gen_ty(src, 2.min(d));
            let f = gen_term(src, cfg, &Ty::fun(a.clone(), ty.clone()), env, d);
            let x = gen_term(src, cfg, &a, env, d);
            f.app(x)
        }
        3 => gen_term(src, cfg, &Ty::Delayed(Box::new(ty.clone())), env, d).force(),
        4 => gen_builtin_for(src, cfg, ty, env, d).unwrap_or_else(|| leaf(src, env)),
        5 => {
            let mut g = |src: &mut Src, t: &Ty, env: &mut Vec<Ty>| gen_term(src, cfg, t, env, d);
            match src.below(7) {
                0 => {
                    let c = g(src, &Ty::bool(), env);
                    let t = g(src, ty, env);
                    let e = g(src, ty, env);
                    bi(F::IfThenElse, 1, vec![c, t, e])
                }
                1 => {
                    // the idiomatic lazy if: force (ite c (delay t) (delay e))
                    let dty = Ty::Delayed(Box::new(ty.clone()));
                    let c = g(src, &Ty::bool(), env);
                    let t = g(src, &dty, env);
                    let e = g(src, &dty, env);
                    bi(F::IfThenElse, 1, vec![c, t, e]).force()
                }
                2 => {
                    let u = g(src, &Ty::C(CTy::Unit), env);
                    let t = g(src, ty, env);
                    bi(F::ChooseUnit, 1, vec![u, t])
                }
                3 => {
                    let s = g(src, &Ty::C(CTy::Str), env);
                    let t = g(src, ty, env);
                    bi(F::Trace, 1, vec![s, t])
                }
                4 => {
                    let lt = Ty::C(CTy::List(Box::new(gen_cty(src, 1))));
                    let l = g(src, &lt, env);
                    let a = g(src, ty, env);
                    let b = g(src, ty, env);
                    bi(F::ChooseList, 2, vec![l, a, b])
                }
                5 => {
                    let dd = g(src, &Ty::C(CTy::Data), env);
                    let bs: Vec<T> = (0..5).map(|_| g(src, ty, env)).collect();
                    let mut args = vec![dd];
                    args.extend(bs);
                    bi(F::ChooseData, 1, args)
                }
                _ => {
                    // fst/snd of a pair constant-typed value, only for constant types
                    if let Ty::C(c) = ty {
                        let other = gen_cty(src, 1);
                        if src.bool() {
                            let p = g(src, &Ty::C(CTy::Pair(Box::new(c.clone()), Box::new(other))), env);
                            bi(F::FstPair, 2, vec![p])
                        } else {
                            let p = g(src, &Ty::C(CTy::Pair(Box::new(other), Box::new(c.clone()))), env);
                            bi(F::SndPair, 2, vec![p])
                        }
                    } else {
                        leaf(src, env)
                    }
                }
            }
        }
        6 => {
            // case on a sum of products
            let n = 1 + src.below(3);
            let alts: Vec<Vec<Ty>> = (0..n)
                .map(|_| {
                    let k = src.below(3);
                    (0..k).map(|_| gen_ty(src, 1.min(d))).collect()
                })
                .collect();
            let scrut = gen_term(src, cfg, &Ty::Sop(alts.clone()), env, d);
            let branches = alts
                .iter()
                .map(|fields| {
                    // branch = \f1 .. \fk -> body
                    for f in fields {
                        env.push(f.clone());
                    }
                    let mut body = gen_term(src, cfg, ty, env, d);
                    for _ in fields {
                        env.pop();
                        body = body.lam();
                    }
                    body
                })
                .collect();
            T::Case(Rc::new(scrut), branches)
        }
        7 => {
            match src.below(5) {
                0 => {
                    let s = gen_term(src, cfg, &Ty::bool(), env, d);
                    let n = 1 + src.below(2);
                    let bs = (0..n).map(|_| gen_term(src, cfg, ty, env, d)).collect();
                    T::Case(Rc::new(s), bs)
                }
                1 => {
                    let s = gen_term(src, cfg, &Ty::C(CTy::Unit), env, d);
                    T::Case(Rc::new(s), vec![gen_term(src, cfg, ty, env, d)])
                }
                2 => {
                    let s = gen_term(src, cfg, &Ty::int(), env, d);
                    let n = 1 + src.below(4);
                    let bs = (0..n).map(|_| gen_term(src, cfg, ty, env, d)).collect();
                    T::Case(Rc::new(s), bs)
                }
                3 => {
                    let el = gen_cty(src, 1);
                    let lt = CTy::List(Box::new(el.clone()));
                    let s = gen_term(src, cfg, &Ty::C(lt.clone()), env, d);
                    env.push(Ty::C(el));
                    env.push(Ty::C(lt));
                    let cons = gen_term(src, cfg, ty, env, d).lam().lam();
                    env.pop();
                    env.pop();
                    let mut bs = vec![cons];
                    if src.chance(3, 4) {
                        bs.push(gen_term(src, cfg, ty, env, d));
                    }
                    T::Case(Rc::new(s), bs)
                }
                _ => {
                    let a = gen_cty(src, 1);
                    let b = gen_cty(src, 1);
                    let s = gen_term(
                        src,
                        cfg,
                        &Ty::C(CTy::Pair(Box::new(a.clone()), Box::new(b.clone()))),
                        env,
                        d,
                    );
                    env.push(Ty::C(a));
                    env.push(Ty::C(b));
                    let br = gen_term(src, cfg, ty, env, d).lam().lam();
                    env.pop();
                    env.pop();
                    T::Case(Rc::new(s), vec![br])
                }
            }
        }
        8 => {
            // partially applied builtins as function values
            match ty {
                Ty::Fun(a, b) if **a == Ty::int() && **b == Ty::int() => {
                    let k = gen_term(src, cfg, &Ty::int(), env, d);
                    let f = *src.pick(&[F::AddInteger, F::SubtractInteger, F::MultiplyInteger]);
                    T::Builtin(f).app(k)
                }
                Ty::Fun(a, b) if **a == Ty::int() && **b == Ty::bool() => {
                    let k = gen_term(src, cfg, &Ty::int(), env, d);
                    let f = *src.pick(&[F::EqualsInteger, F::LessThanInteger, F::LessThanEqualsInteger]);
                    T::Builtin(f).app(k)
                }
                Ty::Fun(a, b) if **a == **b => {
                    // (force ifThenElse) c x : a -> a
                    let c = gen_term(src, cfg, &Ty::bool(), env, d);
                    let x = gen_term(src, cfg, a, env, d);
                    bi(F::IfThenElse, 1, vec![c, x])
                }
                _ => leaf(src, env),
            }
        }
        _ => T::Error,
    }
}

/// A saturated builtin application whose result has type `ty`, if there is one.
fn gen_builtin_for(src: &mut Src, cfg: &GenCfg, ty: &Ty, env: &mut Vec<Ty>, d: usize) -> Option<T> {
    use CTy::*;
    let Ty::C(c) = ty else { return None };
    let mut g = |src: &mut Src, t: CTy, env: &mut Vec<Ty>| gen_term(src, cfg, &Ty::C(t), env, d);
    let data_list = || List(Box::new(Data));
    let pair_dd = || Pair(Box::new(Data), Box::new(Data));
    Some(match c {
        Int => match src.below(11) {
            0..=6 => {
                let f = [
                    F::AddInteger,
                    F::SubtractInteger,
                    F::MultiplyInteger,
                    F::DivideInteger,
                    F::QuotientInteger,
                    F::RemainderInteger,
                    F::ModInteger,
                ][src.below(7)];
                let a = g(src, Int, env);
                let b = g(src, Int, env);
                bi(f, 0, vec![a, b])
            }
            7 => {
                let a = g(src, Bytes, env);
                bi(F::LengthOfByteString, 0, vec![a])
            }
            8 => {
                let a = g(src, Bytes, env);
                let b = g(src, Int, env);
                bi(F::IndexByteString, 0, vec![a, b])
            }
            9 => {
                let a = g(src, Data, env);
                bi(F::UnIData, 0, vec![a])
            }
            _ => {
                let l = g(src, List(Box::new(Int)), env);
                bi(F::HeadList, 1, vec![l])
            }
        },
        Bool => match src.below(9) {
            0..=2 => {
                let f = [F::EqualsInteger, F::LessThanInteger, F::LessThanEqualsInteger][src.below(3)];
                let a = g(src, Int, env);
                let b = g(src, Int, env);
                bi(f, 0, vec![a, b])
            }
            3..=5 => {
                let f = [F::EqualsByteString, F::LessThanByteString, F::LessThanEqualsByteString][src.below(3)];
                let a = g(src, Bytes, env);
                let b = g(src, Bytes, env);
                bi(f, 0, vec![a, b])
            }
            6 => {
                let a = g(src, Str, env);
                let b = g(src, Str, env);
                bi(F::EqualsString, 0, vec![a, b])
            }
            7 => {
                let a = g(src, Data, env);
                let b = g(src, Data, env);
                bi(F::EqualsData, 0, vec![a, b])
            }
            _ => {
                let lt = List(Box::new(crate::gen_::uplc::gen_cty(src, 1)));
                let l = g(src, lt, env);
                bi(F::NullList, 1, vec![l])
            }
        },
        Bytes => match src.below(5) {
            0 => {
                let a = g(src, Bytes, env);
                let b = g(src, Bytes, env);
                bi(F::AppendByteString, 0, vec![a, b])
            }
            1 => {
                let a = g(src, Int, env);
                let b = g(src, Bytes, env);
                bi(F::ConsByteString, 0, vec![a, b])
            }
            2 => {
                let a = g(src, Int, env);
                let b = g(src, Int, env);
                let c = g(src, Bytes, env);
                bi(F::SliceByteString, 0, vec![a, b, c])
            }
            3 => {
                let a = g(src, Str, env);
                bi(F::EncodeUtf8, 0, vec![a])
            }
            _ => {
                let a = g(src, Data, env);
                bi(F::UnBData, 0, vec![a])
            }
        },
        Str => {
            if src.bool() {
                let a = g(src, Str, env);
                let b = g(src, Str, env);
                bi(F::AppendString, 0, vec![a, b])
            } else {
                let a = g(src, Bytes, env);
                bi(F::DecodeUtf8, 0, vec![a])
            }
        }
        Unit => return None,
        Data => match src.below(6) {
            0 => {
                let a = g(src, Int, env);
                let b = g(src, data_list(), env);
                bi(F::ConstrData, 0, vec![a, b])
            }
            1 => {
                let a = g(src, List(Box::new(pair_dd())), env);
                bi(F::MapData, 0, vec![a])
            }
            2 => {
                let a = g(src, data_list(), env);
                bi(F::ListData, 0, vec![a])
            }
            3 => {
                let a = g(src, Int, env);
                bi(F::IData, 0, vec![a])
            }
            4 => {
                let a = g(src, Bytes, env);
                bi(F::BData, 0, vec![a])
            }
            _ => {
                let a = g(src, data_list(), env);
                bi(F::HeadList, 1, vec![a])
            }
        },
        List(el) => match src.below(6) {
            0 => {
                let l = g(src, c.clone(), env);
                bi(F::TailList, 1, vec![l])
            }
            1 => {
                let x = g(src, (**el).clone(), env);
                let l = g(src, c.clone(), env);
                bi(F::MkCons, 1, vec![x, l])
            }
            2 => {
                let n = g(src, Int, env);
                let l = g(src, c.clone(), env);
                bi(F::DropList, 1, vec![n, l])
            }
            3 if **el == Data => {
                let a = g(src, Data, env);
                bi(F::UnListData, 0, vec![a])
            }
            4 if **el == Data => {
                let a = g(src, Unit, env);
                bi(F::MkNilData, 0, vec![a])
            }
            3 if **el == pair_dd() => {
                let a = g(src, Data, env);
                bi(F::UnMapData, 0, vec![a])
            }
            4 if **el == pair_dd() => {
                let a = g(src, Unit, env);
                bi(F::MkNilPairData, 0, vec![a])
            }
            _ => {
                let l = g(src, c.clone(), env);
                bi(F::TailList, 1, vec![l])
            }
        },
        Pair(a, b) => {
            if **a == Data && **b == Data {
                let x = g(src, Data, env);
                let y = g(src, Data, env);
                bi(F::MkPairData, 0, vec![x, y])
            } else if **a == Int && **b == data_list() {
                let x = g(src, Data, env);
                bi(F::UnConstrData, 0, vec![x])
            } else {
                return None;
            }
        }
        _ => return None,
    })
}

/// Chaotic closed-ish terms: arbitrary constructors; variable indices within `depth` binders
/// unless `open` (then also 0, depth+1, huge).
pub fn gen_chaotic(src: &mut Src, binders: usize, fuel: &mut usize, open: bool) -> T {
    if *fuel == 0 {
        return if binders > 0 && src.bool() {
            T::Var(1 + src.below(binders))
        } else {
            T::con(consts::gen_const(src, &CTy::Int, false))
        };
    }
    *fuel -= 1;
    match src.weighted(&[3, 3, 4, 5, 2, 2, 3, 1, 2, 2]) {
        0 => {
            if open && src.chance(1, 4) {
                match src.below(4) {
                    0 => T::Var(0),
                    1 => T::Var(binders + 1),
                    2 => T::Var(binders + 2 + src.below(5)),
                    _ => T::Var(1usize << (20 + src.below(20))),
                }
            } else if binders > 0 {
                T::Var(1 + src.below(binders))
            } else {
                T::int(src.range(-2, 2))
            }
        }
        1 => {
            let c = gen_cty(src, 2);
            T::con(consts::gen_const(src, &c, false))
        }
        2 => gen_chaotic(src, binders + 1, fuel, open).lam(),
        3 => {
            let f = gen_chaotic(src, binders, fuel, open);
            let a = gen_chaotic(src, binders, fuel, open);
            f.app(a)
        }
        4 => gen_chaotic(src, binders, fuel, open).delay(),
        5 => gen_chaotic(src, binders, fuel, open).force(),
        6 => {
            let all = all_builtins();
            T::Builtin(*src.pick(&all))
        }
        7 => T::Error,
        8 => {
            let n = src.below(4);
            let tag = if src.chance(1, 10) { 1usize << src.below(40) } else { src.below(4) };
            T::Constr(tag, (0..n).map(|_| gen_chaotic(src, binders, fuel, open)).collect())
        }
        _ => {
            let s = gen_chaotic(src, binders, fuel, open);
            let n = src.below(4);
            T::Case(Rc::new(s), (0..n).map(|_| gen_chaotic(src, binders, fuel, open)).collect())
        }
    }
}

pub fn all_builtins() -> Vec<F> {
    use strum::IntoEnumIterator;
    F::iter().collect()
}

//! G-AIKEN, part 2: type-directed generator of mini-Aiken modules ("give me an expression of
//! type T in scope S"), of argument values, and the fixed library of generic helpers.
use super::aiken_ast::*;
use super::consts;
use crate::engine::Src;
use crate::model::interp::{D, V};
use num_bigint::BigInt;
use std::collections::BTreeMap;

#[derive(Clone, Debug)]
pub struct FnSig {
    pub name: String,
    pub tyvars: usize,
    pub params: Vec<Ty>,
    pub ret: Ty,
}

#[derive(Clone, Debug)]
pub struct AikCfg {
    pub max_depth: usize,
    pub max_adts: usize,
    pub max_helpers: usize,
    /// weight of aborting constructs (fail/todo/partial expect) relative to ~100
    pub abort_weight: u32,
    /// weight of `expect <refutable pattern> = value`
    pub expect_weight: u32,
    /// weight of the closure scenario (a possibly-throwing binding captured by a closure that may never be called)
    pub closure_weight: u32,
    /// prefer `List<Pair<k, v>>` among list types and list types among generic instantiations
    pub pairs_bias: bool,
    /// give some data types explicit `@tag(n)` constructor indices
    pub explicit_tags: bool,
    /// weight of trace / `?` constructs
    pub trace_weight: u32,
    /// weight of Data casts
    pub cast_weight: u32,
    pub opaque: bool,
    pub builtins: bool,
}

impl Default for AikCfg {
    fn default() -> Self {
        AikCfg { max_depth: 5, max_adts: 3, max_helpers: 4, abort_weight: 3, expect_weight: 3, closure_weight: 2, pairs_bias: false, explicit_tags: false, trace_weight: 3, cast_weight: 6, opaque: false, builtins: true }
    }
}

#[derive(Clone)]
struct Rec {
    fname: String,
    /// variables (of the decreasing type) a recursive call may be made on
    dec_vars: Vec<String>,
    /// for Int countdown: the counter variable
    int_counter: Option<String>,
    params: Vec<Ty>,
    ret: Ty,
    budget: u32,
}

#[derive(Clone, Default)]
struct Scope {
    vars: Vec<(String, Ty)>,
    rec: Option<Rec>,
}

pub struct Gen<'s, 'd> {
    pub src: &'s mut Src<'d>,
    pub m: Module,
    pub sigs: Vec<FnSig>,
    pub cfg: AikCfg,
    fresh: usize,
    int_rec: Vec<String>,
    pub used: BTreeMap<&'static str, u32>,
    nodes: usize,
}

pub struct Entry {
    pub name: String,
    pub params: Vec<Ty>,
    pub ret: Ty,
}

fn v(x: &str) -> E {
    E::Var(x.to_string())
}
fn call(f: &str, args: Vec<E>) -> E {
    E::Call(f.to_string(), args)
}
fn bx(e: E) -> Box<E> {
    Box::new(e)
}
fn pv(x: &str) -> Pat {
    Pat::Var(x.to_string())
}
fn int(i: i64) -> E {
    E::Int(BigInt::from(i), 0)
}

/// The fixed library of generic helper functions (all total).
pub fn library() -> Vec<FnDecl> {
    let a = Ty::Var(0);
    let b = Ty::Var(1);
    let la = Ty::list(a.clone());
    let lb = Ty::list(b.clone());
    let cons_pat = |h: &str, t: &str| Pat::List(vec![pv(h)], Some(Some(t.to_string())));
    let nil = Pat::List(vec![], None);
    let f = |name: &str, tyvars: usize, params: Vec<(&str, Ty)>, ret: Ty, body: E| FnDecl {
        name: name.to_string(),
        tyvars,
        params: params.into_iter().map(|(n, t)| (n.to_string(), t)).collect(),
        ret,
        body,
        public: false,
    };
    vec![
        f("g_id", 1, vec![("x", a.clone())], a.clone(), v("x")),
        f("g_twice", 1, vec![("f", Ty::func(vec![a.clone()], a.clone())), ("x", a.clone())], a.clone(), call("f", vec![call("f", vec![v("x")])])),
        f(
            "g_map",
            2,
            vec![("xs", la.clone()), ("f", Ty::func(vec![a.clone()], b.clone()))],
            lb.clone(),
            E::When(bx(v("xs")), vec![(nil.clone(), E::List(vec![], None)), (cons_pat("x", "rest"), E::List(vec![call("f", vec![v("x")])], Some(bx(call("g_map", vec![v("rest"), v("f")])))))]),
        ),
        f(
            "g_filter",
            1,
            vec![("xs", la.clone()), ("p", Ty::func(vec![a.clone()], Ty::Bool))],
            la.clone(),
            E::When(
                bx(v("xs")),
                vec![
                    (nil.clone(), E::List(vec![], None)),
                    (
                        cons_pat("x", "rest"),
                        E::If(vec![(call("p", vec![v("x")]), E::List(vec![v("x")], Some(bx(call("g_filter", vec![v("rest"), v("p")])))))], bx(call("g_filter", vec![v("rest"), v("p")]))),
                    ),
                ],
            ),
        ),
        f(
            "g_foldr",
            2,
            vec![("xs", la.clone()), ("acc", b.clone()), ("f", Ty::func(vec![a.clone(), b.clone()], b.clone()))],
            b.clone(),
            E::When(bx(v("xs")), vec![(nil.clone(), v("acc")), (cons_pat("x", "rest"), call("f", vec![v("x"), call("g_foldr", vec![v("rest"), v("acc"), v("f")])]))]),
        ),
        f(
            "g_foldl",
            2,
            vec![("xs", la.clone()), ("acc", b.clone()), ("f", Ty::func(vec![b.clone(), a.clone()], b.clone()))],
            b.clone(),
            E::When(bx(v("xs")), vec![(nil.clone(), v("acc")), (cons_pat("x", "rest"), call("g_foldl", vec![v("rest"), call("f", vec![v("acc"), v("x")]), v("f")]))]),
        ),
        f(
            "g_length",
            1,
            vec![("xs", la.clone())],
            Ty::Int,
            E::When(bx(v("xs")), vec![(nil.clone(), int(0)), (Pat::List(vec![Pat::Discard], Some(Some("rest".into()))), E::Bin(Op::Add, bx(int(1)), bx(call("g_length", vec![v("rest")]))))]),
        ),
        f(
            "g_opt_map",
            2,
            vec![("o", Ty::opt(a.clone())), ("f", Ty::func(vec![a.clone()], b.clone()))],
            Ty::opt(b.clone()),
            E::When(
                bx(v("o")),
                vec![
                    (Pat::Ctor { adt: OPT, ctor: 1, args: vec![], labelled: false, spread: false }, E::Ctor { adt: OPT, ctor: 1, args: vec![], labelled: false }),
                    (Pat::Ctor { adt: OPT, ctor: 0, args: vec![pv("x")], labelled: false, spread: false }, E::Ctor { adt: OPT, ctor: 0, args: vec![call("f", vec![v("x")])], labelled: false }),
                ],
            ),
        ),
        f(
            "g_opt_or",
            1,
            vec![("o", Ty::opt(a.clone())), ("d", a.clone())],
            a.clone(),
            E::When(
                bx(v("o")),
                vec![
                    (Pat::Ctor { adt: OPT, ctor: 0, args: vec![pv("x")], labelled: false, spread: false }, v("x")),
                    (Pat::Ctor { adt: OPT, ctor: 1, args: vec![], labelled: false, spread: false }, v("d")),
                ],
            ),
        ),
        f("g_swap", 2, vec![("p", Ty::Tuple(vec![a.clone(), b.clone()]))], Ty::Tuple(vec![b.clone(), a.clone()]), E::Tuple(vec![E::TupleIx(bx(v("p")), 1), E::TupleIx(bx(v("p")), 0)])),
        f("g_fst", 2, vec![("p", Ty::pair(a.clone(), b.clone()))], a.clone(), E::PairIx(bx(v("p")), 0)),
        f("g_snd", 2, vec![("p", Ty::pair(a.clone(), b.clone()))], b.clone(), E::PairIx(bx(v("p")), 1)),
        f(
            "g_concat",
            1,
            vec![("xs", la.clone()), ("ys", la.clone())],
            la.clone(),
            E::When(bx(v("xs")), vec![(nil.clone(), v("ys")), (cons_pat("x", "rest"), E::List(vec![v("x")], Some(bx(call("g_concat", vec![v("rest"), v("ys")])))))]),
        ),
        f(
            "g_zip",
            2,
            vec![("xs", la.clone()), ("ys", lb.clone())],
            Ty::list(Ty::Tuple(vec![a.clone(), b.clone()])),
            E::When(
                bx(v("xs")),
                vec![
                    (nil.clone(), E::List(vec![], None)),
                    (
                        cons_pat("x", "xr"),
                        E::When(bx(v("ys")), vec![(nil.clone(), E::List(vec![], None)), (cons_pat("y", "yr"), E::List(vec![E::Tuple(vec![v("x"), v("y")])], Some(bx(call("g_zip", vec![v("xr"), v("yr")])))))]),
                    ),
                ],
            ),
        ),
        f(
            "g_head_opt",
            1,
            vec![("xs", la.clone())],
            Ty::opt(a.clone()),
            E::When(
                bx(v("xs")),
                vec![(nil.clone(), E::Ctor { adt: OPT, ctor: 1, args: vec![], labelled: false }), (Pat::List(vec![pv("x")], Some(None)), E::Ctor { adt: OPT, ctor: 0, args: vec![v("x")], labelled: false })],
            ),
        ),
        f(
            "g_any",
            1,
            vec![("xs", la.clone()), ("p", Ty::func(vec![a.clone()], Ty::Bool))],
            Ty::Bool,
            E::When(bx(v("xs")), vec![(nil.clone(), E::Bool(false)), (cons_pat("x", "rest"), E::Bin(Op::Or, bx(call("p", vec![v("x")])), bx(call("g_any", vec![v("rest"), v("p")]))))]),
        ),
        f(
            "g_pairs_lookup",
            2,
            vec![("xs", Ty::list(Ty::pair(a.clone(), b.clone()))), ("k", a.clone())],
            Ty::opt(b.clone()),
            E::When(
                bx(v("xs")),
                vec![
                    (nil.clone(), E::Ctor { adt: OPT, ctor: 1, args: vec![], labelled: false }),
                    (
                        Pat::List(vec![Pat::Pair(Box::new(pv("k2")), Box::new(pv("val")))], Some(Some("rest".into()))),
                        E::If(vec![(E::Bin(Op::Eq, bx(v("k2")), bx(v("k"))), E::Ctor { adt: OPT, ctor: 0, args: vec![v("val")], labelled: false })], bx(call("g_pairs_lookup", vec![v("rest"), v("k")]))),
                    ),
                ],
            ),
        ),
    ]
}

pub fn unify(pat: &Ty, ty: &Ty, s: &mut Vec<Option<Ty>>) -> bool {
    match (pat, ty) {
        (Ty::Var(i), t) => {
            if *i >= s.len() {
                s.resize(*i + 1, None);
            }
            match &s[*i] {
                Some(b) => b == t,
                None => {
                    if t.has_fn() {
                        return false;
                    }
                    s[*i] = Some(t.clone());
                    true
                }
            }
        }
        (Ty::List(a), Ty::List(b)) | (Ty::Opt(a), Ty::Opt(b)) => unify(a, b, s),
        (Ty::Pair(a1, b1), Ty::Pair(a2, b2)) => unify(a1, a2, s) && unify(b1, b2, s),
        (Ty::Tuple(a), Ty::Tuple(b)) => a.len() == b.len() && a.iter().zip(b).all(|(x, y)| unify(x, y, s)),
        (Ty::Adt(i, a), Ty::Adt(j, b)) => i == j && a.len() == b.len() && a.iter().zip(b).all(|(x, y)| unify(x, y, s)),
        (Ty::Fn(a1, r1), Ty::Fn(a2, r2)) => a1.len() == a2.len() && a1.iter().zip(a2).all(|(x, y)| unify(x, y, s)) && unify(r1, r2, s),
        (a, b) => a == b,
    }
}

impl<'s, 'd> Gen<'s, 'd> {
    pub fn new(src: &'s mut Src<'d>, cfg: AikCfg) -> Self {
        Gen { src, m: Module::default(), sigs: vec![], cfg, fresh: 0, int_rec: vec![], used: BTreeMap::new(), nodes: 0 }
    }

    fn mark(&mut self, k: &'static str) {
        *self.used.entry(k).or_insert(0) += 1;
    }

    fn name(&mut self, prefix: &str) -> String {
        self.fresh += 1;
        format!("{prefix}{}", self.fresh)
    }

    // --------------------------------------------------------------------------------------------
    // types

    /// A Data-serialisable type without type variables.
    pub fn ty(&mut self, depth: usize) -> Ty {
        let nadts = self.m.adts.iter().filter(|a| !a.opaque).count() as u32;
        let w: Vec<u32> = if depth == 0 { vec![8, 3, 3, 1, 0, 0, 0, 0, 0, 1] } else { vec![8, 3, 3, 1, 4, 2, 2, 1, 3 * nadts.min(2), 1] };
        match self.src.weighted(&w) {
            0 => Ty::Int,
            1 => Ty::Bool,
            2 => Ty::Bytes,
            3 => Ty::Unit,
            4 => {
                // associative lists have their own representation (a map): bias towards them
                // when asked, so that plain lists and pair lists meet in one program
                if self.cfg.pairs_bias && self.src.chance(2, 5) {
                    Ty::list(Ty::pair(self.ty(0), self.ty(0)))
                } else {
                    Ty::list(self.ty(depth - 1))
                }
            }
            5 => Ty::opt(self.ty(depth - 1)),
            6 => {
                let n = 2 + self.src.below(2);
                Ty::Tuple((0..n).map(|_| self.ty(depth - 1)).collect())
            }
            7 => Ty::pair(self.ty(depth - 1), self.ty(depth - 1)),
            8 => self.adt_ty(depth),
            _ => Ty::Data,
        }
    }

    fn adt_ty(&mut self, depth: usize) -> Ty {
        let cands: Vec<usize> = (0..self.m.adts.len()).filter(|i| !self.m.adts[*i].opaque).collect();
        if cands.is_empty() {
            return Ty::Int;
        }
        let i = *self.src.pick(&cands);
        let n = self.m.adts[i].params;
        let args = (0..n).map(|_| self.ty(depth.saturating_sub(1).min(1))).collect();
        Ty::Adt(i, args)
    }

    pub fn gen_adts_pub(&mut self) {
        self.gen_adts()
    }

    fn gen_adts(&mut self) {
        let n = self.src.below(self.cfg.max_adts + 1);
        for k in 0..n {
            let name = format!("T{k}");
            let kind = self.src.weighted(&[3, 3, 4, 2, 2]);
            let idx = self.m.adts.len();
            let (params, nctors) = match kind {
                0 => (0, 2 + self.src.below(3)), // enum
                1 => (0, 1),                     // record
                2 => (0, 2 + self.src.below(3)), // sum
                3 => (1, 1 + self.src.below(3)), // generic
                _ => (self.src.below(2), 2 + self.src.below(2)), // recursive
            };
            let mut ctors = vec![];
            for c in 0..nctors {
                let nfields = match kind {
                    0 => 0,
                    1 => 1 + self.src.below(4),
                    4 if c == 0 => self.src.below(2),
                    _ => self.src.below(4),
                };
                let labelled = kind == 1 || (nfields > 0 && self.src.chance(1, 3));
                let mut fields = vec![];
                for fi in 0..nfields {
                    let t = if kind == 4 && c > 0 && (fi == 0 || self.src.chance(1, 3)) {
                        Ty::Adt(idx, (0..params).map(Ty::Var).collect())
                    } else if params > 0 && self.src.chance(1, 2) {
                        Ty::Var(0)
                    } else {
                        // field types may mention earlier data types only
                        self.ty(1)
                    };
                    fields.push((if labelled { Some(format!("f{c}{}", (b'a' + fi as u8) as char)) } else { None }, t));
                }
                ctors.push(Ctor { name: format!("{name}C{c}"), fields });
            }
            // a generic type must use its parameter somewhere (otherwise phantom: fine, but keep it used)
            let tags = if self.cfg.explicit_tags && self.src.chance(1, 2) {
                // explicit, increasing, possibly sparse constructor indices in all three CBOR tag ranges
                let mut next = *self.src.pick(&[0u64, 1, 5, 6, 100, 126, 127, 128, 1000]);
                let mut v = vec![];
                for _ in 0..ctors.len() {
                    v.push(next);
                    next += 1 + self.src.below(3) as u64 * *self.src.pick(&[0u64, 1, 60]);
                }
                v
            } else {
                vec![]
            };
            // a record with one constructor and labelled fields may be written without naming
            // the constructor (`pub type R { x: Int }`); the printer uses that form when the
            // constructor is called like the type
            if ctors.len() == 1 && !ctors[0].fields.is_empty() && ctors[0].fields.iter().all(|f| f.0.is_some()) && self.src.chance(1, 2) {
                ctors[0].name = name.clone();
            }
            self.m.adts.push(AdtDecl { name, params, ctors, opaque: false, public: true, tags });
        }
    }

    // --------------------------------------------------------------------------------------------
    // values (arguments)

    pub fn value(&mut self, t: &Ty, depth: usize) -> V {
        match t {
            Ty::Int => V::Int(consts::gen_int(self.src, true)),
            Ty::Bool => V::Bool(self.src.bool()),
            Ty::Bytes => V::Bytes(consts::gen_bytes(self.src, false)),
            Ty::Unit => V::Unit,
            Ty::Data => V::Data(D::from_plutus(&consts::gen_data(self.src, depth.min(2), true))),
            Ty::List(e) => {
                let n = if depth == 0 { 0 } else { self.src.below(5) };
                V::List((0..n).map(|_| self.value(e, depth - 1)).collect())
            }
            Ty::Opt(e) => {
                if depth == 0 || self.src.chance(1, 3) {
                    V::Con(OPT, 1, vec![])
                } else {
                    V::Con(OPT, 0, vec![self.value(e, depth - 1)])
                }
            }
            Ty::Tuple(ts) => V::Tuple(ts.iter().map(|t| self.value(t, depth.saturating_sub(1))).collect()),
            Ty::Pair(a, b) => V::Pair(Box::new(self.value(a, depth.saturating_sub(1))), Box::new(self.value(b, depth.saturating_sub(1)))),
            Ty::Adt(i, targs) => {
                let decl = self.m.adts[*i].clone();
                let rec = |c: &Ctor| c.fields.iter().any(|(_, t)| matches!(t, Ty::Adt(j, _) if j == i));
                let cands: Vec<usize> = (0..decl.ctors.len()).filter(|c| depth > 0 || !rec(&decl.ctors[*c])).collect();
                let c = if cands.is_empty() { 0 } else { *self.src.pick(&cands) };
                let tys = decl.field_tys(c, targs);
                V::Con(*i, c, tys.iter().map(|t| self.value(t, depth.saturating_sub(1))).collect())
            }
            Ty::Fn(..) | Ty::Var(_) => V::Unit,
        }
    }

    // --------------------------------------------------------------------------------------------
    // expressions

    fn lit(&mut self, t: &Ty, depth: usize) -> E {
        match t {
            Ty::Int => {
                let i = if self.src.chance(1, 12) { consts::gen_int(self.src, true) } else { BigInt::from(self.src.range(-4, 9)) };
                let style = if self.src.chance(1, 6) { 1 + self.src.below(4) as u8 } else { 0 };
                E::Int(i, style)
            }
            Ty::Bool => E::Bool(self.src.bool()),
            Ty::Bytes => {
                let n = self.src.below(4);
                let b = self.src.bytes(n);
                let style = self.src.below(3) as u8;
                E::Bytes(b, style)
            }
            Ty::Unit => E::Unit,
            Ty::Data => {
                let t2 = self.ty(1);
                let e = self.lit(&t2, depth);
                if t2 == Ty::Data { e } else { E::ToData(bx(e), t2) }
            }
            Ty::List(e) => {
                let n = if depth == 0 { 0 } else { self.src.below(3) };
                E::List((0..n).map(|_| self.lit(e, depth - 1)).collect(), None)
            }
            Ty::Opt(e) => {
                if depth == 0 || self.src.chance(1, 3) {
                    E::Ctor { adt: OPT, ctor: 1, args: vec![], labelled: false }
                } else {
                    E::Ctor { adt: OPT, ctor: 0, args: vec![self.lit(e, depth - 1)], labelled: false }
                }
            }
            Ty::Tuple(ts) => E::Tuple(ts.iter().map(|t| self.lit(t, depth.saturating_sub(1))).collect()),
            Ty::Pair(a, b) => E::Pair(bx(self.lit(a, depth.saturating_sub(1))), bx(self.lit(b, depth.saturating_sub(1)))),
            Ty::Adt(i, targs) => {
                let decl = self.m.adts[*i].clone();
                let rec = |c: &Ctor| c.fields.iter().any(|(_, t)| matches!(t, Ty::Adt(j, _) if j == i));
                let cands: Vec<usize> = (0..decl.ctors.len()).filter(|c| depth > 0 || !rec(&decl.ctors[*c])).collect();
                let c = if cands.is_empty() { 0 } else { *self.src.pick(&cands) };
                let tys = decl.field_tys(c, targs);
                let labelled = self.src.bool();
                E::Ctor { adt: *i, ctor: c, args: tys.iter().map(|t| self.lit(t, depth.saturating_sub(1))).collect(), labelled }
            }
            Ty::Fn(args, ret) => {
                let params: Vec<(String, Ty)> = args.iter().map(|t| (self.name("p"), t.clone())).collect();
                let body = self.lit(ret, depth);
                E::Lam(params, (**ret).clone(), bx(body))
            }
            Ty::Var(_) => E::Unit,
        }
    }

    fn vars_of(&self, sc: &Scope, t: &Ty) -> Vec<String> {
        // innermost binding of each name only
        let mut seen = std::collections::HashSet::new();
        let mut out = vec![];
        for (n, ty) in sc.vars.iter().rev() {
            if seen.insert(n.clone()) && ty == t {
                out.push(n.clone());
            }
        }
        out
    }

    fn leaf(&mut self, sc: &Scope, t: &Ty) -> E {
        let vs = self.vars_of(sc, t);
        if !vs.is_empty() && self.src.chance(3, 4) {
            return E::Var(self.src.pick(&vs).clone());
        }
        let consts: Vec<String> = self.m.consts.iter().filter(|c| c.ty == *t && !c.as_data).map(|c| c.name.clone()).collect();
        if !consts.is_empty() && self.src.chance(1, 3) {
            self.mark("const-use");
            return E::Const(self.src.pick(&consts).clone());
        }
        self.lit(t, 1)
    }

    fn serialisable(t: &Ty) -> bool {
        !t.has_fn() && !t.has_var()
    }

    pub fn expr(&mut self, sc: &mut Scope, t: &Ty, depth: usize) -> E {
        self.nodes += 1;
        if depth == 0 || self.nodes > 220 {
            return self.leaf(sc, t);
        }
        if matches!(t, Ty::Fn(..)) {
            // no let/if/when around a function-valued result: a binding directly in front of a
            // returned lambda is the recorded known finding (see returned_closure)
            return self.fn_value(sc, t, depth - 1);
        }
        let d = depth - 1;
        let ab = self.cfg.abort_weight;
        let tr = self.cfg.trace_weight;
        let cw = self.cfg.cast_weight;
        let ser = Self::serialisable(t);
        let has_rec = sc.rec.as_ref().is_some_and(|r| r.ret == *t && r.budget > 0);
        // generic alternatives
        let weights: [u32; 17] = [
            10,                          // 0 leaf
            8,                           // 1 type-specific
            6,                           // 2 let
            5,                           // 3 if
            7,                           // 4 when
            7,                           // 5 call
            3,                           // 6 apply lambda
            3,                           // 7 projection (tuple/pair/field)
            ab + self.cfg.expect_weight, // 8 expect <pattern> = ..
            if ser { cw } else { 0 },    // 9 data round trip
            ab / 2 + (ab > 0) as u32,    // 10 fail / todo
            tr,                          // 11 trace
            if has_rec { 14 } else { 0 }, // 12 recursive call
            2,                           // 13 pipe
            2,                           // 14 when on literal-ish / nested block
            if matches!(t, Ty::Fn(..)) { 0 } else { 2 }, // 15 let-destructuring
            self.cfg.closure_weight,     // 16 closure scenario
        ];
        match self.src.weighted(&weights) {
            0 => self.leaf(sc, t),
            1 => self.specific(sc, t, d),
            2 => {
                let t2 = if self.src.chance(1, 6) { self.fn_ty() } else { self.ty(2) };
                let val = self.expr(sc, &t2, d);
                let x = self.name("v");
                sc.vars.push((x.clone(), t2.clone()));
                let body = self.expr(sc, t, d);
                sc.vars.pop();
                self.mark("let");
                E::Let(Pat::Var(x), t2, bx(val), bx(body))
            }
            3 => {
                let n = 1 + self.src.below(2);
                let mut branches = vec![];
                for _ in 0..n {
                    let c = self.expr(sc, &Ty::Bool, d);
                    let b = self.expr(sc, t, d);
                    branches.push((c, b));
                }
                let els = self.expr(sc, t, d);
                self.mark("if");
                E::If(branches, bx(els))
            }
            4 | 14 => {
                let st = self.scrutinee_ty();
                let s = self.expr(sc, &st, d);
                let clauses = self.clauses(sc, &st, t, d);
                self.mark("when");
                E::When(bx(s), clauses)
            }
            5 | 13 => {
                let pipe = self.src.chance(1, 4);
                match self.call_returning(sc, t, d, pipe) {
                    Some(e) => e,
                    None => self.specific(sc, t, d),
                }
            }
            6 => {
                // (fn(x: T2) -> t { body })(arg)   or a function-typed variable applied
                let fvars: Vec<(String, Vec<Ty>)> = sc
                    .vars
                    .iter()
                    .filter_map(|(n, ty)| match ty {
                        Ty::Fn(a, r) if **r == *t => Some((n.clone(), a.clone())),
                        _ => None,
                    })
                    .collect();
                self.mark("apply");
                if !fvars.is_empty() && self.src.chance(2, 3) {
                    let (n, ptys) = self.src.pick(&fvars).clone();
                    // make sure the name is not shadowed by a non-function
                    if self.vars_of(sc, &Ty::func(ptys.clone(), t.clone())).contains(&n) {
                        let args = ptys.iter().map(|p| self.expr(sc, p, d)).collect();
                        return E::Apply(bx(E::Var(n)), args);
                    }
                }
                let t2 = self.ty(1);
                let x = self.name("p");
                let arg = self.expr(sc, &t2, d);
                sc.vars.push((x.clone(), t2.clone()));
                let saved = sc.rec.take();
                let body = self.expr(sc, t, d);
                sc.rec = saved;
                sc.vars.pop();
                E::Apply(bx(E::Lam(vec![(x, t2)], t.clone(), bx(body))), vec![arg])
            }
            7 => self.projection(sc, t, d),
            8 if self.src.below((ab + self.cfg.expect_weight) as usize) >= ab as usize / 2 => {
                // expect <refutable pattern> = value: one part of a partition of the value's
                // type (list patterns with discards and open tails, constructors, refined tuples)
                let st = if self.src.chance(1, 2) { Ty::list(self.ty(1)) } else { self.scrutinee_ty() };
                // values near the boundary of the pattern: short list literals, not only
                // arbitrary expressions
                let val = match &st {
                    Ty::List(et) if self.src.chance(2, 3) => {
                        let n = self.src.below(4);
                        E::List((0..n).map(|_| self.expr(sc, et, d.min(1))).collect(), None)
                    }
                    _ => self.expr(sc, &st, d),
                };
                let (pat, binds) = match (if self.src.chance(1, 3) { self.refine(&st) } else { None }) {
                    Some(r) => r,
                    None => {
                        let mut parts = self.partition(&st, 1);
                        let k = self.src.below(parts.len());
                        parts.swap_remove(k)
                    }
                };
                let n = binds.len();
                sc.vars.extend(binds);
                let body = self.expr(sc, t, d);
                for _ in 0..n {
                    sc.vars.pop();
                }
                self.mark("expect-pattern");
                E::Expect(pat, st, bx(val), bx(body))
            }
            8 => {
                let t2 = self.ty(1);
                let o = self.expr(sc, &Ty::opt(t2.clone()), d);
                let x = self.name("v");
                sc.vars.push((x.clone(), t2.clone()));
                let body = self.expr(sc, t, d);
                sc.vars.pop();
                self.mark("expect-some");
                E::Expect(Pat::Ctor { adt: OPT, ctor: 0, args: vec![Pat::Var(x)], labelled: false, spread: false }, Ty::opt(t2), bx(o), bx(body))
            }
            9 => self.data_roundtrip(sc, t, d),
            10 => {
                self.mark("fail");
                if self.src.bool() { E::Fail(if self.src.bool() { Some("boom".into()) } else { None }) } else { E::Todo(if self.src.bool() { Some("later".into()) } else { None }) }
            }
            11 => {
                self.mark("trace");
                if *t == Ty::Bool && self.src.bool() {
                    let b = self.expr(sc, t, d);
                    E::TraceIfFalse(bx(b))
                } else {
                    let b = self.expr(sc, t, d);
                    let msg = format!("t{}", self.src.below(5));
                    E::Trace(msg, bx(b))
                }
            }
            12 => self.rec_call(sc, d),
            16 => self.closure_scenario(sc, t, d),
            _ => {
                // let (a, b) = tuple ; body
                let n = 2 + self.src.below(2);
                let tys: Vec<Ty> = (0..n).map(|_| self.ty(1)).collect();
                let tt = Ty::Tuple(tys.clone());
                let val = self.expr(sc, &tt, d);
                let names: Vec<String> = (0..n).map(|_| self.name("v")).collect();
                for (nm, ty) in names.iter().zip(&tys) {
                    sc.vars.push((nm.clone(), ty.clone()));
                }
                let body = self.expr(sc, t, d);
                for _ in 0..n {
                    sc.vars.pop();
                }
                self.mark("let-tuple");
                E::Let(Pat::Tuple(names.into_iter().map(Pat::Var).collect()), tt, bx(val), bx(body))
            }
        }
    }

    /// A helper `mk(a, b) -> fn(Int) -> Int { let x = <may throw>; <guard>; let g = fn(p) {..x..}; g }`
    /// whose result the caller binds and applies on some paths only.
    fn returned_closure(&mut self, sc: &mut Scope, t: &Ty, d: usize) -> E {
        self.mark("returned-closure");
        let fname = format!("mk{}", self.m.fns.len());
        let ft = Ty::func(vec![Ty::Int], Ty::Int);
        let second_is_list = self.src.bool();
        let pb_ty = if second_is_list { Ty::list(Ty::Int) } else { Ty::Int };
        let (a, b, x, g, p, h) = ("a".to_string(), "b".to_string(), "x".to_string(), "g".to_string(), "p".to_string(), "h".to_string());
        let thrower = match self.src.below(3) {
            0 => E::Bin(Op::Div, bx(int(100)), bx(E::Var(a.clone()))),
            1 => E::Bin(Op::Mod, bx(E::Var(a.clone())), bx(E::Bin(Op::Sub, bx(E::Var(a.clone())), bx(int(1))))),
            _ => E::Builtin(Bi::QuotientInteger, vec![int(7), E::Var(a.clone())]),
        };
        let uses_h = second_is_list && self.src.bool();
        let mut body_expr = match self.src.below(3) {
            0 => E::Bin(Op::Add, bx(E::Var(x.clone())), bx(E::Var(p.clone()))),
            1 => E::Bin(Op::Add, bx(E::Bin(Op::Mul, bx(E::Var(x.clone())), bx(E::Var(p.clone())))), bx(E::Var(x.clone()))),
            _ => E::If(vec![(E::Bin(Op::Lt, bx(E::Var(p.clone())), bx(int(0))), E::Var(x.clone()))], bx(E::Var(p.clone()))),
        };
        if uses_h {
            body_expr = E::Bin(Op::Add, bx(body_expr), bx(E::Var(h.clone())));
        }
        let lam = E::Lam(vec![(p.clone(), Ty::Int)], Ty::Int, bx(body_expr));
        let tail = match self.src.below(3) {
            0 => E::Let(Pat::Var(g.clone()), ft.clone(), bx(lam), bx(E::Var(g.clone()))),
            1 => lam,
            _ => E::Let(Pat::Var(g.clone()), ft.clone(), bx(lam), bx(call("g_id", vec![E::Var(g.clone())]))),
        };
        let guarded = if second_is_list {
            let pat = if uses_h { Pat::List(vec![Pat::Var(h.clone())], Some(None)) } else { Pat::List(vec![Pat::Discard], Some(None)) };
            match self.src.below(3) {
                0 | 1 => E::Expect(pat, pb_ty.clone(), bx(E::Var(b.clone())), bx(tail)),
                _ if !uses_h => E::If(vec![(E::Bin(Op::Gt, bx(call("g_length", vec![E::Var(b.clone())])), bx(int(0))), tail)], bx(E::Fail(Some("guard".into())))),
                _ => E::Expect(pat, pb_ty.clone(), bx(E::Var(b.clone())), bx(tail)),
            }
        } else {
            let cond = E::Bin(Op::Gt, bx(E::Var(b.clone())), bx(int(0)));
            // (no unguarded variant: `let x = <throws>` directly followed by the returned lambda is
            // the recorded known finding `optimiser:binding-made-lazy-under-returned-lambda`)
            match self.src.below(2) {
                0 => E::Expect(Pat::Bool(true), Ty::Bool, bx(cond), bx(tail)),
                _ => E::If(vec![(cond, tail)], bx(E::Fail(Some("guard".into())))),
            }
        };
        let body = E::Let(Pat::Var(x.clone()), Ty::Int, bx(thrower), bx(guarded));
        self.m.fns.push(FnDecl { name: fname.clone(), tyvars: 0, params: vec![(a, Ty::Int), (b, pb_ty.clone())], ret: ft.clone(), body, public: false });
        // use site
        let f = self.name("v");
        let a0 = if self.src.bool() { E::Int(BigInt::from(self.src.range(-1, 2)), 0) } else { self.expr(sc, &Ty::Int, d.min(1)) };
        let b0 = if second_is_list {
            let n = self.src.below(3);
            E::List((0..n).map(|i| int(i as i64 + 1)).collect(), None)
        } else if self.src.bool() {
            E::Int(BigInt::from(self.src.range(-1, 2)), 0)
        } else {
            self.expr(sc, &Ty::Int, d.min(1))
        };
        sc.vars.push((f.clone(), ft.clone()));
        let cond = self.expr(sc, &Ty::Bool, d.min(1));
        let applied = E::Apply(bx(E::Var(f.clone())), vec![self.expr(sc, &Ty::Int, d.min(1))]);
        let on = if *t == Ty::Int {
            applied
        } else {
            let rest = self.expr(sc, t, d.min(2));
            E::If(vec![(E::Bin(Op::Eq, bx(applied), bx(int(0))), rest.clone())], bx(rest))
        };
        let off = self.expr(sc, t, d.min(2));
        sc.vars.pop();
        E::Let(Pat::Var(f), ft, bx(call(&fname, vec![a0, b0])), bx(E::If(vec![(cond, on)], bx(off))))
    }

    /// let x = <may throw>; <guard>; let g = fn(p) { .. x .. }; <g called on some paths only>
    fn closure_scenario(&mut self, sc: &mut Scope, t: &Ty, d: usize) -> E {
        self.mark("closure-scenario");
        if self.src.bool() {
            return self.returned_closure(sc, t, d);
        }
        let x = self.name("v");
        let g = self.name("v");
        let p = self.name("p");
        // the captured binding: a division (or an expect-able value) over variables in scope
        let num = self.expr(sc, &Ty::Int, d.min(1));
        let den = self.expr(sc, &Ty::Int, d.min(1));
        let thrower = match self.src.below(3) {
            0 => E::Bin(Op::Div, bx(num), bx(den)),
            1 => E::Bin(Op::Mod, bx(num), bx(den)),
            _ => E::Builtin(Bi::QuotientInteger, vec![num, den]),
        };
        sc.vars.push((x.clone(), Ty::Int));
        // closure body mentions x once or twice
        let body_expr = match self.src.below(3) {
            0 => E::Bin(Op::Add, bx(E::Var(x.clone())), bx(E::Var(p.clone()))),
            1 => E::Bin(Op::Add, bx(E::Bin(Op::Add, bx(E::Var(x.clone())), bx(E::Var(p.clone())))), bx(E::Var(x.clone()))),
            _ => E::If(vec![(E::Bin(Op::Lt, bx(E::Var(p.clone())), bx(int(0))), E::Var(x.clone()))], bx(E::Var(p.clone()))),
        };
        let ft = Ty::func(vec![Ty::Int], Ty::Int);
        let lam = E::Lam(vec![(p.clone(), Ty::Int)], Ty::Int, bx(body_expr));
        sc.vars.push((g.clone(), ft.clone()));
        // the continuation: the closure is applied on one branch only, or not at all
        let cond = self.expr(sc, &Ty::Bool, d.min(1));
        let applied = E::Apply(bx(E::Var(g.clone())), vec![self.expr(sc, &Ty::Int, d.min(1))]);
        let use_site = |gg: &mut Self, sc: &mut Scope| -> E {
            if *t == Ty::Int {
                applied.clone()
            } else {
                let rest = gg.expr(sc, t, d.min(2));
                E::If(vec![(E::Bin(Op::Eq, bx(applied.clone()), bx(int(0))), rest.clone())], bx(rest))
            }
        };
        let cont = match self.src.below(3) {
            0 => {
                let a = use_site(self, sc);
                let b = self.expr(sc, t, d.min(2));
                E::If(vec![(cond, a)], bx(b))
            }
            1 => {
                // handed to a higher-order helper that may not call it
                let xs = self.expr(sc, &Ty::list(Ty::Int), d.min(1));
                let mapped = call("g_map", vec![xs, E::Var(g.clone())]);
                if *t == Ty::list(Ty::Int) {
                    mapped
                } else {
                    let rest = self.expr(sc, t, d.min(2));
                    let ys = self.name("v");
                    let cond2 = E::Bin(Op::Eq, bx(call("g_length", vec![E::Var(ys.clone())])), bx(int(0)));
                    E::Let(Pat::Var(ys), Ty::list(Ty::Int), bx(mapped), bx(E::If(vec![(cond2, rest.clone())], bx(rest))))
                }
            }
            _ => self.expr(sc, t, d.min(2)),
        };
        sc.vars.pop();
        let with_closure = E::Let(Pat::Var(g), ft, bx(lam), bx(cont));
        // the guard between the binding and the closure
        let guarded = match self.src.below(4) {
            0 => E::Expect(Pat::Bool(true), Ty::Bool, bx(self.expr(sc, &Ty::Bool, d.min(1))), bx(with_closure)),
            1 => {
                let et = self.ty(1);
                let l = self.expr(sc, &Ty::list(et), d.min(1));
                E::Expect(Pat::List(vec![Pat::Discard], Some(None)), Ty::list(Ty::Int), bx(l), bx(with_closure))
            }
            2 => E::If(vec![(self.expr(sc, &Ty::Bool, d.min(1)), with_closure)], bx(E::Fail(Some("guard".into())))),
            _ => with_closure,
        };
        sc.vars.pop();
        E::Let(Pat::Var(x), Ty::Int, bx(thrower), bx(guarded))
    }

    fn fn_ty(&mut self) -> Ty {
        let n = 1 + self.src.below(2);
        let args = (0..n).map(|_| self.ty(1)).collect();
        Ty::func(args, self.ty(1))
    }

    fn scrutinee_ty(&mut self) -> Ty {
        let nadts = self.m.adts.len() as u32;
        match self.src.weighted(&[4, 2, 5, 4, 3, 2, 4 * nadts.min(2), 1]) {
            0 => Ty::Int,
            1 => Ty::Bool,
            2 => Ty::list(self.ty(1)),
            3 => Ty::opt(self.ty(1)),
            4 => {
                let n = 2 + self.src.below(2);
                Ty::Tuple((0..n).map(|_| self.ty(1)).collect())
            }
            5 => Ty::pair(self.ty(1), self.ty(1)),
            6 => self.adt_ty(2),
            _ => Ty::Bytes,
        }
    }

    fn rec_call(&mut self, sc: &mut Scope, d: usize) -> E {
        let mut rec = sc.rec.clone().unwrap();
        rec.budget -= 1;
        sc.rec.as_mut().unwrap().budget -= 1;
        self.mark("recursive-call");
        let first = if let Some(c) = &rec.int_counter { E::Bin(Op::Sub, bx(E::Var(c.clone())), bx(int(1))) } else { E::Var(self.src.pick(&rec.dec_vars).clone()) };
        let mut args = vec![first];
        for p in rec.params.iter().skip(1) {
            args.push(self.expr(sc, p, d.min(2)));
        }
        E::Call(rec.fname.clone(), args)
    }

    fn projection(&mut self, sc: &mut Scope, t: &Ty, d: usize) -> E {
        if t.has_fn() {
            return self.leaf(sc, t);
        }
        // record field of type t?
        let mut fields = vec![];
        for (i, a) in self.m.adts.iter().enumerate() {
            if a.is_record() && a.params == 0 {
                for (fi, (_, ft)) in a.ctors[0].fields.iter().enumerate() {
                    if ft == t {
                        fields.push((i, fi));
                    }
                }
            }
        }
        if !fields.is_empty() && self.src.chance(1, 2) {
            let (a, f) = *self.src.pick(&fields);
            let bt = Ty::Adt(a, vec![]);
            let base = self.expr(sc, &bt, d);
            self.mark("field-access");
            let x = self.name("v");
            return E::Let(Pat::Var(x.clone()), bt, bx(base), bx(E::Field(bx(E::Var(x)), a, f)));
        }
        if self.src.chance(1, 4) {
            let other = self.ty(1);
            let first = self.src.bool();
            let pt = if first { Ty::pair(t.clone(), other) } else { Ty::pair(other, t.clone()) };
            let base = self.expr(sc, &pt, d);
            self.mark("pair-index");
            let x = self.name("v");
            return E::Let(Pat::Var(x.clone()), pt, bx(base), bx(E::PairIx(bx(E::Var(x)), if first { 0 } else { 1 })));
        }
        let n = 2 + self.src.below(3);
        let ix = self.src.below(n);
        let tys: Vec<Ty> = (0..n).map(|i| if i == ix { t.clone() } else { self.ty(1) }).collect();
        let tt = Ty::Tuple(tys);
        let base = self.expr(sc, &tt, d);
        self.mark("tuple-index");
        let x = self.name("v");
        E::Let(Pat::Var(x.clone()), tt, bx(base), bx(E::TupleIx(bx(E::Var(x)), ix)))
    }

    /// A type whose Data encoding is close to, but not, an encoding of `t`.
    fn near_miss(&mut self, t: &Ty, depth: usize) -> Option<Ty> {
        match t {
            Ty::Pair(a, b) => Some(match self.src.below(3) {
                0 => Ty::Tuple(vec![(**a).clone(), (**b).clone(), self.ty(0)]),
                1 => Ty::Tuple(vec![(**a).clone(), (**b).clone(), (**b).clone(), self.ty(0)]),
                _ => Ty::list((**a).clone()),
            }),
            Ty::Tuple(ts) => Some(match self.src.below(3) {
                0 if ts.len() < 4 => {
                    let mut v = ts.clone();
                    v.push(self.ty(0));
                    Ty::Tuple(v)
                }
                1 if ts.len() > 2 => Ty::Tuple(ts[..ts.len() - 1].to_vec()),
                _ if depth > 0 => {
                    let k = self.src.below(ts.len());
                    let inner = self.near_miss(&ts[k], depth - 1)?;
                    let mut v = ts.clone();
                    v[k] = inner;
                    Ty::Tuple(v)
                }
                _ => return None,
            }),
            Ty::List(e) if depth > 0 => Some(Ty::list(self.near_miss(e, depth - 1)?)),
            Ty::Opt(e) if depth > 0 => Some(Ty::opt(self.near_miss(e, depth - 1)?)),
            Ty::Adt(i, targs) if depth > 0 => {
                // same type constructor at another instantiation, when it has a parameter
                if targs.is_empty() {
                    return None;
                }
                let inner = self.near_miss(&targs[0], depth - 1)?;
                Some(Ty::Adt(*i, vec![inner]))
            }
            Ty::Int => Some(Ty::Bytes),
            Ty::Bytes => Some(Ty::Int),
            Ty::Bool => Some(Ty::opt(Ty::Int)),
            _ => None,
        }
    }

    fn data_roundtrip(&mut self, sc: &mut Scope, t: &Ty, d: usize) -> E {
        self.mark("data-cast");
        // source of the Data: an up-cast of a value of type t (cast succeeds), of another type
        // (cast mostly fails), or a Data variable in scope
        let dvars = self.vars_of(sc, &Ty::Data);
        let data_e = match self.src.weighted(&[6, 2, if dvars.is_empty() { 0 } else { 4 }]) {
            0 if *t != Ty::Data && !t.has_fn() && !t.has_var() && self.src.chance(1, 6) => {
                // a module constant declared `const kd: Data = <literal of type t>`; the literal
                // must pin its own type: an empty list or a None would leave the element type
                // (and with it the Data representation) to inference defaults
                let existing: Vec<String> = self.m.consts.iter().filter(|c| c.as_data && c.ty == *t).map(|c| c.name.clone()).collect();
                let ambiguous = |m: &Module, e: &E| {
                    let shown = print_expr(m, e);
                    shown.contains("[]") || shown.contains("None")
                };
                let mut chosen: Option<String> = None;
                if !existing.is_empty() && self.src.bool() {
                    chosen = Some(self.src.pick(&existing).clone());
                } else {
                    for _ in 0..6 {
                        let value = self.lit(t, 2);
                        if !ambiguous(&self.m, &value) {
                            let name = format!("kd{}", self.m.consts.len());
                            self.m.consts.push(ConstDecl { name: name.clone(), ty: t.clone(), value, as_data: true });
                            chosen = Some(name);
                            break;
                        }
                    }
                }
                match chosen {
                    Some(name) => {
                        self.mark("const-declared-as-data");
                        E::ToData(bx(E::Const(name)), t.clone())
                    }
                    None => {
                        let e = self.expr(sc, t, d);
                        E::ToData(bx(e), t.clone())
                    }
                }
            }
            0 => {
                let e = self.expr(sc, t, d);
                if *t == Ty::Data { e } else { E::ToData(bx(e), t.clone()) }
            }
            1 => {
                // another type: unrelated, or a near miss of the target (one element more or
                // less, a pair where a tuple is expected, ...), which only a strict cast rejects
                let t2 = match (if self.src.chance(2, 3) { self.near_miss(t, 2) } else { None }) {
                    Some(n) => {
                        self.mark("near-miss-cast");
                        n
                    }
                    None => self.ty(1),
                };
                let e = self.expr(sc, &t2, d);
                if t2 == Ty::Data { e } else { E::ToData(bx(e), t2) }
            }
            _ => E::Var(self.src.pick(&dvars).clone()),
        };
        if *t == Ty::Data {
            return data_e;
        }
        let x = self.name("v");
        if self.src.chance(1, 2) {
            // soft cast with a fallback
            sc.vars.push((x.clone(), t.clone()));
            let a = if self.src.bool() { E::Var(x.clone()) } else { self.expr(sc, t, d) };
            sc.vars.pop();
            let b = self.expr(sc, t, d);
            self.mark("if-is");
            E::IfIs(bx(data_e), x, t.clone(), bx(a), bx(b))
        } else {
            sc.vars.push((x.clone(), t.clone()));
            let body = if self.src.bool() { E::Var(x.clone()) } else { self.expr(sc, t, d) };
            sc.vars.pop();
            self.mark("expect-data");
            E::ExpectData(x, t.clone(), bx(data_e), bx(body))
        }
    }

    fn call_returning(&mut self, sc: &mut Scope, t: &Ty, d: usize, pipe: bool) -> Option<E> {
        let mut cands = vec![];
        for (i, s) in self.sigs.iter().enumerate() {
            let mut sub = vec![None; s.tyvars];
            if unify(&s.ret, t, &mut sub) {
                // do not call the function being defined except through rec_call
                if sc.rec.as_ref().is_some_and(|r| r.fname == s.name) {
                    continue;
                }
                cands.push((i, sub));
            }
        }
        if cands.is_empty() {
            return None;
        }
        let k = self.src.below(cands.len());
        let (i, sub) = cands.swap_remove(k);
        let sig = self.sigs[i].clone();
        let sub: Vec<Ty> = sub
            .into_iter()
            .map(|s| {
                s.unwrap_or_else(|| {
                    if self.cfg.pairs_bias && self.src.chance(1, 2) {
                        if self.src.bool() { Ty::list(Ty::pair(self.ty(0), self.ty(0))) } else { Ty::list(self.ty(0)) }
                    } else {
                        self.ty(1)
                    }
                })
            })
            .collect();
        if sig.tyvars > 0 {
            self.mark("generic-call");
        }
        let mut args = vec![];
        for p in &sig.params {
            let pt = p.subst(&sub);
            let a = match &pt {
                Ty::Fn(..) => self.fn_value(sc, &pt, d),
                _ => self.expr(sc, &pt, d),
            };
            args.push(a);
        }
        self.mark("call");
        if pipe && !args.is_empty() {
            let first = args.remove(0);
            self.mark("pipe");
            return Some(E::Pipe(bx(first), sig.name, args));
        }
        Some(E::Call(sig.name, args))
    }

    /// An expression of function type: lambda, named function, capture, or variable.
    fn fn_value(&mut self, sc: &mut Scope, ft: &Ty, d: usize) -> E {
        let Ty::Fn(ptys, ret) = ft else { return self.leaf(sc, ft) };
        let vs = self.vars_of(sc, ft);
        if !vs.is_empty() && self.src.chance(1, 3) {
            return E::Var(self.src.pick(&vs).clone());
        }
        self.mark("fn-value");
        // named function with exactly this monomorphic signature
        let named: Vec<String> = self
            .sigs
            .iter()
            .filter(|s| s.tyvars == 0 && !self.int_rec.contains(&s.name) && s.params == *ptys && s.ret == **ret && !sc.rec.as_ref().is_some_and(|r| r.fname == s.name))
            .map(|s| s.name.clone())
            .collect();
        if !named.is_empty() && self.src.chance(1, 3) {
            self.mark("fn-named-ref");
            return E::Var(self.src.pick(&named).clone());
        }
        // capture: f(a, _, c) of a monomorphic function with one more parameter
        if ptys.len() == 1 && self.src.chance(1, 4) {
            let caps: Vec<(String, Vec<Ty>, usize)> = self
                .sigs
                .iter()
                .filter(|s| s.tyvars == 0 && !self.int_rec.contains(&s.name) && s.ret == **ret && s.params.len() >= 2 && !sc.rec.as_ref().is_some_and(|r| r.fname == s.name))
                .flat_map(|s| s.params.iter().enumerate().filter(|(_, p)| **p == ptys[0]).map(|(i, _)| (s.name.clone(), s.params.clone(), i)).collect::<Vec<_>>())
                .collect();
            if !caps.is_empty() {
                let (f, params, hole) = self.src.pick(&caps).clone();
                let args = params.iter().enumerate().map(|(i, p)| if i == hole { None } else { Some(self.expr(sc, p, d.min(1))) }).collect();
                self.mark("capture");
                return E::Capture(f, args);
            }
        }
        let params: Vec<(String, Ty)> = ptys.iter().map(|t| (self.name("p"), t.clone())).collect();
        for p in &params {
            sc.vars.push(p.clone());
        }
        let saved = sc.rec.take();
        let body = self.expr(sc, ret, d.min(2));
        sc.rec = saved;
        for _ in &params {
            sc.vars.pop();
        }
        E::Lam(params, (**ret).clone(), bx(body))
    }

    fn specific(&mut self, sc: &mut Scope, t: &Ty, d: usize) -> E {
        match t {
            Ty::Int => match self.src.weighted(&[10, 2, 2, 2, if self.cfg.builtins { 2 } else { 0 }]) {
                0 => {
                    let op = *self.src.pick(&[Op::Add, Op::Add, Op::Sub, Op::Sub, Op::Mul, Op::Div, Op::Mod]);
                    let l = self.expr(sc, &Ty::Int, d);
                    let r = if matches!(op, Op::Div | Op::Mod) && self.src.chance(3, 4) {
                        // mostly non-zero divisors, both signs
                        E::Int(BigInt::from(*self.src.pick(&[2i64, 3, -2, -3, 7, -1, 1, 10])), 0)
                    } else {
                        self.expr(sc, &Ty::Int, d)
                    };
                    self.mark("arith");
                    E::Bin(op, bx(l), bx(r))
                }
                1 => E::Neg(bx(self.expr(sc, &Ty::Int, d))),
                2 => {
                    let et = self.ty(1);
                    let l = self.expr(sc, &Ty::list(et), d);
                    self.mark("generic-call");
                    call("g_length", vec![l])
                }
                3 => {
                    let l = self.expr(sc, &Ty::Bytes, d);
                    E::Builtin(Bi::LengthBytes, vec![l])
                }
                _ => {
                    let op = *self.src.pick(&[Bi::QuotientInteger, Bi::RemainderInteger, Bi::IndexBytes]);
                    self.mark("builtin");
                    if op == Bi::IndexBytes {
                        let b = self.expr(sc, &Ty::Bytes, d);
                        let i = E::Int(BigInt::from(self.src.range(-1, 3)), 0);
                        E::Builtin(op, vec![b, i])
                    } else {
                        let l = self.expr(sc, &Ty::Int, d);
                        let r = E::Int(BigInt::from(*self.src.pick(&[2i64, -2, 3, -3, 0, 5])), 0);
                        E::Builtin(op, vec![l, r])
                    }
                }
            },
            Ty::Bool => match self.src.weighted(&[6, 5, 5, 2, 2, 1]) {
                0 => {
                    let op = *self.src.pick(&[Op::Lt, Op::Le, Op::Gt, Op::Ge]);
                    let l = self.expr(sc, &Ty::Int, d);
                    let r = self.expr(sc, &Ty::Int, d);
                    E::Bin(op, bx(l), bx(r))
                }
                1 => {
                    let et = self.ty(2);
                    let l = self.expr(sc, &et, d);
                    let r = if self.src.chance(1, 3) { l.clone() } else { self.expr(sc, &et, d) };
                    self.mark("equality");
                    E::Bin(if self.src.chance(3, 4) { Op::Eq } else { Op::Neq }, bx(l), bx(r))
                }
                2 => {
                    let op = if self.src.bool() { Op::And } else { Op::Or };
                    let l = self.expr(sc, &Ty::Bool, d);
                    let r = self.expr(sc, &Ty::Bool, d);
                    self.mark("logic");
                    E::Bin(op, bx(l), bx(r))
                }
                3 => E::Not(bx(self.expr(sc, &Ty::Bool, d))),
                4 => {
                    let n = 2 + self.src.below(2);
                    let es = (0..n).map(|_| self.expr(sc, &Ty::Bool, d)).collect();
                    self.mark("and-or-block");
                    E::AndOr(self.src.bool(), es)
                }
                _ => {
                    let l = self.expr(sc, &Ty::Bytes, d);
                    let r = self.expr(sc, &Ty::Bytes, d);
                    E::Builtin(Bi::LessThanBytes, vec![l, r])
                }
            },
            Ty::Bytes => match self.src.weighted(&[4, 4, 2, 2]) {
                0 => self.lit(t, 1),
                1 => {
                    let l = self.expr(sc, &Ty::Bytes, d);
                    let r = self.expr(sc, &Ty::Bytes, d);
                    E::Builtin(Bi::AppendBytes, vec![l, r])
                }
                2 => {
                    let b = self.expr(sc, &Ty::Bytes, d);
                    let s = E::Int(BigInt::from(self.src.range(-1, 3)), 0);
                    let l = E::Int(BigInt::from(self.src.range(-1, 4)), 0);
                    E::Builtin(Bi::SliceBytes, vec![s, l, b])
                }
                _ => {
                    let b = self.expr(sc, &Ty::Bytes, d);
                    let c = E::Int(BigInt::from(*self.src.pick(&[0i64, 65, 255, 256, -1, 7])), 0);
                    self.mark("builtin");
                    E::Builtin(Bi::ConsBytes, vec![c, b])
                }
            },
            Ty::Unit => E::Unit,
            Ty::Data => {
                let t2 = self.ty(2);
                if t2 == Ty::Data {
                    return self.leaf(sc, t);
                }
                let e = self.expr(sc, &t2, d);
                self.mark("data-cast");
                E::ToData(bx(e), t2)
            }
            Ty::List(et) => match self.src.weighted(&[5, 4, 1]) {
                0 => {
                    let n = self.src.below(4);
                    E::List((0..n).map(|_| self.expr(sc, et, d)).collect(), None)
                }
                1 => {
                    let n = 1 + self.src.below(2);
                    let es = (0..n).map(|_| self.expr(sc, et, d)).collect();
                    let tail = self.expr(sc, t, d);
                    self.mark("list-cons");
                    E::List(es, Some(bx(tail)))
                }
                _ => {
                    let l = self.expr(sc, t, d);
                    self.mark("builtin");
                    E::Builtin(Bi::TailList, vec![l])
                }
            },
            Ty::Opt(et) => {
                if self.src.chance(1, 4) {
                    E::Ctor { adt: OPT, ctor: 1, args: vec![], labelled: false }
                } else {
                    E::Ctor { adt: OPT, ctor: 0, args: vec![self.expr(sc, et, d)], labelled: false }
                }
            }
            Ty::Tuple(ts) => E::Tuple(ts.iter().map(|t| self.expr(sc, t, d)).collect()),
            Ty::Pair(a, b) => E::Pair(bx(self.expr(sc, a, d)), bx(self.expr(sc, b, d))),
            Ty::Adt(i, targs) => {
                let decl = self.m.adts[*i].clone();
                if decl.is_record() && self.src.chance(1, 3) {
                    // record update
                    let base = self.expr(sc, t, d);
                    let nf = decl.ctors[0].fields.len();
                    let k = 1 + self.src.below(nf.min(2));
                    let mut idx: Vec<usize> = (0..nf).collect();
                    let mut sets = vec![];
                    for _ in 0..k {
                        let j = self.src.below(idx.len());
                        let f = idx.remove(j);
                        let ft = decl.ctors[0].fields[f].1.subst(targs);
                        sets.push((f, self.expr(sc, &ft, d)));
                    }
                    self.mark("record-update");
                    return E::Update { adt: *i, base: bx(base), sets };
                }
                let c = self.src.below(decl.ctors.len());
                let tys = decl.field_tys(c, targs);
                let labelled = self.src.bool();
                self.mark("constructor");
                E::Ctor { adt: *i, ctor: c, args: tys.iter().map(|t| self.expr(sc, t, d)).collect(), labelled }
            }
            Ty::Fn(..) => self.fn_value(sc, t, d),
            Ty::Var(_) => self.leaf(sc, t),
        }
    }

    // --------------------------------------------------------------------------------------------
    // patterns: exhaustive, non-redundant clause lists by construction

    /// A pattern for a value of type `t` that matches everything, binding variables.
    fn open_pat(&mut self, t: &Ty, binds: &mut Vec<(String, Ty)>, depth: usize) -> Pat {
        let simple = |g: &mut Self, binds: &mut Vec<(String, Ty)>| {
            if g.src.chance(1, 3) {
                Pat::Discard
            } else {
                let x = g.name("m");
                binds.push((x.clone(), t.clone()));
                Pat::Var(x)
            }
        };
        if depth == 0 || self.src.chance(1, 2) {
            return simple(self, binds);
        }
        match t {
            Ty::Tuple(ts) => Pat::Tuple(ts.iter().map(|t| self.open_pat(t, binds, depth - 1)).collect()),
            Ty::Pair(a, b) => Pat::Pair(Box::new(self.open_pat(a, binds, depth - 1)), Box::new(self.open_pat(b, binds, depth - 1))),
            Ty::Adt(i, targs) if self.m.adts[*i].ctors.len() == 1 => {
                let decl = self.m.adts[*i].clone();
                let tys = decl.field_tys(0, targs);
                let labelled = decl.ctors[0].fields.iter().all(|f| f.0.is_some()) && !tys.is_empty() && self.src.bool();
                let spread = !tys.is_empty() && self.src.chance(1, 4);
                let n = if spread { self.src.below(tys.len()) } else { tys.len() };
                let args = tys.iter().take(n).map(|t| self.open_pat(t, binds, depth - 1)).collect();
                let p = Pat::Ctor { adt: *i, ctor: 0, args, labelled, spread };
                if self.src.chance(1, 5) {
                    let x = self.name("m");
                    binds.push((x.clone(), t.clone()));
                    Pat::As(Box::new(p), x)
                } else {
                    p
                }
            }
            _ => simple(self, binds),
        }
    }

    /// Partition of the values of `t` into disjoint, jointly exhaustive patterns (with their
    /// bindings); the caller may shuffle them and collapse a suffix into a wildcard.
    fn partition(&mut self, t: &Ty, depth: usize) -> Vec<(Pat, Vec<(String, Ty)>)> {
        match t {
            Ty::Bool => vec![(Pat::Bool(true), vec![]), (Pat::Bool(false), vec![])],
            Ty::Opt(et) => {
                let mut out = vec![];
                let mut b = vec![];
                let p = self.open_pat(et, &mut b, depth);
                out.push((Pat::Ctor { adt: OPT, ctor: 0, args: vec![p], labelled: false, spread: false }, b));
                out.push((Pat::Ctor { adt: OPT, ctor: 1, args: vec![], labelled: false, spread: false }, vec![]));
                out
            }
            Ty::List(et) => {
                let n = 1 + self.src.below(3);
                let mut out = vec![];
                for len in 0..n {
                    let mut b = vec![];
                    let ps = (0..len).map(|_| self.open_pat(et, &mut b, depth)).collect();
                    out.push((Pat::List(ps, None), b));
                }
                let mut b = vec![];
                let ps: Vec<Pat> = (0..n).map(|_| self.open_pat(et, &mut b, depth)).collect();
                let tail = if self.src.chance(2, 5) {
                    Some(None)
                } else {
                    let x = self.name("m");
                    b.push((x.clone(), t.clone()));
                    Some(Some(x))
                };
                out.push((Pat::List(ps, tail), b));
                out
            }
            Ty::Adt(i, targs) => {
                let decl = self.m.adts[*i].clone();
                let mut out = vec![];
                for (c, ctor) in decl.ctors.iter().enumerate() {
                    let tys = decl.field_tys(c, targs);
                    let mut b = vec![];
                    let labelled = ctor.fields.iter().all(|f| f.0.is_some()) && !tys.is_empty() && self.src.bool();
                    let spread = !tys.is_empty() && self.src.chance(1, 5);
                    let n = if spread { self.src.below(tys.len()) } else { tys.len() };
                    let args = tys.iter().take(n).map(|t| self.open_pat(t, &mut b, depth)).collect();
                    out.push((Pat::Ctor { adt: *i, ctor: c, args, labelled, spread }, b));
                }
                out
            }
            _ => {
                let mut b = vec![];
                let p = self.open_pat(t, &mut b, depth.max(1));
                vec![(p, b)]
            }
        }
    }

    fn clauses(&mut self, sc: &mut Scope, st: &Ty, rt: &Ty, d: usize) -> Vec<(Pat, E)> {
        let mut pats: Vec<(Pat, Vec<(String, Ty)>)> = vec![];
        match st {
            Ty::Int | Ty::Bytes => {
                let k = self.src.below(3);
                let mut seen = std::collections::HashSet::new();
                for _ in 0..k {
                    if *st == Ty::Int {
                        let i = BigInt::from(self.src.range(-2, 5));
                        if seen.insert(i.to_string()) {
                            pats.push((Pat::Int(i), vec![]));
                        }
                    } else {
                        let n = self.src.below(3);
                        let b = self.src.bytes(n);
                        if seen.insert(hex::encode(&b)) {
                            pats.push((Pat::Bytes(b), vec![]));
                        }
                    }
                }
                let mut b = vec![];
                let p = self.open_pat(st, &mut b, 0);
                pats.push((p, b));
            }
            _ => {
                let mut parts = self.partition(st, 1);
                // refinement: a more specific clause in front of one of the parts
                let refined = if parts.len() <= 3 && self.src.chance(1, 3) { self.refine(st) } else { None };
                // shuffle
                for i in (1..parts.len()).rev() {
                    let j = self.src.below(i + 1);
                    parts.swap(i, j);
                }
                // collapse a suffix into a catch-all
                if parts.len() >= 2 && self.src.chance(1, 3) {
                    let keep = 1 + self.src.below(parts.len() - 1);
                    parts.truncate(keep);
                    let mut b = vec![];
                    let p = self.open_pat(st, &mut b, 0);
                    parts.push((p, b));
                }
                if let Some(r) = refined {
                    pats.push(r);
                    self.mark("refined-clause");
                }
                pats.extend(parts);
            }
        }
        let mut out = vec![];
        for (p, binds) in pats {
            let n = binds.len();
            sc.vars.extend(binds);
            let body = self.expr(sc, rt, d);
            for _ in 0..n {
                sc.vars.pop();
            }
            out.push((p, body));
        }
        out
    }

    /// A strictly more specific pattern of type `t` (matches some but not all values of one part
    /// of the partition), so that putting it first makes no later clause redundant.
    fn refine(&mut self, t: &Ty) -> Option<(Pat, Vec<(String, Ty)>)> {
        let lit_of = |g: &mut Self, t: &Ty| -> Option<Pat> {
            match t {
                Ty::Int => Some(Pat::Int(BigInt::from(g.src.range(-1, 3)))),
                Ty::Bool => Some(Pat::Bool(g.src.bool())),
                Ty::Bytes => Some(Pat::Bytes(vec![])),
                Ty::Opt(_) => Some(Pat::Ctor { adt: OPT, ctor: 1, args: vec![], labelled: false, spread: false }),
                Ty::List(_) => Some(Pat::List(vec![], None)),
                _ => None,
            }
        };
        match t {
            Ty::Opt(et) => {
                let p = lit_of(self, et)?;
                Some((Pat::Ctor { adt: OPT, ctor: 0, args: vec![p], labelled: false, spread: false }, vec![]))
            }
            Ty::List(et) => {
                // a literal at position k (0..2), open patterns before it, then closed / `..` / `..rest`
                let p = lit_of(self, et)?;
                let k = self.src.below(3);
                let mut b = vec![];
                let mut ps: Vec<Pat> = (0..k).map(|_| self.open_pat(et, &mut b, 0)).collect();
                ps.push(p);
                let tail = match self.src.below(3) {
                    0 => None,
                    1 => Some(None),
                    _ => {
                        let x = self.name("m");
                        b.push((x.clone(), t.clone()));
                        Some(Some(x))
                    }
                };
                Some((Pat::List(ps, tail), b))
            }
            Ty::Tuple(ts) => {
                let k = self.src.below(ts.len());
                let p = lit_of(self, &ts[k])?;
                let mut b = vec![];
                let ps = ts.iter().enumerate().map(|(i, t)| if i == k { p.clone() } else { self.open_pat(t, &mut b, 0) }).collect();
                Some((Pat::Tuple(ps), b))
            }
            Ty::Pair(a, bt) => {
                let p = lit_of(self, a)?;
                let mut b = vec![];
                let q = self.open_pat(bt, &mut b, 0);
                Some((Pat::Pair(Box::new(p), Box::new(q)), b))
            }
            Ty::Adt(i, targs) => {
                let decl = self.m.adts[*i].clone();
                let cands: Vec<usize> = (0..decl.ctors.len()).filter(|c| !decl.ctors[*c].fields.is_empty()).collect();
                if cands.is_empty() {
                    return None;
                }
                let c = *self.src.pick(&cands);
                let tys = decl.field_tys(c, targs);
                let k = self.src.below(tys.len());
                let p = lit_of(self, &tys[k])?;
                let mut b = vec![];
                let args = tys.iter().enumerate().map(|(j, t)| if j == k { p.clone() } else { self.open_pat(t, &mut b, 0) }).collect();
                Some((Pat::Ctor { adt: *i, ctor: c, args, labelled: false, spread: false }, b))
            }
            _ => None,
        }
    }

    // --------------------------------------------------------------------------------------------
    // functions and modules

    fn helper(&mut self, k: usize) {
        let name = format!("h{k}");
        let kind = self.src.weighted(&[4, 4, 3, 3, 2]);
        let nextra = self.src.below(3);
        let mut params: Vec<(String, Ty)> = vec![];
        let ret = self.ty(2);
        let mut sc = Scope::default();
        let depth = 2 + self.src.below(self.cfg.max_depth - 1);
        let rec_adts: Vec<usize> = (0..self.m.adts.len())
            .filter(|i| self.m.adts[*i].params == 0 && self.m.adts[*i].ctors.iter().any(|c| c.fields.iter().any(|(_, t)| matches!(t, Ty::Adt(j, _) if j == i))))
            .collect();
        let extra: Vec<(String, Ty)> = (0..nextra)
            .map(|i| {
                let t = if kind == 4 && i == 0 { self.fn_ty() } else { self.ty(2) };
                (format!("a{i}"), t)
            })
            .collect();
        let body;
        self.nodes = 0;
        match kind {
            1 => {
                // structural recursion on a list
                let et = self.ty(1);
                let lt = Ty::list(et.clone());
                params.push(("xs".into(), lt.clone()));
                params.extend(extra);
                sc.vars = params.clone();
                let base = self.expr(&mut sc, &ret, depth.min(3));
                let x = self.name("m");
                let rest = self.name("m");
                sc.vars.push((x.clone(), et));
                sc.vars.push((rest.clone(), lt));
                sc.rec = Some(Rec { fname: name.clone(), dec_vars: vec![rest.clone()], int_counter: None, params: params.iter().map(|p| p.1.clone()).collect(), ret: ret.clone(), budget: 2 });
                let step = self.expr(&mut sc, &ret, depth);
                let mut clauses = vec![(Pat::List(vec![], None), base), (Pat::List(vec![Pat::Var(x)], Some(Some(rest))), step)];
                if self.src.bool() {
                    clauses.swap(0, 1);
                }
                body = E::When(bx(v("xs")), clauses);
                self.mark("helper:list-recursion");
            }
            2 => {
                // count-down recursion on an Int
                params.push(("n".into(), Ty::Int));
                params.extend(extra);
                sc.vars = params.clone();
                let base = self.expr(&mut sc, &ret, depth.min(3));
                sc.rec = Some(Rec { fname: name.clone(), dec_vars: vec![], int_counter: Some("n".into()), params: params.iter().map(|p| p.1.clone()).collect(), ret: ret.clone(), budget: 1 + self.src.below(2) as u32 });
                let step = self.expr(&mut sc, &ret, depth);
                body = E::If(vec![(E::Bin(Op::Le, bx(v("n")), bx(int(0))), base)], bx(step));
                self.int_rec.push(name.clone());
                self.mark("helper:int-recursion");
            }
            3 if !rec_adts.is_empty() => {
                // structural recursion on a recursive data type
                let a = *self.src.pick(&rec_adts);
                let at = Ty::Adt(a, vec![]);
                params.push(("t".into(), at.clone()));
                params.extend(extra);
                let decl = self.m.adts[a].clone();
                let mut clauses = vec![];
                for (c, ctor) in decl.ctors.iter().enumerate() {
                    sc.vars = params.clone();
                    let mut ps = vec![];
                    let mut dec = vec![];
                    for (_, ft) in &ctor.fields {
                        let x = self.name("m");
                        if *ft == at {
                            dec.push(x.clone());
                        }
                        sc.vars.push((x.clone(), ft.clone()));
                        ps.push(Pat::Var(x));
                    }
                    sc.rec = if dec.is_empty() { None } else { Some(Rec { fname: name.clone(), dec_vars: dec, int_counter: None, params: params.iter().map(|p| p.1.clone()).collect(), ret: ret.clone(), budget: 2 }) };
                    let b = self.expr(&mut sc, &ret, depth);
                    clauses.push((Pat::Ctor { adt: a, ctor: c, args: ps, labelled: false, spread: false }, b));
                }
                body = E::When(bx(v("t")), clauses);
                self.mark("helper:adt-recursion");
            }
            _ => {
                let n0 = 1 + self.src.below(2);
                for i in 0..n0 {
                    params.push((format!("x{i}"), self.ty(2)));
                }
                params.extend(extra);
                sc.vars = params.clone();
                body = self.expr(&mut sc, &ret, depth);
                self.mark("helper:plain");
            }
        }
        self.sigs.push(FnSig { name: name.clone(), tyvars: 0, params: params.iter().map(|p| p.1.clone()).collect(), ret: ret.clone() });
        self.m.fns.push(FnDecl { name, tyvars: 0, params, ret, body, public: false });
    }

    /// Arguments for a call of a count-down helper must be small: wrap call sites.
    fn bound_int_recursion_calls(&mut self) {
        // every call `hK(e, ..)` where hK is an int-recursion helper gets `e % 7` as first argument
        let int_rec: Vec<String> = self.int_rec.clone();
        if int_rec.is_empty() {
            return;
        }
        fn walk(e: &mut E, names: &[String], inside: Option<&str>) {
            // generic traversal
            macro_rules! each {
                ($($x:expr),*) => { $( walk($x, names, inside); )* };
            }
            match e {
                E::Call(f, args) => {
                    for a in args.iter_mut() {
                        walk(a, names, inside);
                    }
                    if names.contains(f) && inside != Some(f.as_str()) && !args.is_empty() {
                        let a0 = std::mem::replace(&mut args[0], E::Unit);
                        args[0] = E::Bin(Op::Mod, Box::new(a0), Box::new(E::Int(BigInt::from(6), 0)));
                    }
                }
                E::Pipe(first, f, rest) => {
                    walk(first, names, inside);
                    for a in rest.iter_mut() {
                        walk(a, names, inside);
                    }
                    if names.contains(f) {
                        let a0 = std::mem::replace(&mut **first, E::Unit);
                        **first = E::Bin(Op::Mod, Box::new(a0), Box::new(E::Int(BigInt::from(6), 0)));
                    }
                }
                E::Capture(_, args) => {
                    for a in args.iter_mut().flatten() {
                        walk(a, names, inside);
                    }
                }
                E::Bin(_, a, b) | E::Pair(a, b) => {
                    each!(a, b);
                }
                E::Neg(a) | E::Not(a) | E::TupleIx(a, _) | E::PairIx(a, _) | E::Field(a, _, _) | E::TraceIfFalse(a) | E::ToData(a, _) | E::Trace(_, a) => {
                    each!(a);
                }
                E::If(bs, els) => {
                    for (c, b) in bs.iter_mut() {
                        each!(c, b);
                    }
                    each!(els);
                }
                E::When(s, cl) => {
                    each!(s);
                    for (_, b) in cl.iter_mut() {
                        each!(b);
                    }
                }
                E::Let(_, _, a, b) | E::Expect(_, _, a, b) | E::ExpectData(_, _, a, b) => {
                    each!(a, b);
                }
                E::IfIs(a, _, _, b, c) => {
                    each!(a, b, c);
                }
                E::Tuple(args) | E::AndOr(_, args) | E::Builtin(_, args) | E::Ctor { args, .. } => {
                    for a in args.iter_mut() {
                        walk(a, names, inside);
                    }
                }
                E::Apply(f, args) => {
                    each!(f);
                    for a in args.iter_mut() {
                        walk(a, names, inside);
                    }
                }
                E::Lam(_, _, b) => {
                    each!(b);
                }
                E::List(es, t) => {
                    for a in es.iter_mut() {
                        walk(a, names, inside);
                    }
                    if let Some(t) = t {
                        each!(t);
                    }
                }
                E::Update { base, sets, .. } => {
                    each!(base);
                    for (_, v) in sets.iter_mut() {
                        each!(v);
                    }
                }
                _ => {}
            }
        }
        let names = int_rec;
        for f in self.m.fns.iter_mut() {
            let me = f.name.clone();
            walk(&mut f.body, &names, Some(&me));
        }
    }

    pub fn module(&mut self) -> Entry {
        self.gen_adts();
        for f in library() {
            self.sigs.push(FnSig { name: f.name.clone(), tyvars: f.tyvars, params: f.params.iter().map(|p| p.1.clone()).collect(), ret: f.ret.clone() });
            self.m.fns.push(f);
        }
        // constants: closed, non-aborting literals
        let nconst = self.src.below(3);
        for k in 0..nconst {
            let t = self.ty(2);
            if t == Ty::Data {
                continue;
            }
            let value = self.lit(&t, 2);
            self.m.consts.push(ConstDecl { name: format!("k{k}"), ty: t, value, as_data: false });
        }
        let nh = self.src.below(self.cfg.max_helpers + 1);
        for k in 0..nh {
            self.helper(k);
        }
        // entry
        let np = 1 + self.src.below(3);
        let params: Vec<(String, Ty)> = (0..np).map(|i| (format!("arg{i}"), self.ty(2))).collect();
        let ret = self.ty(2);
        let mut sc = Scope { vars: params.clone(), rec: None };
        self.nodes = 0;
        let depth = 2 + self.src.below(self.cfg.max_depth - 1);
        let body = self.expr(&mut sc, &ret, depth);
        // the result crosses the boundary as Data unless it is a primitive returned natively
        let native = matches!(ret, Ty::Int | Ty::Bool | Ty::Bytes) && self.src.bool();
        let (body, fret) = if native || ret == Ty::Data { (body, ret.clone()) } else { (E::ToData(bx(body), ret.clone()), Ty::Data) };
        self.m.fns.push(FnDecl { name: "entry".into(), tyvars: 0, params: params.clone(), ret: fret, body, public: true });
        self.bound_int_recursion_calls();
        Entry { name: "entry".into(), params: params.into_iter().map(|p| p.1).collect(), ret }
    }

    /// One more exported function in the same module (after `module()`). Local names restart, so
    /// that different functions can contain textually identical lines (e.g. the same `expect`).
    pub fn another_entry(&mut self, name: &str) -> Entry {
        self.fresh = 0;
        let np = 1 + self.src.below(2);
        let params: Vec<(String, Ty)> = (0..np).map(|i| (format!("arg{i}"), self.ty(1))).collect();
        let ret = self.ty(2);
        let mut sc = Scope { vars: params.clone(), rec: None };
        self.nodes = 0;
        let depth = 2 + self.src.below(self.cfg.max_depth - 1);
        let body = self.expr(&mut sc, &ret, depth);
        let (body, fret) = if ret == Ty::Data { (body, ret.clone()) } else { (E::ToData(bx(body), ret.clone()), Ty::Data) };
        self.m.fns.push(FnDecl { name: name.to_string(), tyvars: 0, params: params.clone(), ret: fret, body, public: true });
        self.bound_int_recursion_calls();
        Entry { name: name.to_string(), params: params.into_iter().map(|p| p.1).collect(), ret }
    }
}

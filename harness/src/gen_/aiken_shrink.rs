//! Syntax-directed shrinking of a failing mini-Aiken module: candidates are produced without
//! regard to types (hoist a sub-expression, replace by a small literal, drop a definition) and the
//! caller's predicate — which re-prints, re-compiles and re-judges the module — filters out the
//! ones that no longer type-check or no longer fail the same way.
use super::aiken_ast::*;
use num_bigint::BigInt;

/// Direct sub-expressions, in a fixed order.
pub fn children_mut(e: &mut E) -> Vec<&mut E> {
    match e {
        E::Int(..) | E::Bool(_) | E::Bytes(..) | E::Unit | E::Var(_) | E::Fail(_) | E::Todo(_) | E::Const(_) => vec![],
        E::Bin(_, a, b) | E::Pair(a, b) => vec![a, b],
        E::Neg(a) | E::Not(a) | E::TupleIx(a, _) | E::PairIx(a, _) | E::Field(a, _, _) | E::TraceIfFalse(a) | E::ToData(a, _) | E::Trace(_, a) => vec![a],
        E::If(bs, els) => {
            let mut v: Vec<&mut E> = vec![];
            for (c, b) in bs.iter_mut() {
                v.push(c);
                v.push(b);
            }
            v.push(els);
            v
        }
        E::When(s, cl) => {
            let mut v: Vec<&mut E> = vec![s];
            for (_, b) in cl.iter_mut() {
                v.push(b);
            }
            v
        }
        E::Let(_, _, a, b) | E::Expect(_, _, a, b) | E::ExpectData(_, _, a, b) => vec![a, b],
        E::IfIs(a, _, _, b, c) => vec![a, b, c],
        E::Call(_, args) | E::Tuple(args) | E::AndOr(_, args) | E::Builtin(_, args) | E::Ctor { args, .. } => args.iter_mut().collect(),
        E::Pipe(f, _, rest) => {
            let mut v: Vec<&mut E> = vec![f];
            v.extend(rest.iter_mut());
            v
        }
        E::Apply(f, args) => {
            let mut v: Vec<&mut E> = vec![f];
            v.extend(args.iter_mut());
            v
        }
        E::Lam(_, _, b) => vec![b],
        E::Capture(_, args) => args.iter_mut().flatten().collect(),
        E::List(es, t) => {
            let mut v: Vec<&mut E> = es.iter_mut().collect();
            if let Some(t) = t {
                v.push(t);
            }
            v
        }
        E::Update { base, sets, .. } => {
            let mut v: Vec<&mut E> = vec![base];
            for (_, x) in sets.iter_mut() {
                v.push(x);
            }
            v
        }
    }
}

pub fn count(e: &mut E) -> usize {
    1 + children_mut(e).into_iter().map(count).sum::<usize>()
}

/// The `idx`-th node in pre-order.
pub fn node_mut<'a>(e: &'a mut E, idx: &mut usize) -> Option<&'a mut E> {
    if *idx == 0 {
        return Some(e);
    }
    *idx -= 1;
    for c in children_mut(e) {
        if let Some(n) = node_mut(c, idx) {
            return Some(n);
        }
    }
    None
}

fn literal_pool() -> Vec<E> {
    vec![
        E::Int(BigInt::from(0), 0),
        E::Int(BigInt::from(1), 0),
        E::Bool(true),
        E::Bool(false),
        E::Bytes(vec![], 0),
        E::Unit,
        E::List(vec![], None),
        E::Ctor { adt: OPT, ctor: 1, args: vec![], labelled: false },
    ]
}

fn is_leaf(e: &E) -> bool {
    matches!(e, E::Int(..) | E::Bool(_) | E::Bytes(..) | E::Unit | E::Var(_) | E::Const(_)) || matches!(e, E::List(es, None) if es.is_empty()) || matches!(e, E::Ctor { args, .. } if args.is_empty())
}

fn candidates(e: &mut E) -> Vec<E> {
    let mut out: Vec<E> = vec![];
    if is_leaf(e) {
        return out;
    }
    // hoist each child (smallest first would be nicer; order of appearance is fine)
    for c in children_mut(e) {
        out.push(c.clone());
    }
    // structure-specific simplifications
    match e {
        E::If(bs, els) if bs.len() > 1 => {
            let mut b2 = bs.clone();
            b2.pop();
            out.push(E::If(b2, els.clone()));
        }
        E::List(es, Some(_)) => out.push(E::List(es.clone(), None)),
        E::List(es, None) if es.len() > 1 => out.push(E::List(es[..1].to_vec(), None)),
        E::Pipe(first, f, rest) => {
            let mut args = vec![(**first).clone()];
            args.extend(rest.iter().cloned());
            out.push(E::Call(f.clone(), args));
        }
        E::When(s, cl) if cl.len() > 2 => {
            // drop a middle clause (stays exhaustive only if the checker agrees)
            for i in 0..cl.len() - 1 {
                let mut c2 = cl.clone();
                c2.remove(i);
                out.push(E::When(s.clone(), c2));
            }
        }
        _ => {}
    }
    out.extend(literal_pool());
    out
}

/// Greedy shrinking. `still_fails` must be deterministic. At most `budget` calls.
pub fn shrink_module(m: &Module, budget: usize, mut still_fails: impl FnMut(&Module) -> bool) -> Module {
    let mut cur = m.clone();
    let mut calls = 0usize;
    // 1. drop definitions (last first, so helpers go before what they call)
    let mut i = cur.fns.len();
    while i > 0 && calls < budget {
        i -= 1;
        if cur.fns[i].name == "entry" {
            continue;
        }
        let mut cand = cur.clone();
        cand.fns.remove(i);
        calls += 1;
        if still_fails(&cand) {
            cur = cand;
        }
    }
    let mut i = cur.consts.len();
    while i > 0 && calls < budget {
        i -= 1;
        let mut cand = cur.clone();
        cand.consts.remove(i);
        calls += 1;
        if still_fails(&cand) {
            cur = cand;
        }
    }
    // 2. simplify expressions, function by function, until nothing changes
    let mut changed = true;
    let mut rounds = 0;
    while changed && calls < budget && rounds < 6 {
        changed = false;
        rounds += 1;
        for fi in (0..cur.fns.len()).rev() {
            let mut idx = 0usize;
            loop {
                let n = count(&mut cur.fns[fi].body);
                if idx >= n || calls >= budget {
                    break;
                }
                let cands = {
                    let mut k = idx;
                    match node_mut(&mut cur.fns[fi].body, &mut k) {
                        Some(node) => candidates(node),
                        None => vec![],
                    }
                };
                let mut replaced = false;
                for c in cands {
                    if calls >= budget {
                        break;
                    }
                    let mut cand = cur.clone();
                    {
                        let mut k = idx;
                        if let Some(node) = node_mut(&mut cand.fns[fi].body, &mut k) {
                            *node = c;
                        }
                    }
                    calls += 1;
                    if still_fails(&cand) {
                        cur = cand;
                        replaced = true;
                        changed = true;
                        break;
                    }
                }
                if !replaced {
                    idx += 1;
                }
            }
        }
    }
    // 3. drop data types nobody needs any more (from the last; indices of later types shift, so
    //    only the last one is ever tried)
    while calls < budget && !cur.adts.is_empty() {
        let mut cand = cur.clone();
        cand.adts.pop();
        calls += 1;
        if still_fails(&cand) {
            cur = cand;
        } else {
            break;
        }
    }
    cur
}

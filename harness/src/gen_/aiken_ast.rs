//! G-AIKEN, part 1: a typed mini-Aiken AST and its printer to Aiken source text.
//! The AST is *typed by construction* (the generator in aiken_gen.rs only builds well-typed
//! terms); the real parser and type checker always see the printed text.
use num_bigint::BigInt;
use num_traits::Signed;

pub const OPT: usize = usize::MAX;

#[derive(Clone, Debug, PartialEq, Eq, Hash)]
pub enum Ty {
    Int,
    Bool,
    Bytes,
    Unit,
    Data,
    List(Box<Ty>),
    Tuple(Vec<Ty>),
    Pair(Box<Ty>, Box<Ty>),
    Opt(Box<Ty>),
    /// user data type (index into Module::adts) applied to type arguments
    Adt(usize, Vec<Ty>),
    Fn(Vec<Ty>, Box<Ty>),
    /// type variable of a generic signature / data type declaration
    Var(usize),
}

impl Ty {
    pub fn list(t: Ty) -> Ty {
        Ty::List(Box::new(t))
    }
    pub fn opt(t: Ty) -> Ty {
        Ty::Opt(Box::new(t))
    }
    pub fn pair(a: Ty, b: Ty) -> Ty {
        Ty::Pair(Box::new(a), Box::new(b))
    }
    pub fn func(a: Vec<Ty>, r: Ty) -> Ty {
        Ty::Fn(a, Box::new(r))
    }
    pub fn subst(&self, s: &[Ty]) -> Ty {
        match self {
            Ty::Var(i) => s.get(*i).cloned().unwrap_or(Ty::Int),
            Ty::List(t) => Ty::list(t.subst(s)),
            Ty::Opt(t) => Ty::opt(t.subst(s)),
            Ty::Tuple(ts) => Ty::Tuple(ts.iter().map(|t| t.subst(s)).collect()),
            Ty::Pair(a, b) => Ty::pair(a.subst(s), b.subst(s)),
            Ty::Adt(i, ts) => Ty::Adt(*i, ts.iter().map(|t| t.subst(s)).collect()),
            Ty::Fn(a, r) => Ty::func(a.iter().map(|t| t.subst(s)).collect(), r.subst(s)),
            t => t.clone(),
        }
    }
    pub fn has_fn(&self) -> bool {
        match self {
            Ty::Fn(..) => true,
            Ty::List(t) | Ty::Opt(t) => t.has_fn(),
            Ty::Tuple(ts) | Ty::Adt(_, ts) => ts.iter().any(|t| t.has_fn()),
            Ty::Pair(a, b) => a.has_fn() || b.has_fn(),
            _ => false,
        }
    }
    pub fn has_var(&self) -> bool {
        match self {
            Ty::Var(_) => true,
            Ty::List(t) | Ty::Opt(t) => t.has_var(),
            Ty::Tuple(ts) | Ty::Adt(_, ts) => ts.iter().any(|t| t.has_var()),
            Ty::Pair(a, b) => a.has_var() || b.has_var(),
            Ty::Fn(a, r) => a.iter().any(|t| t.has_var()) || r.has_var(),
            _ => false,
        }
    }
    pub fn depth(&self) -> usize {
        match self {
            Ty::List(t) | Ty::Opt(t) => 1 + t.depth(),
            Ty::Tuple(ts) | Ty::Adt(_, ts) => 1 + ts.iter().map(|t| t.depth()).max().unwrap_or(0),
            Ty::Pair(a, b) => 1 + a.depth().max(b.depth()),
            Ty::Fn(a, r) => 1 + a.iter().map(|t| t.depth()).max().unwrap_or(0).max(r.depth()),
            _ => 0,
        }
    }
}

#[derive(Clone, Debug)]
pub struct Ctor {
    pub name: String,
    /// (label, type); labels are either all present or all absent within a constructor
    pub fields: Vec<(Option<String>, Ty)>,
}

#[derive(Clone, Debug)]
pub struct AdtDecl {
    pub name: String,
    pub params: usize,
    pub ctors: Vec<Ctor>,
    pub opaque: bool,
    pub public: bool,
    /// explicit `@tag(n)` per constructor (empty = declaration indices)
    pub tags: Vec<u64>,
}

impl AdtDecl {
    pub fn is_record(&self) -> bool {
        self.ctors.len() == 1 && !self.ctors[0].fields.is_empty() && self.ctors[0].fields.iter().all(|f| f.0.is_some())
    }
    /// Data constructor index of constructor `ctor`
    pub fn tag(&self, ctor: usize) -> u64 {
        self.tags.get(ctor).copied().unwrap_or(ctor as u64)
    }
    pub fn ctor_of_tag(&self, tag: u64) -> Option<usize> {
        (0..self.ctors.len()).find(|c| self.tag(*c) == tag)
    }
    pub fn field_tys(&self, ctor: usize, targs: &[Ty]) -> Vec<Ty> {
        self.ctors[ctor].fields.iter().map(|(_, t)| t.subst(targs)).collect()
    }
}

#[derive(Clone, Copy, Debug, PartialEq, Eq, Hash)]
pub enum Op {
    Add,
    Sub,
    Mul,
    Div,
    Mod,
    Eq,
    Neq,
    Lt,
    Le,
    Gt,
    Ge,
    And,
    Or,
}

impl Op {
    pub fn text(self) -> &'static str {
        match self {
            Op::Add => "+",
            Op::Sub => "-",
            Op::Mul => "*",
            Op::Div => "/",
            Op::Mod => "%",
            Op::Eq => "==",
            Op::Neq => "!=",
            Op::Lt => "<",
            Op::Le => "<=",
            Op::Gt => ">",
            Op::Ge => ">=",
            Op::And => "&&",
            Op::Or => "||",
        }
    }
}

#[derive(Clone, Copy, Debug, PartialEq, Eq, Hash)]
pub enum Bi {
    AppendBytes,
    LengthBytes,
    IndexBytes,
    SliceBytes,
    ConsBytes,
    LessThanBytes,
    HeadList,
    TailList,
    NullList,
    Sha2,
    Blake2b,
    IntToBytes,
    BytesToInt,
    QuotientInteger,
    RemainderInteger,
}

#[derive(Clone, Debug)]
pub enum Pat {
    Var(String),
    Discard,
    Int(BigInt),
    Bytes(Vec<u8>),
    Bool(bool),
    Tuple(Vec<Pat>),
    Pair(Box<Pat>, Box<Pat>),
    /// elements, tail: None = closed list, Some(None) = `..`, Some(Some(x)) = `..x`
    List(Vec<Pat>, Option<Option<String>>),
    /// adt index (OPT for Option), constructor index, sub-patterns (one per field unless `spread`),
    /// labelled, spread (`..` after the listed fields; then args pair with the first fields)
    Ctor { adt: usize, ctor: usize, args: Vec<Pat>, labelled: bool, spread: bool },
    As(Box<Pat>, String),
}

#[derive(Clone, Debug)]
pub enum E {
    Int(BigInt, u8),
    Bool(bool),
    Bytes(Vec<u8>, u8),
    Unit,
    Var(String),
    Bin(Op, Box<E>, Box<E>),
    Neg(Box<E>),
    Not(Box<E>),
    /// if c1 {e1} else if c2 {e2} ... else {e}
    If(Vec<(E, E)>, Box<E>),
    When(Box<E>, Vec<(Pat, E)>),
    /// let pat: ty = value; body      (pat is usually a variable)
    Let(Pat, Ty, Box<E>, Box<E>),
    /// expect pat = value; body       (value has the pattern's type; may abort)
    Expect(Pat, Ty, Box<E>, Box<E>),
    /// expect name: ty = value; body  where value: Data
    ExpectData(String, Ty, Box<E>, Box<E>),
    /// { let fresh: Data = e  fresh }   (e has type `from`)
    ToData(Box<E>, Ty),
    /// if value is name: ty { then } else { otherwise }   (value: Data)
    IfIs(Box<E>, String, Ty, Box<E>, Box<E>),
    Call(String, Vec<E>),
    /// first |> f(rest..)
    Pipe(Box<E>, String, Vec<E>),
    Apply(Box<E>, Vec<E>),
    Lam(Vec<(String, Ty)>, Ty, Box<E>),
    /// f(a, _, c): exactly one hole
    Capture(String, Vec<Option<E>>),
    Tuple(Vec<E>),
    TupleIx(Box<E>, usize),
    Pair(Box<E>, Box<E>),
    PairIx(Box<E>, usize),
    List(Vec<E>, Option<Box<E>>),
    Ctor { adt: usize, ctor: usize, args: Vec<E>, labelled: bool },
    Field(Box<E>, usize, usize),
    Update { adt: usize, base: Box<E>, sets: Vec<(usize, E)> },
    Fail(Option<String>),
    Todo(Option<String>),
    Trace(String, Box<E>),
    /// e?   (Bool)
    TraceIfFalse(Box<E>),
    AndOr(bool, Vec<E>),
    Builtin(Bi, Vec<E>),
    /// module constant
    Const(String),
}

#[derive(Clone, Debug)]
pub struct FnDecl {
    pub name: String,
    pub tyvars: usize,
    pub params: Vec<(String, Ty)>,
    pub ret: Ty,
    pub body: E,
    pub public: bool,
}

#[derive(Clone, Debug)]
pub struct ConstDecl {
    pub name: String,
    pub ty: Ty,
    pub value: E,
    /// declared `const k: Data = <value of type ty>`: the annotation is an accepted up-cast; such
    /// a constant is only ever used where Data is expected
    pub as_data: bool,
}

#[derive(Clone, Debug, Default)]
pub struct Module {
    pub adts: Vec<AdtDecl>,
    pub consts: Vec<ConstDecl>,
    pub fns: Vec<FnDecl>,
}

// ------------------------------------------------------------------------------------------------
// printer

pub struct Printer<'a> {
    pub m: &'a Module,
    out: String,
    fresh: usize,
}

const TYVARS: [&str; 4] = ["a", "b", "c", "d"];

pub fn show_ty(m: &Module, t: &Ty) -> String {
    match t {
        Ty::Int => "Int".into(),
        Ty::Bool => "Bool".into(),
        Ty::Bytes => "ByteArray".into(),
        Ty::Unit => "Void".into(),
        Ty::Data => "Data".into(),
        Ty::List(t) => format!("List<{}>", show_ty(m, t)),
        Ty::Opt(t) => format!("Option<{}>", show_ty(m, t)),
        Ty::Tuple(ts) => format!("({})", ts.iter().map(|t| show_ty(m, t)).collect::<Vec<_>>().join(", ")),
        Ty::Pair(a, b) => format!("Pair<{}, {}>", show_ty(m, a), show_ty(m, b)),
        Ty::Adt(i, ts) => {
            let n = &m.adts[*i].name;
            if ts.is_empty() {
                n.clone()
            } else {
                format!("{}<{}>", n, ts.iter().map(|t| show_ty(m, t)).collect::<Vec<_>>().join(", "))
            }
        }
        Ty::Fn(a, r) => format!("fn({}) -> {}", a.iter().map(|t| show_ty(m, t)).collect::<Vec<_>>().join(", "), show_ty(m, r)),
        Ty::Var(i) => TYVARS[*i % 4].to_string(),
    }
}

pub fn show_int(i: &BigInt, style: u8) -> String {
    if i.is_negative() {
        return format!("-{}", show_int(&-i.clone(), style));
    }
    match style % 3 {
        1 => format!("0x{}", i.to_str_radix(16)),
        2 => {
            // decimal with `_` separators
            let s = i.to_str_radix(10);
            let mut out = String::new();
            for (k, ch) in s.chars().enumerate() {
                if k > 0 && (s.len() - k) % 3 == 0 {
                    out.push('_');
                }
                out.push(ch);
            }
            out
        }
        _ => i.to_str_radix(10),
    }
}

pub fn show_bytes(b: &[u8], style: u8) -> String {
    match style % 3 {
        1 => format!("#[{}]", b.iter().map(|x| x.to_string()).collect::<Vec<_>>().join(", ")),
        2 if !b.is_empty() && b.iter().all(|c| c.is_ascii_alphanumeric() || *c == b' ') => {
            format!("\"{}\"", String::from_utf8_lossy(b))
        }
        _ => format!("#\"{}\"", hex::encode(b)),
    }
}

fn show_str(s: &str) -> String {
    let mut o = String::from("@\"");
    for c in s.chars() {
        match c {
            '"' => o.push_str("\\\""),
            '\\' => o.push_str("\\\\"),
            '\n' => o.push_str("\\n"),
            '\t' => o.push_str("\\t"),
            c => o.push(c),
        }
    }
    o.push('"');
    o
}

pub fn bi_name(b: Bi) -> &'static str {
    match b {
        Bi::AppendBytes => "append_bytearray",
        Bi::LengthBytes => "length_of_bytearray",
        Bi::IndexBytes => "index_bytearray",
        Bi::SliceBytes => "slice_bytearray",
        Bi::ConsBytes => "cons_bytearray",
        Bi::LessThanBytes => "less_than_bytearray",
        Bi::HeadList => "head_list",
        Bi::TailList => "tail_list",
        Bi::NullList => "null_list",
        Bi::Sha2 => "sha2_256",
        Bi::Blake2b => "blake2b_256",
        Bi::IntToBytes => "integer_to_bytearray",
        Bi::BytesToInt => "bytearray_to_integer",
        Bi::QuotientInteger => "quotient_integer",
        Bi::RemainderInteger => "remainder_integer",
    }
}

impl<'a> Printer<'a> {
    pub fn new(m: &'a Module) -> Self {
        Printer { m, out: String::new(), fresh: 0 }
    }

    fn ty(&self, t: &Ty) -> String {
        show_ty(self.m, t)
    }

    fn ind(&mut self, n: usize) {
        for _ in 0..n {
            self.out.push_str("  ");
        }
    }

    pub fn pat(&self, p: &Pat) -> String {
        match p {
            Pat::Var(v) => v.clone(),
            Pat::Discard => "_".into(),
            Pat::Int(i) => show_int(i, 0),
            Pat::Bytes(b) => show_bytes(b, 0),
            Pat::Bool(b) => if *b { "True".into() } else { "False".into() },
            Pat::Tuple(ps) => format!("({})", ps.iter().map(|p| self.pat(p)).collect::<Vec<_>>().join(", ")),
            Pat::Pair(a, b) => format!("Pair({}, {})", self.pat(a), self.pat(b)),
            Pat::List(ps, tail) => {
                let mut parts: Vec<String> = ps.iter().map(|p| self.pat(p)).collect();
                match tail {
                    None => {}
                    Some(None) => parts.push("..".into()),
                    Some(Some(t)) => parts.push(format!("..{t}")),
                }
                format!("[{}]", parts.join(", "))
            }
            Pat::Ctor { adt, ctor, args, labelled, spread } => {
                if *adt == OPT {
                    return if *ctor == 0 { format!("Some({})", self.pat(&args[0])) } else { "None".to_string() };
                }
                let c = &self.m.adts[*adt].ctors[*ctor];
                if c.fields.is_empty() {
                    return c.name.clone();
                }
                if args.is_empty() && *spread {
                    return if *labelled { format!("{} {{ .. }}", c.name) } else { format!("{}(..)", c.name) };
                }
                if *labelled {
                    let mut parts: Vec<String> = args
                        .iter()
                        .enumerate()
                        .map(|(i, p)| {
                            let l = c.fields[i].0.clone().unwrap_or_default();
                            match p {
                                Pat::Var(v) if *v == l => l,
                                _ => format!("{l}: {}", self.pat(p)),
                            }
                        })
                        .collect();
                    if *spread {
                        parts.push("..".into());
                    }
                    format!("{} {{ {} }}", c.name, parts.join(", "))
                } else {
                    let mut parts: Vec<String> = args.iter().map(|p| self.pat(p)).collect();
                    if *spread {
                        parts.push("..".into());
                    }
                    format!("{}({})", c.name, parts.join(", "))
                }
            }
            Pat::As(p, n) => format!("{} as {n}", self.pat(p)),
        }
    }

    fn is_stmt(e: &E) -> bool {
        matches!(e, E::Let(..) | E::Expect(..) | E::ExpectData(..) | E::Trace(..))
    }

    /// Print `e` as the content of a block (statements allowed), each line at indentation `n`.
    fn block_body(&mut self, e: &E, n: usize) {
        match e {
            E::Let(p, t, v, b) => {
                self.ind(n);
                let ps = self.pat(p);
                let ts = self.ty(t);
                self.out.push_str(&format!("let {ps}: {ts} = "));
                self.expr(v, n);
                self.out.push('\n');
                self.block_body(b, n);
            }
            E::Expect(p, _t, v, b) => {
                self.ind(n);
                let ps = self.pat(p);
                self.out.push_str(&format!("expect {ps} = "));
                self.expr(v, n);
                self.out.push('\n');
                self.block_body(b, n);
            }
            E::ExpectData(x, t, v, b) => {
                self.ind(n);
                let ts = self.ty(t);
                self.out.push_str(&format!("expect {x}: {ts} = "));
                self.expr(v, n);
                self.out.push('\n');
                self.block_body(b, n);
            }
            E::Trace(msg, b) => {
                self.ind(n);
                self.out.push_str(&format!("trace {}\n", show_str(msg)));
                self.block_body(b, n);
            }
            _ => {
                self.ind(n);
                self.expr(e, n);
                self.out.push('\n');
            }
        }
    }

    fn braces(&mut self, e: &E, n: usize) {
        self.out.push_str("{\n");
        self.block_body(e, n + 1);
        self.ind(n);
        self.out.push('}');
    }

    /// operand position: compound expressions are wrapped
    fn operand(&mut self, e: &E, n: usize) {
        match e {
            E::Bin(..) | E::Pipe(..) | E::ToData(..) => {
                self.out.push('(');
                self.expr(e, n);
                self.out.push(')');
            }
            E::Int(i, _) if i.is_negative() => {
                self.out.push('(');
                self.expr(e, n);
                self.out.push(')');
            }
            E::Neg(_) | E::Not(_) | E::TraceIfFalse(_) => {
                self.out.push('(');
                self.expr(e, n);
                self.out.push(')');
            }
            E::If(..) | E::When(..) | E::IfIs(..) | E::Lam(..) | E::Fail(_) | E::Todo(_) => {
                self.braces(e, n);
            }
            _ if Self::is_stmt(e) => self.braces(e, n),
            _ => self.expr(e, n),
        }
    }

    fn args(&mut self, es: &[E], n: usize) {
        for (i, a) in es.iter().enumerate() {
            if i > 0 {
                self.out.push_str(", ");
            }
            self.arg(a, n);
        }
    }

    /// condition of `if`, subject of `when` / `if .. is`: the parser stops at the first `{`, so
    /// anything that may contain braces is parenthesised
    fn head(&mut self, a: &E, n: usize) {
        match a {
            E::Var(_) | E::Const(_) | E::Bool(_) | E::Int(..) | E::Unit | E::Bytes(..) => self.expr(a, n),
            _ => {
                self.out.push('(');
                self.arg(a, n);
                self.out.push(')');
            }
        }
    }

    fn arg(&mut self, a: &E, n: usize) {
        if Self::is_stmt(a) {
            self.braces(a, n);
        } else {
            self.expr(a, n);
        }
    }

    pub fn expr(&mut self, e: &E, n: usize) {
        match e {
            E::Int(i, s) => self.out.push_str(&show_int(i, *s)),
            E::Bool(b) => self.out.push_str(if *b { "True" } else { "False" }),
            E::Bytes(b, s) => self.out.push_str(&show_bytes(b, *s)),
            E::Unit => self.out.push_str("Void"),
            E::Var(v) | E::Const(v) => self.out.push_str(v),
            E::Bin(op, l, r) => {
                self.operand(l, n);
                self.out.push(' ');
                self.out.push_str(op.text());
                self.out.push(' ');
                self.operand(r, n);
            }
            E::Neg(x) => {
                self.out.push('-');
                self.operand(x, n);
            }
            E::Not(x) => {
                self.out.push('!');
                self.operand(x, n);
            }
            E::If(branches, els) => {
                for (i, (c, b)) in branches.iter().enumerate() {
                    if i > 0 {
                        self.out.push_str(" else ");
                    }
                    self.out.push_str("if ");
                    self.head(c, n);
                    self.out.push(' ');
                    self.braces(b, n);
                }
                self.out.push_str(" else ");
                self.braces(els, n);
            }
            E::When(s, clauses) => {
                self.out.push_str("when ");
                self.head(s, n);
                self.out.push_str(" is {\n");
                for (p, b) in clauses {
                    self.ind(n + 1);
                    let ps = self.pat(p);
                    self.out.push_str(&ps);
                    self.out.push_str(" -> ");
                    if Self::is_stmt(b) {
                        self.braces(b, n + 1);
                    } else {
                        self.expr(b, n + 1);
                    }
                    self.out.push('\n');
                }
                self.ind(n);
                self.out.push('}');
            }
            E::Let(..) | E::Expect(..) | E::ExpectData(..) | E::Trace(..) => self.braces(e, n),
            E::ToData(x, _) if matches!(&**x, E::Const(k) if self.m.consts.iter().any(|c| c.as_data && c.name == *k)) => {
                // a constant declared with a `Data` annotation is used as Data directly
                self.fresh += 1;
                let v = format!("up{}", self.fresh);
                self.out.push_str("{\n");
                self.ind(n + 1);
                self.out.push_str(&format!("let {v}: Data = "));
                self.expr(x, n + 1);
                self.out.push('\n');
                self.ind(n + 1);
                self.out.push_str(&v);
                self.out.push('\n');
                self.ind(n);
                self.out.push('}');
            }
            E::ToData(x, from) => {
                // the source type is pinned by an annotated binding first: an up-cast of e.g. `[]`
                // or `None` would otherwise leave the element type (and with it the Data
                // representation: list vs map) to inference defaults
                self.fresh += 1;
                let v = format!("up{}", self.fresh);
                let w = format!("uq{}", self.fresh);
                let ts = self.ty(from);
                self.out.push_str("{\n");
                self.ind(n + 1);
                self.out.push_str(&format!("let {w}: {ts} = "));
                self.expr(x, n + 1);
                self.out.push('\n');
                self.ind(n + 1);
                self.out.push_str(&format!("let {v}: Data = {w}"));
                self.out.push('\n');
                self.ind(n + 1);
                self.out.push_str(&v);
                self.out.push('\n');
                self.ind(n);
                self.out.push('}');
            }
            E::IfIs(v, x, t, a, b) => {
                let ts = self.ty(t);
                self.out.push_str("if ");
                self.head(v, n);
                self.out.push_str(&format!(" is {x}: {ts} "));
                self.braces(a, n);
                self.out.push_str(" else ");
                self.braces(b, n);
            }
            E::Call(f, args) => {
                self.out.push_str(f);
                self.out.push('(');
                self.args(args, n);
                self.out.push(')');
            }
            E::Pipe(first, f, rest) => {
                self.operand(first, n);
                self.out.push_str(" |> ");
                self.out.push_str(f);
                self.out.push('(');
                self.args(rest, n);
                self.out.push(')');
            }
            E::Apply(f, args) => {
                match &**f {
                    E::Var(_) => self.expr(f, n),
                    _ => {
                        self.out.push('(');
                        self.expr(f, n);
                        self.out.push(')');
                    }
                }
                self.out.push('(');
                self.args(args, n);
                self.out.push(')');
            }
            E::Lam(params, ret, body) => {
                let ps: Vec<String> = params.iter().map(|(x, t)| format!("{x}: {}", self.ty(t))).collect();
                let rs = self.ty(ret);
                self.out.push_str(&format!("fn({}) -> {rs} ", ps.join(", ")));
                self.braces(body, n);
            }
            E::Capture(f, args) => {
                self.out.push_str(f);
                self.out.push('(');
                for (i, a) in args.iter().enumerate() {
                    if i > 0 {
                        self.out.push_str(", ");
                    }
                    match a {
                        None => self.out.push('_'),
                        Some(a) => self.arg(a, n),
                    }
                }
                self.out.push(')');
            }
            E::Tuple(es) => {
                self.out.push('(');
                self.args(es, n);
                self.out.push(')');
            }
            E::TupleIx(t, i) => {
                self.postfix_base(t, n);
                self.out.push_str(match i {
                    0 => ".1st",
                    1 => ".2nd",
                    2 => ".3rd",
                    _ => ".4th",
                });
            }
            E::Pair(a, b) => {
                self.out.push_str("Pair(");
                self.arg(a, n);
                self.out.push_str(", ");
                self.arg(b, n);
                self.out.push(')');
            }
            E::PairIx(p, i) => {
                self.postfix_base(p, n);
                self.out.push_str(if *i == 0 { ".1st" } else { ".2nd" });
            }
            E::List(es, tail) => {
                self.out.push('[');
                self.args(es, n);
                if let Some(t) = tail {
                    if !es.is_empty() {
                        self.out.push_str(", ");
                    }
                    self.out.push_str("..");
                    self.postfix_base(t, n);
                }
                self.out.push(']');
            }
            E::Ctor { adt, ctor, args, labelled } => {
                if *adt == OPT {
                    if *ctor == 0 {
                        self.out.push_str("Some(");
                        self.arg(&args[0], n);
                        self.out.push(')');
                    } else {
                        self.out.push_str("None");
                    }
                    return;
                }
                let c = self.m.adts[*adt].ctors[*ctor].clone();
                self.out.push_str(&c.name);
                if c.fields.is_empty() {
                    return;
                }
                if *labelled && c.fields.iter().all(|f| f.0.is_some()) {
                    self.out.push_str(" { ");
                    for (i, a) in args.iter().enumerate() {
                        if i > 0 {
                            self.out.push_str(", ");
                        }
                        self.out.push_str(c.fields[i].0.as_ref().unwrap());
                        self.out.push_str(": ");
                        self.arg(a, n);
                    }
                    self.out.push_str(" }");
                } else {
                    self.out.push('(');
                    self.args(args, n);
                    self.out.push(')');
                }
            }
            E::Field(b, adt, f) => {
                self.postfix_base(b, n);
                let l = self.m.adts[*adt].ctors[0].fields[*f].0.clone().unwrap_or_default();
                self.out.push('.');
                self.out.push_str(&l);
            }
            E::Update { adt, base, sets } => {
                let c = self.m.adts[*adt].ctors[0].clone();
                self.out.push_str(&c.name);
                self.out.push_str(" { ..");
                self.postfix_base(base, n);
                for (f, v) in sets {
                    self.out.push_str(", ");
                    self.out.push_str(c.fields[*f].0.as_ref().unwrap());
                    self.out.push_str(": ");
                    self.arg(v, n);
                }
                self.out.push_str(" }");
            }
            // a bare `fail` / `todo` swallows the expression on the next line as its message, so
            // a message is always printed
            E::Fail(msg) => self.out.push_str(&format!("fail {}", show_str(msg.as_deref().unwrap_or("fail")))),
            E::Todo(msg) => self.out.push_str(&format!("todo {}", show_str(msg.as_deref().unwrap_or("todo")))),
            E::TraceIfFalse(x) => {
                self.postfix_base(x, n);
                self.out.push('?');
            }
            E::AndOr(is_and, es) => {
                self.out.push_str(if *is_and { "and {\n" } else { "or {\n" });
                for x in es {
                    self.ind(n + 1);
                    self.arg(x, n + 1);
                    self.out.push_str(",\n");
                }
                self.ind(n);
                self.out.push('}');
            }
            E::Builtin(b, args) => {
                self.out.push_str("builtin.");
                self.out.push_str(bi_name(*b));
                self.out.push('(');
                self.args(args, n);
                self.out.push(')');
            }
        }
    }

    /// base of a postfix operator (`.1st`, `.field`, `?`, `..tail`): simple expressions as they
    /// are, everything else in parentheses / braces
    fn postfix_base(&mut self, e: &E, n: usize) {
        match e {
            E::Var(_) | E::Const(_) | E::Call(..) | E::TupleIx(..) | E::PairIx(..) | E::Field(..) | E::Builtin(..) => self.expr(e, n),
            E::Tuple(_) | E::List(..) => self.expr(e, n),
            _ if Self::is_stmt(e) => self.braces(e, n),
            E::If(..) | E::When(..) | E::IfIs(..) => self.braces(e, n),
            _ => {
                self.out.push('(');
                self.expr(e, n);
                self.out.push(')');
            }
        }
    }

    pub fn module(mut self) -> String {
        let m = self.m;
        self.out.push_str("use aiken/builtin\n\n");
        for (i, a) in m.adts.iter().enumerate() {
            let _ = i;
            let params = if a.params == 0 {
                String::new()
            } else {
                format!("<{}>", (0..a.params).map(|i| TYVARS[i]).collect::<Vec<_>>().join(", "))
            };
            let vis = match (a.public, a.opaque) {
                (_, true) => "pub opaque type",
                (true, false) => "pub type",
                (false, false) => "type",
            };
            let sugar = a.ctors.len() == 1 && a.ctors[0].name == a.name && !a.ctors[0].fields.is_empty() && a.ctors[0].fields.iter().all(|f| f.0.is_some());
            if sugar {
                // record written without an explicit constructor; a tag then sits on the type
                if let Some(t) = a.tags.first() {
                    self.out.push_str(&format!("@tag({t})\n"));
                }
                self.out.push_str(&format!("{vis} {}{params} {{\n", a.name));
                for (l, t) in &a.ctors[0].fields {
                    self.out.push_str(&format!("  {}: {},\n", l.as_ref().unwrap(), self.ty(t)));
                }
                self.out.push_str("}\n\n");
                continue;
            }
            self.out.push_str(&format!("{vis} {}{params} {{\n", a.name));
            for (ci, c) in a.ctors.iter().enumerate() {
                if let Some(t) = a.tags.get(ci) {
                    self.out.push_str(&format!("  @tag({t})\n"));
                }
                self.out.push_str("  ");
                self.out.push_str(&c.name);
                if !c.fields.is_empty() {
                    if c.fields.iter().all(|f| f.0.is_some()) {
                        let fs: Vec<String> = c.fields.iter().map(|(l, t)| format!("{}: {}", l.as_ref().unwrap(), self.ty(t))).collect();
                        self.out.push_str(&format!(" {{ {} }}", fs.join(", ")));
                    } else {
                        let fs: Vec<String> = c.fields.iter().map(|(_, t)| self.ty(t)).collect();
                        self.out.push_str(&format!("({})", fs.join(", ")));
                    }
                }
                self.out.push('\n');
            }
            self.out.push_str("}\n\n");
        }
        for c in &m.consts {
            let ts = if c.as_data { "Data".to_string() } else { self.ty(&c.ty) };
            self.out.push_str(&format!("pub const {}: {ts} = ", c.name));
            self.arg(&c.value, 0);
            self.out.push_str("\n\n");
        }
        for f in &m.fns {
            let ps: Vec<String> = f.params.iter().map(|(x, t)| format!("{x}: {}", self.ty(t))).collect();
            let rs = self.ty(&f.ret);
            self.out.push_str(&format!("{}fn {}({}) -> {rs} {{\n", if f.public { "pub " } else { "" }, f.name, ps.join(", ")));
            self.block_body(&f.body, 1);
            self.out.push_str("}\n\n");
        }
        self.out
    }
}

pub fn print_module(m: &Module) -> String {
    Printer::new(m).module()
}

pub fn print_expr(m: &Module, e: &E) -> String {
    let mut p = Printer::new(m);
    p.expr(e, 0);
    p.out
}

pub mod consts;
pub mod uplc;

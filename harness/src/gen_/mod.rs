pub mod consts;
pub mod uplc;
pub mod aiken_ast;
pub mod aiken_gen;
pub mod aiken_shrink;

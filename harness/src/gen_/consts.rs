//! G-CONST / G-DATA: constants of every type nesting, boundary-biased integers, byte strings,
//! unicode strings, PlutusData with definite/indefinite containers and all constructor-tag ranges.
use crate::engine::Src;
use num_bigint::BigInt;
use pallas_primitives::{
    BoundedBytes, Constr, KeyValuePairs, MaybeIndefArray,
    alonzo::{BigInt as PBigInt, PlutusData},
};
use std::rc::Rc;
use uplc::ast::{Constant, Type};

#[derive(Debug, Clone, PartialEq, Eq, Hash)]
pub enum CTy {
    Int,
    Bytes,
    Str,
    Bool,
    Unit,
    Data,
    List(Box<CTy>),
    Pair(Box<CTy>, Box<CTy>),
}

impl CTy {
    pub fn to_type(&self) -> Type {
        match self {
            CTy::Int => Type::Integer,
            CTy::Bytes => Type::ByteString,
            CTy::Str => Type::String,
            CTy::Bool => Type::Bool,
            CTy::Unit => Type::Unit,
            CTy::Data => Type::Data,
            CTy::List(t) => Type::List(Rc::new(t.to_type())),
            CTy::Pair(a, b) => Type::Pair(Rc::new(a.to_type()), Rc::new(b.to_type())),
        }
    }
}

pub fn pow2(n: u32) -> BigInt {
    BigInt::from(1) << n
}

/// Boundary-biased integers.
pub fn gen_int(src: &mut Src, big: bool) -> BigInt {
    match src.weighted(&[8, 6, 3, if big { 4 } else { 1 }, if big { 2 } else { 0 }]) {
        0 => BigInt::from(src.range(-3, 3)),
        1 => BigInt::from(src.range(-300, 300)),
        2 => BigInt::from(src.next() as i64 - (1i64 << 31)),
        3 => {
            // around powers of two
            let exps = [7u32, 8, 15, 16, 31, 32, 63, 64, 65, 127, 128, 129, 255, 256];
            let e = *src.pick(&exps);
            let delta = src.range(-2, 2);
            let v = pow2(e) + delta;
            if src.bool() { v } else { -v }
        }
        _ => {
            let e = *src.pick(&[512u32, 1024, 4095, 4096, 8191, 8192]);
            let delta = src.range(-1, 1);
            let v = pow2(e) + delta;
            if src.bool() { v } else { -v }
        }
    }
}

pub fn gen_len(src: &mut Src, big: bool) -> usize {
    match src.weighted(&[6, 6, 2, if big { 2 } else { 0 }]) {
        0 => src.below(3),
        1 => src.below(12),
        2 => *src.pick(&[31usize, 32, 33, 63, 64, 65]),
        _ => *src.pick(&[255usize, 256, 257, 1000]),
    }
}

pub fn gen_bytes(src: &mut Src, big: bool) -> Vec<u8> {
    let n = gen_len(src, big);
    match src.below(4) {
        0 => vec![0u8; n],
        1 => vec![0xffu8; n],
        _ => src.bytes(n),
    }
}

pub fn gen_char(src: &mut Src) -> char {
    match src.weighted(&[10, 3, 2, 2, 2, 1]) {
        0 => (b'a' + src.below(26) as u8) as char,
        1 => *src.pick(&['"', '\\', '\n', '\t', '\r', '\0', '\u{7}', '\u{8}', '\u{b}', '\u{c}', '\u{1b}', '\u{7f}', ' ', '\'']),
        2 => char::from_u32(0x80 + src.below(0x780) as u32).unwrap_or('é'),
        3 => *src.pick(&['é', 'ß', 'λ', '€', '한', '𝄞', '😀', '\u{d7ff}', '\u{e000}', '\u{fffd}', '\u{ffff}', '\u{10000}', '\u{10ffff}', '\u{feff}', '\u{202e}']),
        4 => char::from_u32(src.below(0x20) as u32).unwrap_or('\u{1}'),
        _ => {
            let v = src.below(0x110000) as u32;
            char::from_u32(v).unwrap_or('x')
        }
    }
}

pub fn gen_string(src: &mut Src) -> String {
    let n = match src.below(3) {
        0 => src.below(2),
        _ => src.below(8),
    };
    (0..n).map(|_| gen_char(src)).collect()
}

pub fn pd_int(i: &BigInt) -> PlutusData {
    uplc::ast::Data::integer(i.clone())
}

/// PlutusData in the canonical form the toolchain itself builds (`Data::integer/list/constr`).
pub fn gen_data(src: &mut Src, depth: usize, big: bool) -> PlutusData {
    gen_data_with(src, depth, big, false)
}

/// `exotic`: also definite non-empty arrays, indefinite empty arrays, BigUInt/BigNInt forms for
/// small values, constructor tags through the general form.
pub fn gen_data_with(src: &mut Src, depth: usize, big: bool, exotic: bool) -> PlutusData {
    let w: &[u32] = if depth == 0 { &[4, 3] } else { &[4, 3, 3, 2, 2] };
    match src.weighted(w) {
        0 => {
            let i = gen_int(src, big);
            if exotic && src.chance(1, 4) {
                let (sign, bytes) = i.to_bytes_be();
                if sign == num_bigint::Sign::Minus {
                    let m: BigInt = -i.clone() - 1;
                    PlutusData::BigInt(PBigInt::BigNInt(BoundedBytes::from(m.to_bytes_be().1)))
                } else {
                    let mut b = bytes;
                    if src.bool() {
                        b.insert(0, 0);
                    }
                    PlutusData::BigInt(PBigInt::BigUInt(BoundedBytes::from(b)))
                }
            } else {
                pd_int(&i)
            }
        }
        1 => PlutusData::BoundedBytes(BoundedBytes::from(gen_bytes(src, big))),
        2 => {
            let n = src.below(4);
            let xs: Vec<PlutusData> = (0..n).map(|_| gen_data_with(src, depth - 1, big, exotic)).collect();
            PlutusData::Array(arr(src, xs, exotic))
        }
        3 => {
            let n = src.below(3);
            let kvs: Vec<(PlutusData, PlutusData)> = (0..n)
                .map(|_| {
                    (
                        gen_data_with(src, depth - 1, big, exotic),
                        gen_data_with(src, depth - 1, big, exotic),
                    )
                })
                .collect();
            if exotic && src.bool() {
                PlutusData::Map(KeyValuePairs::Indef(kvs))
            } else {
                PlutusData::Map(KeyValuePairs::Def(kvs))
            }
        }
        _ => {
            let ix: u64 = match src.weighted(&[6, 2, 2, 1]) {
                0 => src.below(7) as u64,
                1 => 7 + src.below(121) as u64,
                2 => 128 + src.below(1000) as u64,
                _ => *src.pick(&[6u64, 7, 127, 128, 129, u32::MAX as u64, i64::MAX as u64, u64::MAX]),
            };
            let n = src.below(4);
            let fields: Vec<PlutusData> = (0..n).map(|_| gen_data_with(src, depth - 1, big, exotic)).collect();
            if exotic {
                let fields = arr(src, fields, true);
                if src.chance(1, 4) {
                    PlutusData::Constr(Constr {
                        tag: 102,
                        any_constructor: Some(ix),
                        fields,
                    })
                } else {
                    let mut c = match uplc::ast::Data::constr(ix, vec![]) {
                        PlutusData::Constr(c) => c,
                        _ => unreachable!(),
                    };
                    c.fields = fields;
                    PlutusData::Constr(c)
                }
            } else {
                uplc::ast::Data::constr(ix, fields)
            }
        }
    }
}

fn arr(src: &mut Src, xs: Vec<PlutusData>, exotic: bool) -> MaybeIndefArray<PlutusData> {
    if exotic && src.chance(1, 3) {
        if src.bool() {
            MaybeIndefArray::Def(xs)
        } else {
            MaybeIndefArray::Indef(xs)
        }
    } else if xs.is_empty() {
        MaybeIndefArray::Def(xs)
    } else {
        MaybeIndefArray::Indef(xs)
    }
}

pub fn gen_const(src: &mut Src, ty: &CTy, big: bool) -> Constant {
    match ty {
        CTy::Int => Constant::Integer(gen_int(src, big)),
        CTy::Bytes => Constant::ByteString(gen_bytes(src, big)),
        CTy::Str => Constant::String(gen_string(src)),
        CTy::Bool => Constant::Bool(src.bool()),
        CTy::Unit => Constant::Unit,
        CTy::Data => Constant::Data(gen_data(src, 2, big)),
        CTy::List(t) => {
            let n = src.below(4);
            Constant::ProtoList(t.to_type(), (0..n).map(|_| gen_const(src, t, big)).collect())
        }
        CTy::Pair(a, b) => Constant::ProtoPair(
            a.to_type(),
            b.to_type(),
            Rc::new(gen_const(src, a, big)),
            Rc::new(gen_const(src, b, big)),
        ),
    }
}

pub fn show_data(d: &PlutusData) -> String {
    match d {
        PlutusData::BigInt(PBigInt::Int(i)) => format!("I {}", i128::from(*i)),
        PlutusData::BigInt(PBigInt::BigUInt(b)) => format!("I +0x{}", hex::encode(b.as_slice())),
        PlutusData::BigInt(PBigInt::BigNInt(b)) => format!("I -1-0x{}", hex::encode(b.as_slice())),
        PlutusData::BoundedBytes(b) => format!("B #{}", hex::encode(b.as_slice())),
        PlutusData::Array(xs) => {
            let indef = matches!(xs, MaybeIndefArray::Indef(_));
            format!(
                "List{}[{}]",
                if indef { "*" } else { "" },
                xs.iter().map(show_data).collect::<Vec<_>>().join(", ")
            )
        }
        PlutusData::Map(kvs) => {
            let indef = matches!(kvs, KeyValuePairs::Indef(_));
            format!(
                "Map{}[{}]",
                if indef { "*" } else { "" },
                kvs.iter()
                    .map(|(k, v)| format!("({}, {})", show_data(k), show_data(v)))
                    .collect::<Vec<_>>()
                    .join(", ")
            )
        }
        PlutusData::Constr(c) => {
            let indef = matches!(c.fields, MaybeIndefArray::Indef(_));
            format!(
                "Constr<{}{}>{}[{}]",
                c.tag,
                c.any_constructor.map(|a| format!("/{a}")).unwrap_or_default(),
                if indef { "*" } else { "" },
                c.fields.iter().map(show_data).collect::<Vec<_>>().join(", ")
            )
        }
    }
}

pub fn show_type(t: &Type) -> String {
    format!("{t}")
}

pub fn show_const(c: &Constant) -> String {
    match c {
        Constant::Integer(i) => format!("integer {i}"),
        Constant::ByteString(b) => format!("bytestring #{}", hex::encode(b)),
        Constant::String(s) => format!("string {s:?}"),
        Constant::Unit => "unit ()".into(),
        Constant::Bool(b) => format!("bool {b}"),
        Constant::ProtoList(t, xs) => format!(
            "(list {}) [{}]",
            show_type(t),
            xs.iter().map(show_const).collect::<Vec<_>>().join(", ")
        ),
        Constant::ProtoPair(a, b, x, y) => format!(
            "(pair {} {}) ({}, {})",
            show_type(a),
            show_type(b),
            show_const(x),
            show_const(y)
        ),
        Constant::Data(d) => format!("data ({})", show_data(d)),
        Constant::Bls12_381G1Element(_) => "g1 <..>".into(),
        Constant::Bls12_381G2Element(_) => "g2 <..>".into(),
        Constant::Bls12_381MlResult(_) => "ml <..>".into(),
    }
}

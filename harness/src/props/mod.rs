//! One module per property. `run` is the worker entry; it returns the non-triviality rule text.
use crate::engine::{Cx, Tier};

pub mod c03;

pub const ALL: &[&str] = &["C03"];

pub fn run(cx: &mut Cx) -> String {
    match cx.property.as_str() {
        "C03" => c03::run(cx),
        other => panic!("unknown property {other}"),
    }
}

/// Number of worker processes.
pub fn workers(_id: &str, _tier: Tier) -> usize {
    std::thread::available_parallelism().map(|n| n.get()).unwrap_or(8).min(16)
}

pub fn assumptions(id: &str) -> Vec<String> {
    match id {
        "C03" => c03::ASSUMPTIONS.iter().map(|s| s.to_string()).collect(),
        _ => vec![],
    }
}

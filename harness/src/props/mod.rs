//! One module per property. `run` is the worker entry; it returns the non-triviality rule text.
use crate::engine::{Cx, Tier};

macro_rules! properties {
    ($( $id:literal => $m:ident ),* $(,)?) => {
        $( pub mod $m; )*
        pub const ALL: &[&str] = &[$($id),*];
        pub fn run(cx: &mut Cx) -> String {
            match cx.property.as_str() {
                $( $id => $m::run(cx), )*
                other => panic!("unknown property {other}"),
            }
        }
        pub fn assumptions(id: &str) -> Vec<String> {
            match id {
                $( $id => $m::ASSUMPTIONS.iter().map(|s| s.to_string()).collect(), )*
                _ => vec![],
            }
        }
    };
}

properties! {
    "C01" => c01,
    "C02" => c02,
    "C03" => c03,
    "C04" => c04,
    "C05" => c05,
    "C06" => c06,
    "C07" => c07,
    "C08" => c08,
    "C09" => c09,
    "C10" => c10,
    "C11" => c11,
    "C12" => c12,
    "C13" => c13,
    "C14" => c14,
    "C15" => c15,
    "C16" => c16,
    "C17" => c17,
    "C18" => c18,
    "C19" => c19,
    "C20" => c20,
}

/// Number of worker processes.
pub mod c19_costs;

pub fn workers(_id: &str, _tier: Tier) -> usize {
    std::thread::available_parallelism().map(|n| n.get()).unwrap_or(8).min(16)
}

//! C11 — variable binding survives name/index conversions.
//! Oracle M-BIND: an independent resolver mapping every variable occurrence to the distance of its
//! binder (or FREE), by the crate's documented binder identity.
use crate::engine::*;
use crate::gen_::uplc::T;
use serde_json::json;
use std::rc::Rc;
use uplc::{
    ast::{DeBruijn, FakeNamedDeBruijn, Name, NamedDeBruijn, Program, Term, Unique},
    optimize::interner::CodeGenInterner,
};

pub const ASSUMPTIONS: &[&str] = &[
    "binder identity for Name -> de Bruijn conversions is the `unique` (texts are generated consistent with uniques, as the parser's interner guarantees)",
    "binder identity for CodeGenInterner is the (text, previous unique) pair, as its documentation states",
    "lambda binders of de Bruijn terms carry index 0, as every decoder/converter of the crate produces",
];

pub const RULE: &str = "named terms with binder/variable names from a 3-letter alphabet (shadowing, duplicate names, free names frequent; binders under delay/constr/case/apply) and de Bruijn terms with indices in 0..depth+2: exhaustively up to 6 nodes over a reduced shape alphabet, randomly up to ~40 nodes. Checked: Name->DeBruijn/NamedDeBruijn gives Err(FreeUnique) iff some occurrence is free, else exactly the distances M-BIND computes; DeBruijn->Name->DeBruijn is the identity on well-scoped terms and an error otherwise (index 0 included); CodeGenInterner output has the same binding graph and distinct uniques among nested binders. Non-trivial = at least one shadowed binder or duplicate name and one variable whose binder is >= 2 binders away; distinct by term rendering.";

// ------------------------------------------------------------------------------------------------
// M-BIND

use crate::model::bind::resolve;

pub fn show_named(t: &Term<Name>) -> String {
    match t {
        Term::Var(n) => format!("{}_{}", n.text, isize::from(n.unique)),
        Term::Lambda { parameter_name, body } => format!(
            "(lam {}_{} {})",
            parameter_name.text,
            isize::from(parameter_name.unique),
            show_named(body)
        ),
        Term::Apply { function, argument } => format!("[{} {}]", show_named(function), show_named(argument)),
        Term::Delay(b) => format!("(delay {})", show_named(b)),
        Term::Force(b) => format!("(force {})", show_named(b)),
        Term::Constant(_) => "(con integer 1)".into(),
        Term::Builtin(f) => format!("(builtin {f:?})"),
        Term::Error => "(error)".into(),
        Term::Constr { tag, fields } => format!(
            "(constr {tag}{})",
            fields.iter().map(|f| format!(" {}", show_named(f))).collect::<String>()
        ),
        Term::Case { constr, branches } => format!(
            "(case {}{})",
            show_named(constr),
            branches.iter().map(|f| format!(" {}", show_named(f))).collect::<String>()
        ),
    }
}

/// (has shadowing or duplicate names, max binder distance)
fn features(t: &Term<Name>) -> (bool, usize) {
    fn go(t: &Term<Name>, scope: &mut Vec<(String, isize)>, shadow: &mut bool, maxd: &mut usize) {
        match t {
            Term::Var(n) => {
                let k = (n.text.clone(), isize::from(n.unique));
                if let Some(p) = scope.iter().rev().position(|b| *b == k) {
                    *maxd = (*maxd).max(p + 1);
                }
            }
            Term::Lambda { parameter_name, body } => {
                let k = (parameter_name.text.clone(), isize::from(parameter_name.unique));
                if scope.iter().any(|b| b.0 == k.0 || b.1 == k.1) {
                    *shadow = true;
                }
                scope.push(k);
                go(body, scope, shadow, maxd);
                scope.pop();
            }
            Term::Apply { function, argument } => {
                go(function, scope, shadow, maxd);
                go(argument, scope, shadow, maxd);
            }
            Term::Delay(b) | Term::Force(b) => go(b, scope, shadow, maxd),
            Term::Constr { fields, .. } => fields.iter().for_each(|f| go(f, scope, shadow, maxd)),
            Term::Case { constr, branches } => {
                go(constr, scope, shadow, maxd);
                branches.iter().for_each(|f| go(f, scope, shadow, maxd));
            }
            _ => {}
        }
    }
    let mut s = false;
    let mut m = 0;
    go(t, &mut vec![], &mut s, &mut m);
    (s, m)
}

// ------------------------------------------------------------------------------------------------
// generators

#[derive(Clone, Copy)]
enum NameMode {
    /// text determined by unique: a0 b1 c2
    Consistent,
    /// unique 0 everywhere, texts differ (what the code generator emits)
    TextOnly,
    /// texts and uniques drawn independently from small sets
    Pairs,
}

fn mk_name(i: usize, j: usize, mode: NameMode) -> Rc<Name> {
    let letters = ["a", "b", "c"];
    Rc::new(match mode {
        NameMode::Consistent => Name {
            text: letters[i].to_string(),
            unique: Unique::new(i as isize),
        },
        NameMode::TextOnly => Name {
            text: letters[i].to_string(),
            unique: Unique::new(0),
        },
        NameMode::Pairs => Name {
            text: letters[i].to_string(),
            unique: Unique::new(j as isize),
        },
    })
}

fn gen_named(src: &mut Src, fuel: &mut usize, mode: NameMode) -> Term<Name> {
    let name = |src: &mut Src| {
        let i = src.below(3);
        let j = src.below(2);
        mk_name(i, j, mode)
    };
    if *fuel == 0 {
        return Term::Var(name(src));
    }
    *fuel -= 1;
    match src.weighted(&[4, 6, 5, 2, 1, 2, 2, 1]) {
        0 => Term::Var(name(src)),
        1 => Term::Lambda {
            parameter_name: name(src),
            body: Rc::new(gen_named(src, fuel, mode)),
        },
        2 => Term::Apply {
            function: Rc::new(gen_named(src, fuel, mode)),
            argument: Rc::new(gen_named(src, fuel, mode)),
        },
        3 => Term::Delay(Rc::new(gen_named(src, fuel, mode))),
        4 => Term::Force(Rc::new(gen_named(src, fuel, mode))),
        5 => {
            let n = src.below(3);
            Term::Constr {
                tag: src.below(3),
                fields: (0..n).map(|_| gen_named(src, fuel, mode)).collect(),
            }
        }
        6 => {
            let n = src.below(3);
            Term::Case {
                constr: Rc::new(gen_named(src, fuel, mode)),
                branches: (0..n).map(|_| gen_named(src, fuel, mode)).collect(),
            }
        }
        _ => Term::Constant(Rc::new(uplc::ast::Constant::Integer(1.into()))),
    }
}

fn gen_db(src: &mut Src, fuel: &mut usize, depth: usize) -> T {
    if *fuel == 0 {
        return T::Var(src.below(depth + 3));
    }
    *fuel -= 1;
    match src.weighted(&[4, 6, 5, 2, 1, 2, 2, 1]) {
        0 => {
            // mostly valid indices, sometimes 0 / depth+1 / depth+2
            if src.chance(1, 4) {
                T::Var(*src.pick(&[0, depth + 1, depth + 2]))
            } else if depth > 0 {
                T::Var(1 + src.below(depth))
            } else {
                T::int(1)
            }
        }
        1 => gen_db(src, fuel, depth + 1).lam(),
        2 => {
            let f = gen_db(src, fuel, depth);
            let a = gen_db(src, fuel, depth);
            f.app(a)
        }
        3 => gen_db(src, fuel, depth).delay(),
        4 => gen_db(src, fuel, depth).force(),
        5 => {
            let n = src.below(3);
            T::Constr(src.below(3), (0..n).map(|_| gen_db(src, fuel, depth)).collect())
        }
        6 => {
            let n = src.below(3);
            let s = gen_db(src, fuel, depth);
            T::Case(Rc::new(s), (0..n).map(|_| gen_db(src, fuel, depth)).collect())
        }
        _ => T::int(1),
    }
}

// ------------------------------------------------------------------------------------------------
// judges

fn prog<X>(term: Term<X>) -> Program<X> {
    Program {
        version: (1, 1, 0),
        term,
    }
}

fn note_nontrivial(t: &Term<Name>, st: &mut Stats) {
    let (shadow, maxd) = features(t);
    if shadow {
        st.class("feature:shadowing-or-duplicate");
    }
    if maxd >= 2 {
        st.class("feature:binder-distance>=2");
    }
    if shadow && maxd >= 2 {
        let s = show_named(t);
        st.nontrivial(&s);
        st.sample(|| json!({"named_term": s}));
    }
}

/// Name -> DeBruijn and Name -> NamedDeBruijn against M-BIND (identity: unique).
fn judge_named(t: &Term<Name>, st: &mut Stats) -> CheckResult {
    st.eval();
    let input = json!({"named": show_named(t)});
    let mut free = 0;
    let want = resolve(t, &|n: &Name| isize::from(n.unique), &mut vec![], &mut free);

    let r1 = no_panic(|| prog(t.clone()).to_debruijn()).map_err(|p| panic_failure("to_debruijn", p, input.clone()))?;
    let r2 = no_panic(|| prog(t.clone()).to_named_debruijn())
        .map_err(|p| panic_failure("to_named_debruijn", p, input.clone()))?;
    let got1 = r1.as_ref().ok().map(|p| T::from_db(&p.term));
    let got2 = r2.as_ref().ok().map(|p| T::from_ndb(&p.term));
    for (which, got) in [("to_debruijn", &got1), ("to_named_debruijn", &got2)] {
        match (free > 0, got) {
            (true, Some(g)) => {
                return Err(Failure::new(
                    format!("free-variable-accepted:{which}"),
                    json!({"input": input, "resolved": want.show(), "actual": g.show()}),
                ));
            }
            (false, None) => {
                return Err(Failure::new(
                    format!("closed-term-rejected:{which}"),
                    json!({"input": input, "resolved": want.show()}),
                ));
            }
            (false, Some(g)) if *g != want => {
                return Err(Failure::new(
                    format!("wrong-binder:{which}"),
                    json!({"input": input, "expected": want.show(), "actual": g.show()}),
                ));
            }
            _ => {}
        }
    }
    if free > 0 {
        st.class("named:open-rejected");
    } else {
        st.class("named:closed-converted");
        // and back: de Bruijn -> Name -> de Bruijn is the identity
        let db = r1.unwrap();
        let back: Result<Program<Name>, _> = no_panic(|| Program::<Name>::try_from(db.clone()))
            .map_err(|p| panic_failure("debruijn_to_name", p, input.clone()))?;
        match back {
            Ok(named) => {
                let again = prog(named.term.clone()).to_debruijn();
                match again {
                    Ok(p2) if T::from_db(&p2.term) == want => {}
                    other => {
                        return Err(Failure::new(
                            "roundtrip-not-alpha-equivalent",
                            json!({"input": input, "expected": want.show(), "actual": other.map(|p| T::from_db(&p.term).show()).map_err(|e| e.to_string())}),
                        ));
                    }
                }
            }
            Err(e) => {
                return Err(Failure::new(
                    "closed-debruijn-rejected",
                    json!({"input": input, "error": e.to_string()}),
                ));
            }
        }
        note_nontrivial(t, st);
    }
    Ok(())
}

/// DeBruijn -> Name (and NamedDeBruijn/FakeNamedDeBruijn -> Name) on possibly ill-scoped terms.
fn judge_db(t: &T, st: &mut Stats) -> CheckResult {
    st.eval();
    let input = json!({"debruijn": t.show()});
    let valid = t.is_closed();
    let r_db = no_panic(|| Program::<Name>::try_from(prog(t.to_db())))
        .map_err(|p| panic_failure("debruijn_to_name", p, input.clone()))?;
    let r_ndb = no_panic(|| Program::<Name>::try_from(prog(t.to_ndb())))
        .map_err(|p| panic_failure("named_debruijn_to_name", p, input.clone()))?;
    let fake: Program<FakeNamedDeBruijn> = prog(t.to_ndb()).into();
    let r_fake = no_panic(|| {
        let ndb: Program<NamedDeBruijn> = fake.into();
        Program::<Name>::try_from(ndb)
    })
    .map_err(|p| panic_failure("fake_named_debruijn_to_name", p, input.clone()))?;
    for (which, r) in [("debruijn", r_db), ("named_debruijn", r_ndb), ("fake_named_debruijn", r_fake)] {
        match (valid, r) {
            (false, Ok(named)) => {
                return Err(Failure::new(
                    format!("free-index-accepted:{which}"),
                    json!({"input": input, "actual": show_named(&named.term)}),
                ));
            }
            (true, Err(e)) => {
                return Err(Failure::new(
                    format!("closed-debruijn-rejected:{which}"),
                    json!({"input": input, "error": e.to_string()}),
                ));
            }
            (true, Ok(named)) => {
                // resolve independently, by unique, and compare with the original indices
                let mut free = 0;
                let back = resolve(&named.term, &|n: &Name| isize::from(n.unique), &mut vec![], &mut free);
                if free > 0 || back != *t {
                    return Err(Failure::new(
                        format!("wrong-binder:{which}_to_name"),
                        json!({"input": input, "named": show_named(&named.term), "resolved_back": back.show()}),
                    ));
                }
                // the crate's own way back
                let again = named.clone().to_debruijn();
                match again {
                    Ok(p2) if T::from_db(&p2.term) == *t => {}
                    other => {
                        return Err(Failure::new(
                            format!("roundtrip-differs:{which}"),
                            json!({"input": input, "actual": other.map(|p| T::from_db(&p.term).show()).map_err(|e| e.to_string())}),
                        ));
                    }
                }
                if which == "debruijn" {
                    note_nontrivial(&named.term, st);
                }
            }
            (false, Err(_)) => {}
        }
    }
    st.class(if valid { "db:well-scoped" } else { "db:ill-scoped-rejected" });
    Ok(())
}

fn distinct_nested_uniques(t: &Term<Name>, scope: &mut Vec<isize>) -> bool {
    match t {
        Term::Lambda { parameter_name, body } => {
            let u = isize::from(parameter_name.unique);
            if scope.contains(&u) {
                return false;
            }
            scope.push(u);
            let ok = distinct_nested_uniques(body, scope);
            scope.pop();
            ok
        }
        Term::Apply { function, argument } => distinct_nested_uniques(function, scope) && distinct_nested_uniques(argument, scope),
        Term::Delay(b) | Term::Force(b) => distinct_nested_uniques(b, scope),
        Term::Constr { fields, .. } => fields.iter().all(|f| distinct_nested_uniques(f, scope)),
        Term::Case { constr, branches } => {
            distinct_nested_uniques(constr, scope) && branches.iter().all(|f| distinct_nested_uniques(f, scope))
        }
        _ => true,
    }
}

/// CodeGenInterner: same binding graph (identity on input: (text, unique) pair; on output: unique).
fn judge_interner(t: &Term<Name>, st: &mut Stats) -> CheckResult {
    st.eval();
    let input = json!({"named": show_named(t)});
    let mut free_in = 0;
    let want = resolve(t, &|n: &Name| (n.text.clone(), isize::from(n.unique)), &mut vec![], &mut free_in);
    let mut p = prog(t.clone());
    no_panic(|| CodeGenInterner::new().program(&mut p)).map_err(|pn| panic_failure("CodeGenInterner", pn, input.clone()))?;
    let mut free_out = 0;
    let got = resolve(&p.term, &|n: &Name| isize::from(n.unique), &mut vec![], &mut free_out);
    if got != want {
        return Err(Failure::new(
            "interner-changes-binding",
            json!({"input": input, "interned": show_named(&p.term), "expected": want.show(), "actual": got.show()}),
        ));
    }
    if !distinct_nested_uniques(&p.term, &mut vec![]) {
        return Err(Failure::new(
            "interner-nested-binders-share-unique",
            json!({"input": input, "interned": show_named(&p.term)}),
        ));
    }
    // followed by the de Bruijn pass (what apply_term / the compile path do)
    let r = p.clone().to_debruijn();
    match (free_in > 0, r) {
        (true, Ok(d)) => {
            return Err(Failure::new(
                "free-variable-accepted:after-interner",
                json!({"input": input, "actual": T::from_db(&d.term).show()}),
            ));
        }
        (false, Err(e)) => {
            return Err(Failure::new(
                "closed-term-rejected:after-interner",
                json!({"input": input, "error": e.to_string()}),
            ));
        }
        (false, Ok(d)) if T::from_db(&d.term) != want => {
            return Err(Failure::new(
                "wrong-binder:after-interner",
                json!({"input": input, "expected": want.show(), "actual": T::from_db(&d.term).show()}),
            ));
        }
        _ => {}
    }
    st.class(if free_in > 0 { "interner:open" } else { "interner:closed" });
    if free_in == 0 {
        note_nontrivial(t, st);
    }
    Ok(())
}

// ------------------------------------------------------------------------------------------------
// exhaustive families

fn enum_named(size: usize, mode: NameMode, memo: &mut std::collections::HashMap<usize, Rc<Vec<Term<Name>>>>) -> Rc<Vec<Term<Name>>> {
    if let Some(v) = memo.get(&size) {
        return v.clone();
    }
    let names = [mk_name(0, 0, mode), mk_name(1, 1, mode)];
    let mut out: Vec<Term<Name>> = vec![];
    if size == 1 {
        for n in &names {
            out.push(Term::Var(n.clone()));
        }
    } else {
        for b in enum_named(size - 1, mode, memo).iter() {
            for n in &names {
                out.push(Term::Lambda {
                    parameter_name: n.clone(),
                    body: Rc::new(b.clone()),
                });
            }
            out.push(Term::Delay(Rc::new(b.clone())));
            out.push(Term::Constr {
                tag: 0,
                fields: vec![b.clone()],
            });
        }
        for l in 1..size - 1 {
            let r = size - 1 - l;
            let ls = enum_named(l, mode, memo);
            let rs = enum_named(r, mode, memo);
            for a in ls.iter() {
                for b in rs.iter() {
                    out.push(Term::Apply {
                        function: Rc::new(a.clone()),
                        argument: Rc::new(b.clone()),
                    });
                    out.push(Term::Case {
                        constr: Rc::new(a.clone()),
                        branches: vec![b.clone()],
                    });
                }
            }
        }
    }
    let rc = Rc::new(out);
    memo.insert(size, rc.clone());
    rc
}

fn enum_db(size: usize, depth: usize, memo: &mut std::collections::HashMap<(usize, usize), Rc<Vec<T>>>) -> Rc<Vec<T>> {
    if let Some(v) = memo.get(&(size, depth)) {
        return v.clone();
    }
    let mut out = vec![];
    if size == 1 {
        for i in 0..=depth + 1 {
            out.push(T::Var(i));
        }
    } else {
        for b in enum_db(size - 1, depth + 1, memo).iter() {
            out.push(b.clone().lam());
        }
        for b in enum_db(size - 1, depth, memo).iter() {
            out.push(b.clone().delay());
            out.push(T::Constr(0, vec![b.clone()]));
        }
        for l in 1..size - 1 {
            let r = size - 1 - l;
            let ls = enum_db(l, depth, memo);
            let rs = enum_db(r, depth, memo);
            for a in ls.iter() {
                for b in rs.iter() {
                    out.push(a.clone().app(b.clone()));
                    out.push(T::Case(Rc::new(a.clone()), vec![b.clone()]));
                }
            }
        }
    }
    let rc = Rc::new(out);
    memo.insert((size, depth), rc.clone());
    rc
}

pub fn run(cx: &mut Cx) -> String {
    let tier = cx.tier;
    if !cx.is_replay() {
        let max = tier.of(6, 7);
        let mut idx = 0u64;
        for (mode, mname) in [(NameMode::Consistent, "consistent"), (NameMode::TextOnly, "text-only")] {
            let mut memo = std::collections::HashMap::new();
            for size in 1..=max {
                for t in enum_named(size, mode, &mut memo).iter() {
                    idx += 1;
                    if !cx.mine(idx) {
                        continue;
                    }
                    let input = json!({"named": show_named(t), "mode": mname});
                    if matches!(mode, NameMode::Consistent) {
                        cx.direct("exhaustive-named", &input, |st| judge_named(t, st));
                    }
                    cx.direct("exhaustive-interner", &input, |st| judge_interner(t, st));
                }
            }
        }
        let mut memo = std::collections::HashMap::new();
        for size in 1..=max {
            for t in enum_db(size, 0, &mut memo).iter() {
                idx += 1;
                if !cx.mine(idx) {
                    continue;
                }
                let input = json!({"debruijn": t.show()});
                cx.direct("exhaustive-debruijn", &input, |st| judge_db(t, st));
            }
        }
        cx.stats.exhaustive = Some(true);
        cx.note(format!("exhaustive families: named terms (2 names) and de Bruijn terms (indices 0..depth+1) up to {max} nodes over var/lam/apply/delay/constr/case: {idx} terms"));
    } else {
        // enumerated cases are replayed by re-walking the enumeration
        for (check, mode) in [("exhaustive-named", NameMode::Consistent), ("exhaustive-interner", NameMode::Consistent), ("exhaustive-interner", NameMode::TextOnly)] {
            if let Some(input) = cx.replay_input(check) {
                let want = input["named"].as_str().unwrap_or("").to_string();
                let mut memo = std::collections::HashMap::new();
                'o: for size in 1..=7 {
                    for t in enum_named(size, mode, &mut memo).iter() {
                        if show_named(t) == want {
                            let t = t.clone();
                            if check == "exhaustive-named" {
                                cx.direct(check, &input, |st| judge_named(&t, st));
                            } else {
                                cx.direct(check, &input, |st| judge_interner(&t, st));
                            }
                            break 'o;
                        }
                    }
                }
            }
        }
        if let Some(input) = cx.replay_input("exhaustive-debruijn") {
            let want = input["debruijn"].as_str().unwrap_or("").to_string();
            let mut memo = std::collections::HashMap::new();
            'o2: for size in 1..=7 {
                for t in enum_db(size, 0, &mut memo).iter() {
                    if t.show() == want {
                        let t = t.clone();
                        cx.direct("exhaustive-debruijn", &input, |st| judge_db(&t, st));
                        break 'o2;
                    }
                }
            }
        }
    }

    cx.prop("named-random", tier.of(3_000_000, 40_000_000), 200, |src, st| {
        let mut fuel = 3 + src.below(40);
        let t = gen_named(src, &mut fuel, NameMode::Consistent);
        judge_named(&t, st)
    });
    cx.prop("debruijn-random", tier.of(3_000_000, 40_000_000), 200, |src, st| {
        let mut fuel = 3 + src.below(40);
        let t = gen_db(src, &mut fuel, 0);
        judge_db(&t, st)
    });
    cx.prop("interner-random", tier.of(3_000_000, 40_000_000), 200, |src, st| {
        let mut fuel = 3 + src.below(40);
        let mode = *src.pick(&[NameMode::TextOnly, NameMode::Pairs, NameMode::Consistent]);
        let t = gen_named(src, &mut fuel, mode);
        judge_interner(&t, st)
    });
    RULE.to_string()
}

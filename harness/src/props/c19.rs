//! C19 — transaction simulation reports what the scripts actually cost and decide.
//! Generated Conway transactions (spend / mint / withdraw / publish purposes guarded by generated
//! PlutusV1/V2/V3 scripts whose cost and verdict depend on redeemer and datum and differ per
//! script) are simulated through `eval_phase_two` / `eval_phase_two_raw` and compared with a
//! model that maps every redeemer to its script and datum from the way the transaction was built,
//! evaluates that script directly with the budget the model says is left, and predicts the
//! overall outcome; plus permutation invariance and removal of needed witnesses.
use crate::engine::*;
use crate::model::blake2b::blake2b;
use crate::model::interp::D;
use crate::props::c19_costs::{PLUTUS_V1, PLUTUS_V2};
use pallas_codec::utils::{Bytes, CborWrap, KeyValuePairs, MaybeIndefArray, NonEmptyKeyValuePairs, NonEmptySet, NonZeroInt, Nullable, Set};
use pallas_crypto::hash::Hash;
use pallas_primitives::{
    Fragment,
    conway::{
        Anchor, Certificate, CostModels, DatumOption, ExUnits, GovAction, GovActionId, Language, PlutusScript, PostAlonzoTransactionOutput, ProposalProcedure, PseudoScript, Redeemer, RedeemerTag, Redeemers, RedeemersKey, RedeemersValue, StakeCredential, TransactionBody,
        TransactionInput, TransactionOutput, Tx, Value, Vote, Voter, VotingProcedure, WitnessSet,
    },
};
use pallas_traverse::{Era, MultiEraTx};
use serde_json::{Value as J, json};
use std::rc::Rc;
use uplc::{
    PlutusData,
    ast::{Constant, DeBruijn, NamedDeBruijn, Program, Term},
    machine::cost_model::ExBudget,
    tx::{
        ResolvedInput, SlotConfig, eval_phase_two, eval_phase_two_raw,
        script_context::{TxInfoV1, TxInfoV2, TxInfoV3},
        to_plutus_data::ToPlutusData,
    },
};

pub const ASSUMPTIONS: &[&str] = &[
    "the contents of the script context (field order inside TxInfo, value encodings) are not judged against the ledger - there is no independent ledger model offline; the context handed to the reference evaluation is obtained from the public TxInfoV*::from_transaction(..).into_script_context(..).to_plutus_data(), and only its redeemer, purpose (tag, output reference, datum) and the canonical order of its inputs are checked against the model",
    "which script and datum a redeemer (tag, index) designates is the model's own: inputs ordered by (transaction id, index), minting policies by hash, withdrawals by reward account (script credentials before key credentials), certificates and proposals in transaction order, voters by (committee script, committee key, DRep script, DRep key, pool) then hash",
    "a script fails when the CEK machine errors (including running out of the budget left); a PlutusV3 script that returns a non-unit value without erroring is returned to the caller as an EvalResult and judged by the caller (EvalResult::failed), as `eval_phase_two` documents",
    "missing redeemers are only detectable with the phase-one checks enabled (run_phase_one = true), which is how the command line calls the library",
    "cost models: the PlutusV1/V2 vectors of the repository's recorded-transaction tests and the PlutusV3 vector of the conformance tests; without cost models the machine's defaults are used",
];

pub const RULE: &str = "generated Conway transactions with 1-4 distinct scripts (PlutusV1 / V2 / V3; per-script cost offset; failing on one redeemer value; a V3 variant returning a non-unit value) used by 1-6 purposes (spend with inline or hashed datum, mint, withdraw, publish, and in PlutusV3-only transactions vote as committee or DRep script and propose a guarded treasury withdrawal), interleaved with key-locked inputs, key withdrawals, key certificates, key voters and unguarded proposals that shift indices, inputs sharing a transaction id with indices on both sides of a digit boundary, scripts supplied as witnesses or as reference scripts on reference inputs or on spent inputs, redeemers as list or map in arbitrary order; x initial budgets (ample, exactly the total, one unit short of redeemer k in cpu or mem) x with / without cost models x two permutations of resolved inputs, witness scripts and datums x removal of a needed script, datum or redeemer. Non-trivial = at least two redeemers with different costs, at least one datum looked up by hash or one reference script, and a permutation that is not the identity; distinct by transaction bytes.";

// ------------------------------------------------------------------ scripts

#[derive(Clone, Debug)]
struct ScriptSpec {
    lang: u8,
    /// V1/V2 only: three-argument (spend) or two-argument script
    spend_arity: bool,
    salt: i64,
    fail_on: Option<i64>,
    non_unit: bool,
}

const IF: &str = "(force (builtin ifThenElse))";
const HEAD: &str = "(force (builtin headList))";
const TAIL: &str = "(force (builtin tailList))";
const FST: &str = "(force (force (builtin fstPair)))";
const SND: &str = "(force (force (builtin sndPair)))";

fn body(spec: &ScriptSpec) -> String {
    let looped = format!(
        "[ [ (lam f [ f f ]) (lam self (lam i (force [ [ [ {IF} [ [ (builtin lessThanEqualsInteger) i ] (con integer 0) ] ] (delay (con unit ())) ] (delay [ [ self self ] [ [ (builtin subtractInteger) i ] (con integer 1) ] ]) ]))) ] [ [ (builtin addInteger) [ [ (builtin addInteger) n ] m ] ] (con integer {}) ] ]",
        spec.salt * 3
    );
    let result = if spec.non_unit { "(con integer 1)" } else { "(con unit ())" };
    let run = format!("[ (lam u {result}) {looped} ]");
    match spec.fail_on {
        Some(k) => format!("(force [ [ [ {IF} [ [ (builtin equalsInteger) n ] (con integer {k}) ] ] (delay (error)) ] (delay {run}) ])"),
        None => run,
    }
}

fn script_text(spec: &ScriptSpec) -> String {
    let b = body(spec);
    match (spec.lang, spec.spend_arity) {
        (3, _) => {
            let m_expr = format!(
                "[ (lam ip (force [ [ [ {IF} [ [ (builtin equalsInteger) [ {FST} ip ] ] (con integer 1) ] ] (delay [ (lam od (force [ [ [ {IF} [ [ (builtin equalsInteger) [ {FST} od ] ] (con integer 0) ] ] (delay [ (builtin unIData) [ {HEAD} [ {SND} od ] ] ]) ] (delay (con integer 0)) ])) [ (builtin unConstrData) [ {HEAD} [ {TAIL} [ {SND} ip ] ] ] ] ]) ] (delay (con integer 0)) ])) [ (builtin unConstrData) info ] ]"
            );
            format!(
                "(program 1.1.0 (lam ctx [ (lam fields [ (lam r [ (lam info [ (lam n [ (lam m {b}) {m_expr} ]) [ (builtin unIData) r ] ]) [ {HEAD} [ {TAIL} [ {TAIL} fields ] ] ] ]) [ {HEAD} [ {TAIL} fields ] ] ]) [ {SND} [ (builtin unConstrData) ctx ] ] ]))"
            )
        }
        (_, true) => format!("(program 1.0.0 (lam d (lam r (lam ctx [ (lam n [ (lam m {b}) [ (builtin unIData) d ] ]) [ (builtin unIData) r ] ]))))"),
        (_, false) => format!("(program 1.0.0 (lam r (lam ctx [ (lam n [ (lam m {b}) (con integer 0) ]) [ (builtin unIData) r ] ])))"),
    }
}

struct Script {
    spec: ScriptSpec,
    program: Program<DeBruijn>,
    cbor: Vec<u8>,
    hash: [u8; 28],
}

fn make_script(spec: ScriptSpec) -> Result<Script, String> {
    let named = uplc::parser::program(&script_text(&spec)).map_err(|e| format!("script text does not parse: {e:?}"))?;
    let program: Program<DeBruijn> = named.try_into().map_err(|e| format!("{e:?}"))?;
    let cbor = program.to_cbor().map_err(|e| format!("{e:?}"))?;
    let mut pre = vec![spec.lang];
    pre.extend_from_slice(&cbor);
    let hash: [u8; 28] = blake2b(&pre, 28).try_into().unwrap();
    Ok(Script { spec, program, cbor, hash })
}

// ------------------------------------------------------------------ transactions

#[derive(Clone, Debug, PartialEq)]
enum Purpose {
    Spend { input: (Vec<u8>, u64), datum: Option<i64>, inline: bool },
    Mint,
    Reward,
    Cert { variant: u8 },
    /// a vote cast by a script voter: constitutional committee (true) or DRep (false)
    Vote { committee: bool },
    /// a treasury withdrawal proposal guarded by the script
    Propose { n: u8 },
}

/// Things not guarded by scripts that shift redeemer indices (PlutusV3-only transactions).
#[derive(Clone, Debug, Default)]
struct Governance {
    /// key voters: (kind 1 = committee key, 3 = DRep key, 4 = stake pool; hash)
    key_voters: Vec<(u8, [u8; 28])>,
    plain_proposals_before: usize,
}

#[derive(Clone, Debug)]
struct Use {
    purpose: Purpose,
    script: usize,
    redeemer: i64,
}

#[derive(Clone, Copy, Debug, PartialEq)]
enum Supply {
    Witness,
    ReferenceInput,
    OnSpentInput,
}

struct Built {
    tx_bytes: Vec<u8>,
    utxos: Vec<ResolvedInput>,
    /// redeemers in transaction order: (tag, index, use)
    order: Vec<(RedeemerTag, u32, usize)>,
    sorted_inputs: Vec<(Vec<u8>, u64)>,
}

fn int_data(i: i64) -> PlutusData {
    D::I(i.into()).to_plutus()
}

fn script_addr(hash: &[u8; 28], net: u8) -> Vec<u8> {
    let mut a = vec![0x70 | net];
    a.extend_from_slice(hash);
    a
}

fn reward_addr(hash: &[u8; 28], script: bool, net: u8) -> Vec<u8> {
    let mut a = vec![if script { 0xF0 } else { 0xE0 } | net];
    a.extend_from_slice(hash);
    a
}

/// the names `uplc::tx::redeemer_tag_to_string` uses in its errors
fn tag_name(t: &RedeemerTag) -> &'static str {
    match t {
        RedeemerTag::Spend => "Spend",
        RedeemerTag::Mint => "Mint",
        RedeemerTag::Cert => "Publish",
        RedeemerTag::Reward => "Withdraw",
        RedeemerTag::Vote => "Vote",
        RedeemerTag::Propose => "Propose",
    }
}

#[allow(clippy::too_many_arguments)]
fn build_tx(
    scripts: &[Script],
    supply: &[Supply],
    uses: &[Use],
    key_inputs: &[(Vec<u8>, u64)],
    key_withdrawals: &[[u8; 28]],
    key_certs_before: usize,
    gov: &Governance,
    redeemer_order: &[usize],
    redeemers_as_map: bool,
    net: u8,
    drop_script: Option<usize>,
    drop_datum: bool,
    drop_redeemer: Option<usize>,
    perm: &dyn Fn(usize, usize) -> Vec<usize>,
) -> Result<Built, String> {
    let txin = |(id, ix): &(Vec<u8>, u64)| TransactionInput { transaction_id: Hash::<32>::from(<[u8; 32]>::try_from(id.as_slice()).unwrap()), index: *ix };
    let script_ref = |s: &Script| -> PseudoScript<pallas_primitives::conway::NativeScript> {
        match s.spec.lang {
            1 => PseudoScript::PlutusV1Script(PlutusScript::<1>(Bytes::from(s.cbor.clone()))),
            2 => PseudoScript::PlutusV2Script(PlutusScript::<2>(Bytes::from(s.cbor.clone()))),
            _ => PseudoScript::PlutusV3Script(PlutusScript::<3>(Bytes::from(s.cbor.clone()))),
        }
    };
    let mut inputs: Vec<(Vec<u8>, u64)> = key_inputs.to_vec();
    let mut utxos: Vec<ResolvedInput> = vec![];
    let mut datum_witnesses: Vec<PlutusData> = vec![];
    for k in key_inputs {
        let mut addr = vec![0x60 | net];
        addr.extend_from_slice(&[0x11; 28]);
        utxos.push(ResolvedInput { input: txin(k), output: TransactionOutput::PostAlonzo(PostAlonzoTransactionOutput { address: Bytes::from(addr), value: Value::Coin(3_000_000), datum_option: None, script_ref: None }) });
    }
    // scripts carried by a spent input: attach to the first spend use's output
    let mut on_spent: Vec<usize> = supply.iter().enumerate().filter(|(i, s)| **s == Supply::OnSpentInput && drop_script != Some(*i)).map(|(i, _)| i).collect();
    for u in uses {
        if let Purpose::Spend { input, datum, inline } = &u.purpose {
            inputs.push(input.clone());
            let datum_option = match datum {
                None => None,
                Some(m) if *inline => Some(DatumOption::Data(CborWrap(int_data(*m)))),
                Some(m) => {
                    let d = int_data(*m);
                    let bytes = d.encode_fragment().map_err(|e| e.to_string())?;
                    let h: [u8; 32] = blake2b(&bytes, 32).try_into().unwrap();
                    if !datum_witnesses.contains(&d) {
                        datum_witnesses.push(d);
                    }
                    Some(DatumOption::Hash(Hash::<32>::from(h)))
                }
            };
            let sref = on_spent.pop().map(|i| CborWrap(script_ref(&scripts[i])));
            utxos.push(ResolvedInput {
                input: txin(input),
                output: TransactionOutput::PostAlonzo(PostAlonzoTransactionOutput { address: Bytes::from(script_addr(&scripts[u.script].hash, net)), value: Value::Coin(2_000_000), datum_option, script_ref: sref }),
            });
        }
    }
    // reference inputs carrying scripts (also those that could not be placed on a spent input)
    let mut reference_inputs = vec![];
    for (i, s) in supply.iter().enumerate() {
        let as_reference = *s == Supply::ReferenceInput || (*s == Supply::OnSpentInput && on_spent.contains(&i));
        if as_reference && drop_script != Some(i) {
            let rin = (vec![0xEE - i as u8; 32], i as u64);
            reference_inputs.push(txin(&rin));
            let mut addr = vec![0x60 | net];
            addr.extend_from_slice(&[0x22; 28]);
            utxos.push(ResolvedInput { input: txin(&rin), output: TransactionOutput::PostAlonzo(PostAlonzoTransactionOutput { address: Bytes::from(addr), value: Value::Coin(5_000_000), datum_option: None, script_ref: Some(CborWrap(script_ref(&scripts[i]))) }) });
        }
    }
    if drop_datum {
        datum_witnesses.clear();
    }
    // canonical orders (the model's)
    let mut sorted_inputs = inputs.clone();
    sorted_inputs.sort();
    let mut policies: Vec<[u8; 28]> = uses.iter().filter(|u| u.purpose == Purpose::Mint).map(|u| scripts[u.script].hash).collect();
    policies.sort();
    let mut script_rewards: Vec<[u8; 28]> = uses.iter().filter(|u| u.purpose == Purpose::Reward).map(|u| scripts[u.script].hash).collect();
    script_rewards.sort();
    // certificates, in transaction order: key certificates first, then script ones in use order
    let mut certs: Vec<Certificate> = (0..key_certs_before).map(|i| Certificate::StakeDeregistration(StakeCredential::AddrKeyhash(Hash::<28>::from([0x30 + i as u8; 28])))).collect();
    let mut cert_index: Vec<(usize, u32)> = vec![];
    for (ui, u) in uses.iter().enumerate() {
        if let Purpose::Cert { variant } = &u.purpose {
            let cred = StakeCredential::ScriptHash(Hash::<28>::from(scripts[u.script].hash));
            let c = match variant % 3 {
                0 => Certificate::StakeDeregistration(cred),
                1 => Certificate::UnReg(cred, 2_000_000 + *variant as u64),
                _ => Certificate::StakeDelegation(cred, Hash::<28>::from([0x40 + variant; 28])),
            };
            if !certs.contains(&c) {
                cert_index.push((ui, certs.len() as u32));
                certs.push(c);
            } else {
                return Err("duplicate certificate".into());
            }
        }
    }
    // voters in canonical order (committee script, committee key, DRep script, DRep key, pool; then hash)
    let mut voters: Vec<(u8, [u8; 28])> = gov.key_voters.clone();
    for u in uses {
        if let Purpose::Vote { committee } = &u.purpose {
            voters.push((if *committee { 0 } else { 2 }, scripts[u.script].hash));
        }
    }
    voters.sort();
    voters.dedup();
    // proposals in transaction order: plain ones first, then the guarded ones in use order
    let anchor = || Anchor { url: "https://example.org".to_string(), content_hash: Hash::<32>::from([7u8; 32]) };
    let mut proposals: Vec<ProposalProcedure> = (0..gov.plain_proposals_before).map(|i| ProposalProcedure { deposit: 100 + i as u64, reward_account: Bytes::from(reward_addr(&[0x55; 28], false, net)), gov_action: GovAction::Information, anchor: anchor() }).collect();
    let mut proposal_index: Vec<(usize, u32)> = vec![];
    for (ui, u) in uses.iter().enumerate() {
        if let Purpose::Propose { n } = &u.purpose {
            proposal_index.push((ui, proposals.len() as u32));
            proposals.push(ProposalProcedure {
                deposit: 1_000 + *n as u64,
                reward_account: Bytes::from(reward_addr(&[0x56; 28], false, net)),
                gov_action: GovAction::TreasuryWithdrawals(KeyValuePairs::from(vec![(Bytes::from(reward_addr(&[0x57; 28], false, net)), 1 + *n as u64)]), Nullable::Some(Hash::<28>::from(scripts[u.script].hash))),
                anchor: anchor(),
            });
        }
    }
    // redeemer keys
    let key_of = |ui: usize| -> (RedeemerTag, u32) {
        let u = &uses[ui];
        match &u.purpose {
            Purpose::Spend { input, .. } => (RedeemerTag::Spend, sorted_inputs.iter().position(|i| i == input).unwrap() as u32),
            Purpose::Mint => (RedeemerTag::Mint, policies.iter().position(|p| *p == scripts[u.script].hash).unwrap() as u32),
            Purpose::Reward => (RedeemerTag::Reward, script_rewards.iter().position(|p| *p == scripts[u.script].hash).unwrap() as u32),
            Purpose::Cert { .. } => (RedeemerTag::Cert, cert_index.iter().find(|(i, _)| *i == ui).unwrap().1),
            Purpose::Vote { committee } => (RedeemerTag::Vote, voters.iter().position(|v| *v == (if *committee { 0 } else { 2 }, scripts[u.script].hash)).unwrap() as u32),
            Purpose::Propose { .. } => (RedeemerTag::Propose, proposal_index.iter().find(|(i, _)| *i == ui).unwrap().1),
        }
    };
    let mut order = vec![];
    let mut reds: Vec<Redeemer> = vec![];
    for &ui in redeemer_order {
        if drop_redeemer == Some(ui) {
            continue;
        }
        let (tag, index) = key_of(ui);
        order.push((tag, index, ui));
        reds.push(Redeemer { tag, index, data: int_data(uses[ui].redeemer), ex_units: ExUnits { mem: 0, steps: 0 } });
    }
    let redeemer = if reds.is_empty() {
        None
    } else if redeemers_as_map {
        Some(Redeemers::Map(NonEmptyKeyValuePairs::from_vec(reds.iter().map(|r| (RedeemersKey { tag: r.tag, index: r.index }, RedeemersValue { data: r.data.clone(), ex_units: r.ex_units })).collect()).unwrap()))
    } else {
        Some(Redeemers::List(MaybeIndefArray::Def(reds)))
    };
    // body; the orders in which things are *supplied* are permuted
    let p_in = perm(0, inputs.len());
    let inputs_supplied: Vec<TransactionInput> = p_in.iter().map(|&i| txin(&inputs[i])).collect();
    let mint = if policies.is_empty() {
        None
    } else {
        let p = perm(1, policies.len());
        Some(NonEmptyKeyValuePairs::from_vec(p.iter().map(|&i| (Hash::<28>::from(policies[i]), NonEmptyKeyValuePairs::from_vec(vec![(Bytes::from(vec![0x61, i as u8]), NonZeroInt::try_from(1 + i as i64).unwrap())]).unwrap())).collect()).unwrap())
    };
    let mut withdrawals: Vec<(Bytes, u64)> = script_rewards.iter().map(|h| (Bytes::from(reward_addr(h, true, net)), 0u64)).collect();
    for k in key_withdrawals {
        withdrawals.push((Bytes::from(reward_addr(k, false, net)), 7));
    }
    let withdrawals = if withdrawals.is_empty() {
        None
    } else {
        let p = perm(2, withdrawals.len());
        Some(NonEmptyKeyValuePairs::from_vec(p.iter().map(|&i| withdrawals[i].clone()).collect()).unwrap())
    };
    let wit = |lang: u8| -> Vec<usize> { supply.iter().enumerate().filter(|(i, s)| **s == Supply::Witness && scripts[*i].spec.lang == lang && drop_script != Some(*i)).map(|(i, _)| i).collect() };
    let (w1, w2, w3) = (wit(1), wit(2), wit(3));
    let pw = |v: &Vec<usize>, k: usize| -> Vec<usize> { perm(k, v.len()).iter().map(|&i| v[i]).collect() };
    let pd = perm(6, datum_witnesses.len());
    let tx = Tx {
        transaction_body: TransactionBody {
            inputs: Set::from(inputs_supplied),
            outputs: vec![],
            fee: 200_000,
            ttl: None,
            certificates: NonEmptySet::from_vec(certs),
            withdrawals,
            auxiliary_data_hash: None,
            validity_interval_start: None,
            mint,
            script_data_hash: None,
            collateral: None,
            required_signers: None,
            network_id: None,
            collateral_return: None,
            total_collateral: None,
            reference_inputs: NonEmptySet::from_vec(reference_inputs),
            voting_procedures: if voters.is_empty() {
                None
            } else {
                let p = perm(8, voters.len());
                NonEmptyKeyValuePairs::from_vec(
                    p.iter()
                        .map(|&i| {
                            let (kind, h) = voters[i];
                            let h = Hash::<28>::from(h);
                            let voter = match kind {
                                0 => Voter::ConstitutionalCommitteeScript(h),
                                1 => Voter::ConstitutionalCommitteeKey(h),
                                2 => Voter::DRepScript(h),
                                3 => Voter::DRepKey(h),
                                _ => Voter::StakePoolKey(h),
                            };
                            (voter, NonEmptyKeyValuePairs::from_vec(vec![(GovActionId { transaction_id: Hash::<32>::from([9u8; 32]), action_index: i as u32 }, VotingProcedure { vote: Vote::Yes, anchor: Nullable::Null })]).unwrap())
                        })
                        .collect(),
                )
            },
            proposal_procedures: NonEmptySet::from_vec(proposals),
            treasury_value: None,
            donation: None,
        },
        transaction_witness_set: WitnessSet {
            vkeywitness: None,
            native_script: None,
            bootstrap_witness: None,
            plutus_v1_script: NonEmptySet::from_vec(pw(&w1, 3).iter().map(|&i| PlutusScript::<1>(Bytes::from(scripts[i].cbor.clone()))).collect()),
            plutus_data: NonEmptySet::from_vec(pd.iter().map(|&i| datum_witnesses[i].clone()).collect()),
            redeemer,
            plutus_v2_script: NonEmptySet::from_vec(pw(&w2, 4).iter().map(|&i| PlutusScript::<2>(Bytes::from(scripts[i].cbor.clone()))).collect()),
            plutus_v3_script: NonEmptySet::from_vec(pw(&w3, 5).iter().map(|&i| PlutusScript::<3>(Bytes::from(scripts[i].cbor.clone()))).collect()),
        },
        success: true,
        auxiliary_data: Nullable::Null,
    };
    let pu = perm(7, utxos.len());
    let utxos = pu.iter().map(|&i| utxos[i].clone()).collect();
    Ok(Built { tx_bytes: tx.encode_fragment().map_err(|e| e.to_string())?, utxos, order, sorted_inputs })
}

// ------------------------------------------------------------------ the model

fn v3_costs() -> Vec<i64> {
    static C: std::sync::OnceLock<Vec<i64>> = std::sync::OnceLock::new();
    C.get_or_init(|| {
        let s = std::fs::read_to_string("/repo/crates/uplc/tests/conformance.rs").unwrap_or_default();
        let key = "const V3_PV11_COSTS: &[i64] = &[";
        s.find(key).map(|start| s[start + key.len()..].split("];").next().unwrap_or("").split(',').filter_map(|x| x.trim().parse().ok()).collect()).unwrap_or_default()
    })
    .clone()
}

fn apply_by_hand(p: &Program<DeBruijn>, args: &[PlutusData]) -> Program<NamedDeBruijn> {
    let mut term = p.term.clone();
    for a in args {
        term = Term::Apply { function: Rc::new(term), argument: Rc::new(Term::Constant(Rc::new(Constant::Data(a.clone())))) };
    }
    Program { version: p.version, term }.into()
}

fn lang_of(l: u8) -> Language {
    match l {
        1 => Language::PlutusV1,
        2 => Language::PlutusV2,
        _ => Language::PlutusV3,
    }
}

#[derive(Debug, Clone, PartialEq)]
struct Reported {
    tag: &'static str,
    index: u32,
    mem: u64,
    steps: u64,
    result: String,
    logs: Vec<String>,
}

#[derive(Debug, Clone, PartialEq)]
enum Outcome {
    Ok(Vec<Reported>),
    /// failing redeemer, if the error names one
    Err(Option<(String, u32)>, String),
}

fn observe(r: Result<Vec<(Redeemer, uplc::machine::eval_result::EvalResult)>, uplc::tx::error::Error>) -> Outcome {
    match r {
        Ok(v) => Outcome::Ok(
            v.into_iter()
                .map(|(r, e)| Reported { tag: tag_name(&r.tag), index: r.index, mem: r.ex_units.mem, steps: r.ex_units.steps, logs: e.logs(), result: match e.result() { Ok(t) => t.to_pretty(), Err(e) => format!("error:{}", crate::aik::error_kind(&e)) } })
                .collect(),
        ),
        Err(e) => {
            let kind = format!("{e:?}").chars().take(200).collect::<String>();
            match &e {
                uplc::tx::error::Error::RedeemerError { tag, index, .. } => Outcome::Err(Some((tag.clone(), *index)), kind),
                _ => Outcome::Err(None, kind),
            }
        }
    }
}

fn ctx_checks(ctx: &PlutusData, lang: u8, u: &Use, scripts: &[Script], sorted_inputs: &[(Vec<u8>, u64)]) -> Result<(), String> {
    let d = D::from_plutus(ctx);
    let D::C(0, top) = &d else { return Err(format!("context is not Constr 0: {}", d.show().chars().take(80).collect::<String>())) };
    let out_ref = |(id, ix): &(Vec<u8>, u64)| if lang == 3 { D::C(0, vec![D::B(id.clone()), D::I((*ix).into())]) } else { D::C(0, vec![D::C(0, vec![D::B(id.clone())]), D::I((*ix).into())]) };
    let (info, purpose) = if lang == 3 {
        if top.len() != 3 {
            return Err(format!("V3 context has {} fields", top.len()));
        }
        if top[1] != D::I(u.redeemer.into()) {
            return Err(format!("V3 context carries redeemer {} instead of {}", top[1].show(), u.redeemer));
        }
        (&top[0], &top[2])
    } else {
        if top.len() != 2 {
            return Err(format!("V1/V2 context has {} fields", top.len()));
        }
        (&top[0], &top[1])
    };
    let want_purpose = match &u.purpose {
        Purpose::Spend { input, datum, .. } => {
            if lang == 3 {
                D::C(1, vec![out_ref(input), match datum { Some(m) => D::C(0, vec![D::I((*m).into())]), None => D::C(1, vec![]) }])
            } else {
                D::C(1, vec![out_ref(input)])
            }
        }
        Purpose::Mint => D::C(0, vec![D::B(scripts[u.script].hash.to_vec())]),
        Purpose::Reward => {
            let cred = D::C(1, vec![D::B(scripts[u.script].hash.to_vec())]);
            if lang == 3 { D::C(2, vec![cred]) } else { D::C(2, vec![D::C(0, vec![cred])]) }
        }
        Purpose::Cert { .. } => D::C(3, vec![]),
        Purpose::Vote { committee } => D::C(4, vec![D::C(if *committee { 0 } else { 1 }, vec![D::C(1, vec![D::B(scripts[u.script].hash.to_vec())])])]),
        Purpose::Propose { .. } => D::C(5, vec![]),
    };
    match (&u.purpose, purpose) {
        (Purpose::Cert { .. }, D::C(3, _)) | (Purpose::Propose { .. }, D::C(5, _)) => {}
        _ if *purpose == want_purpose => {}
        _ => return Err(format!("context purpose is {} but the redeemer designates {}", purpose.show().chars().take(160).collect::<String>(), want_purpose.show().chars().take(160).collect::<String>())),
    }
    // inputs in canonical order
    if let D::C(0, fields) = info {
        if let Some(D::L(ins)) = fields.first() {
            let got: Vec<D> = ins.iter().filter_map(|i| if let D::C(0, f) = i { f.first().cloned() } else { None }).collect();
            let want: Vec<D> = sorted_inputs.iter().map(out_ref).collect();
            if got != want {
                return Err(format!("context inputs are not in canonical order: {:?}", got.iter().map(|d| d.show()).collect::<Vec<_>>()));
            }
        }
    }
    Ok(())
}

struct Prediction {
    outcome: Outcome,
    costs: Vec<ExBudget>,
}

#[allow(clippy::too_many_arguments)]
fn predict(built: &Built, scripts: &[Script], uses: &[Use], with_costs: bool, budget: ExBudget) -> Result<Prediction, Failure> {
    let multi = MultiEraTx::decode_for_era(Era::Conway, &built.tx_bytes).map_err(|e| Failure::new("harness-transaction-does-not-decode", json!({"error": e.to_string()})))?;
    let tx = multi.as_conway().ok_or_else(|| Failure::new("harness-transaction-does-not-decode", json!({})))?;
    let slot = SlotConfig::default();
    let mut remaining = budget;
    let mut out = vec![];
    let mut costs = vec![];
    for (tag, index, ui) in &built.order {
        let u = &uses[*ui];
        let s = &scripts[u.script];
        let datum = match &u.purpose {
            Purpose::Spend { datum, .. } => datum.map(int_data),
            _ => None,
        };
        let redeemer = Redeemer { tag: *tag, index: *index, data: int_data(u.redeemer), ex_units: ExUnits { mem: 0, steps: 0 } };
        let info = match s.spec.lang {
            1 => TxInfoV1::from_transaction(tx, &built.utxos, &slot),
            2 => TxInfoV2::from_transaction(tx, &built.utxos, &slot),
            _ => TxInfoV3::from_transaction(tx, &built.utxos, &slot),
        };
        let info = match info {
            Ok(i) => i,
            Err(e) => {
                out.push(None);
                return Ok(Prediction { outcome: Outcome::Err(Some((tag_name(tag).to_string(), *index)), format!("context: {e:?}")), costs });
            }
        };
        let Some(sc) = info.into_script_context(&redeemer, datum.as_ref()) else {
            return Ok(Prediction { outcome: Outcome::Err(Some((tag_name(tag).to_string(), *index)), "no context".into()), costs });
        };
        let ctx = sc.to_plutus_data();
        if let Err(why) = ctx_checks(&ctx, s.spec.lang, u, scripts, &built.sorted_inputs) {
            return Err(Failure::new("script-context-designates-something-else", json!({"redeemer": format!("{}[{}]", tag_name(tag), index), "why": why})));
        }
        let mut args = vec![];
        if s.spec.lang != 3 {
            if let Some(d) = &datum {
                args.push(d.clone());
            }
            args.push(redeemer.data.clone());
        }
        args.push(ctx);
        let program = apply_by_hand(&s.program, &args);
        let lang = lang_of(s.spec.lang);
        let r = if with_costs {
            let v3 = v3_costs();
            let costs: &[i64] = match s.spec.lang {
                1 => PLUTUS_V1,
                2 => PLUTUS_V2,
                _ => &v3,
            };
            program.eval_as(&lang, costs, Some(&remaining))
        } else {
            program.eval_version(remaining, &lang)
        };
        let cost = r.cost();
        let logs = r.logs();
        match r.result() {
            Err(e) => {
                return Ok(Prediction { outcome: Outcome::Err(Some((tag_name(tag).to_string(), *index)), format!("machine: {}", crate::aik::error_kind(&e))), costs });
            }
            Ok(t) => {
                out.push(Some(Reported { tag: tag_name(tag), index: *index, mem: cost.mem as u64, steps: cost.cpu as u64, result: t.to_pretty(), logs }));
                costs.push(cost);
                remaining.cpu -= cost.cpu;
                remaining.mem -= cost.mem;
            }
        }
    }
    Ok(Prediction { outcome: Outcome::Ok(out.into_iter().flatten().collect()), costs })
}

fn agree(model: &Outcome, got: &Outcome) -> bool {
    match (model, got) {
        (Outcome::Ok(a), Outcome::Ok(b)) => a == b,
        (Outcome::Err(Some(a), _), Outcome::Err(Some(b), _)) => a == b,
        // an error the model attributes to a redeemer must at least be an error
        (Outcome::Err(None, _), Outcome::Err(_, _)) => true,
        _ => false,
    }
}

fn simulate(built: &Built, with_costs: bool, budget: Option<ExBudget>, phase_one: bool) -> Result<Outcome, String> {
    let multi = MultiEraTx::decode_for_era(Era::Conway, &built.tx_bytes).map_err(|e| e.to_string())?;
    let tx = multi.as_conway().ok_or("not conway")?;
    let cm = CostModels { plutus_v1: Some(PLUTUS_V1.to_vec()), plutus_v2: Some(PLUTUS_V2.to_vec()), plutus_v3: Some(v3_costs()) };
    Ok(observe(eval_phase_two(tx, &built.utxos, if with_costs { Some(&cm) } else { None }, budget.as_ref(), &SlotConfig::default(), phase_one, |_| ())))
}

fn judge(src: &mut Src, st: &mut Stats) -> CheckResult {
    st.eval();
    // ---- scripts
    let ns = 1 + src.weighted(&[2, 4, 3, 2]);
    let allow_v1 = src.chance(1, 3);
    let mut scripts = vec![];
    for i in 0..ns {
        let lang = if allow_v1 { *src.pick(&[1u8, 1, 2, 3]) } else { *src.pick(&[2u8, 3, 3]) };
        let spec = ScriptSpec { lang, spend_arity: src.chance(3, 5), salt: i as i64 + src.below(3) as i64 * 4, fail_on: if src.chance(1, 3) { Some(13) } else { None }, non_unit: lang == 3 && src.chance(1, 8) };
        scripts.push(make_script(spec).map_err(|e| Failure::new("harness-script-invalid", json!({"error": e})))?);
    }
    // distinct hashes only
    for i in 0..scripts.len() {
        for j in 0..i {
            if scripts[i].hash == scripts[j].hash {
                st.class("skipped:identical-scripts");
                return Ok(());
            }
        }
    }
    let any_v1 = scripts.iter().any(|s| s.spec.lang == 1);
    let all_v3 = scripts.iter().all(|s| s.spec.lang == 3);
    let net = src.below(2) as u8;
    // ---- uses
    let nuses = 1 + src.weighted(&[2, 4, 4, 3, 2, 1]);
    let mut uses: Vec<Use> = vec![];
    let shared_id: Vec<u8> = (0..32).map(|_| src.below(256) as u8).collect();
    for _ in 0..nuses {
        let si = src.below(scripts.len());
        let sp = &scripts[si].spec;
        let redeemer = if src.chance(1, 8) { 13 } else { src.below(20) as i64 };
        let wants_spend = if sp.lang == 3 { src.chance(1, 2) } else { sp.spend_arity };
        let purpose = if wants_spend {
            let id = if src.chance(1, 2) { shared_id.clone() } else { (0..32).map(|_| src.below(256) as u8).collect() };
            let ix = *src.pick(&[0u64, 1, 2, 9, 10, 11, 99, 100, 255, 256, 300]);
            let datum = if sp.lang == 3 && src.chance(1, 4) { None } else { Some(src.below(15) as i64) };
            Purpose::Spend { input: (id, ix), datum, inline: !any_v1 && src.chance(1, 2) }
        } else {
            match src.below(if all_v3 { 5 } else { 3 }) {
                0 => Purpose::Mint,
                1 => Purpose::Reward,
                2 => Purpose::Cert { variant: src.below(6) as u8 },
                3 => Purpose::Vote { committee: src.bool() },
                _ => Purpose::Propose { n: src.below(4) as u8 },
            }
        };
        // one mint / one withdrawal per script; distinct inputs and certificates
        let clash = uses.iter().any(|u| match (&u.purpose, &purpose) {
            (Purpose::Mint, Purpose::Mint) | (Purpose::Reward, Purpose::Reward) => u.script == si,
            (Purpose::Spend { input: a, .. }, Purpose::Spend { input: b, .. }) => a == b,
            (Purpose::Cert { variant: a }, Purpose::Cert { variant: b }) => u.script == si && a % 3 == b % 3 && (a % 3 == 0 || a == b),
            (Purpose::Vote { committee: a }, Purpose::Vote { committee: b }) => u.script == si && a == b,
            (Purpose::Propose { n: a }, Purpose::Propose { n: b }) => u.script == si && a == b,
            _ => false,
        });
        if !clash {
            uses.push(Use { purpose, script: si, redeemer });
        }
    }
    // every script must be needed, or phase one reports it as extraneous
    let used: Vec<usize> = (0..scripts.len()).filter(|i| uses.iter().any(|u| u.script == *i)).collect();
    let scripts: Vec<Script> = scripts.into_iter().enumerate().filter(|(i, _)| used.contains(i)).map(|(_, s)| s).collect();
    for u in uses.iter_mut() {
        u.script = used.iter().position(|i| *i == u.script).unwrap();
    }
    if uses.is_empty() {
        st.class("skipped:no-use");
        return Ok(());
    }
    let supply: Vec<Supply> = scripts.iter().map(|_| if any_v1 { Supply::Witness } else { *src.pick(&[Supply::Witness, Supply::Witness, Supply::ReferenceInput, Supply::OnSpentInput]) }).collect();
    let key_inputs: Vec<(Vec<u8>, u64)> = (0..src.below(3)).map(|_| (if src.chance(1, 2) { shared_id.clone() } else { (0..32).map(|_| src.below(256) as u8).collect() }, *src.pick(&[0u64, 3, 10, 12, 101]))).filter(|k| !uses.iter().any(|u| matches!(&u.purpose, Purpose::Spend { input, .. } if input == k))).collect();
    let mut key_inputs = key_inputs;
    key_inputs.dedup();
    let key_withdrawals: Vec<[u8; 28]> = (0..src.below(3)).map(|i| [src.below(256) as u8 ^ i as u8; 28]).collect();
    let mut kw = key_withdrawals.clone();
    kw.sort();
    kw.dedup();
    let key_withdrawals = kw;
    let key_certs_before = src.below(3);
    let gov = if all_v3 {
        let mut kv: Vec<(u8, [u8; 28])> = (0..src.below(3)).map(|_| (*src.pick(&[1u8, 3, 4]), [src.below(256) as u8; 28])).collect();
        kv.sort();
        kv.dedup();
        Governance { key_voters: if uses.iter().any(|u| matches!(u.purpose, Purpose::Vote { .. })) || src.chance(1, 4) { kv } else { vec![] }, plain_proposals_before: if uses.iter().any(|u| matches!(u.purpose, Purpose::Propose { .. })) { src.below(3) } else { 0 } }
    } else {
        Governance::default()
    };
    let mut redeemer_order: Vec<usize> = (0..uses.len()).collect();
    for i in (1..redeemer_order.len()).rev() {
        let j = src.below(i + 1);
        redeemer_order.swap(i, j);
    }
    let as_map = src.bool();
    let with_costs = src.chance(3, 4);
    // permutations: identity and two generated ones
    let seeds: Vec<u64> = (0..2).map(|_| src.below(1 << 30) as u64 + 1).collect();
    let identity = |_: usize, n: usize| (0..n).collect::<Vec<_>>();
    let shuffled = |seed: u64| {
        move |k: usize, n: usize| {
            let mut v: Vec<usize> = (0..n).collect();
            let mut x = seed.wrapping_mul(6364136223846793005).wrapping_add(k as u64 * 1442695040888963407 + 1);
            for i in (1..n).rev() {
                x = x.wrapping_mul(6364136223846793005).wrapping_add(1442695040888963407);
                v.swap(i, ((x >> 33) as usize) % (i + 1));
            }
            v
        }
    };
    let describe = json!({
        "scripts": scripts.iter().zip(&supply).map(|(s, sup)| json!({"language": s.spec.lang, "arguments": if s.spec.lang == 3 { 1 } else if s.spec.spend_arity { 3 } else { 2 }, "cost_offset": s.spec.salt, "fails_on_redeemer": s.spec.fail_on, "returns_non_unit": s.spec.non_unit, "hash": hex::encode(s.hash), "supplied": format!("{sup:?}")})).collect::<Vec<_>>(),
        "uses": uses.iter().map(|u| json!({"purpose": format!("{:?}", u.purpose).chars().take(160).collect::<String>(), "script": u.script, "redeemer": u.redeemer})).collect::<Vec<_>>(),
        "key_inputs": key_inputs.iter().map(|(i, x)| format!("{}#{x}", hex::encode(&i[..4]))).collect::<Vec<_>>(), "key_withdrawals": key_withdrawals.len(), "key_certificates_first": key_certs_before, "key_voters": gov.key_voters.iter().map(|(k, h)| format!("{k}:{:02x}", h[0])).collect::<Vec<_>>(), "plain_proposals_first": gov.plain_proposals_before,
        "redeemer_order": redeemer_order, "redeemers_as_map": as_map, "cost_models": with_costs, "network": net,
    });
    let build = |p: &dyn Fn(usize, usize) -> Vec<usize>, ds: Option<usize>, dd: bool, dr: Option<usize>| build_tx(&scripts, &supply, &uses, &key_inputs, &key_withdrawals, key_certs_before, &gov, &redeemer_order, as_map, net, ds, dd, dr, p);
    let base = match build(&identity, None, false, None) {
        Ok(b) => b,
        Err(e) => {
            st.class(&format!("skipped:{e}"));
            return Ok(());
        }
    };
    let input = json!({"transaction": describe, "tx_cbor": hex::encode(&base.tx_bytes)});
    let ample = ExBudget { mem: 14_000_000, cpu: 10_000_000_000 };

    // ---- 1. ample budget: per-redeemer units and results
    let model = predict(&base, &scripts, &uses, with_costs, ample).map_err(|mut f| {
        f.detail = json!({"input": input, "more": f.detail});
        f
    })?;
    let got = no_panic(|| simulate(&base, with_costs, Some(ample), true)).map_err(|p| panic_failure("eval_phase_two", p, input.clone()))?.map_err(|e| Failure::new("harness-transaction-does-not-decode", json!({"input": input, "error": e})))?;
    st.evals(1);
    if !agree(&model.outcome, &got) {
        let sig = match (&model.outcome, &got) {
            (Outcome::Ok(_), Outcome::Ok(_)) => "reported-units-or-results-differ-from-direct-evaluation",
            (Outcome::Ok(_), Outcome::Err(..)) => "simulation-fails-but-every-script-succeeds",
            (Outcome::Err(..), Outcome::Ok(_)) => "simulation-succeeds-but-a-script-fails",
            _ => "simulation-blames-another-redeemer",
        };
        return Err(Failure::new(sig, json!({"input": input, "model": format!("{:?}", model.outcome), "simulation": format!("{got:?}")})));
    }
    st.class(match &got { Outcome::Ok(_) => "ample:all-succeed", Outcome::Err(..) => "ample:a-script-fails" });

    // the byte-level entry point agrees with the typed one
    {
        let utxo_bytes: Vec<(Vec<u8>, Vec<u8>)> = base.utxos.iter().map(|u| (u.input.encode_fragment().unwrap(), u.output.encode_fragment().unwrap())).collect();
        let cm = CostModels { plutus_v1: Some(PLUTUS_V1.to_vec()), plutus_v2: Some(PLUTUS_V2.to_vec()), plutus_v3: Some(v3_costs()) };
        let cm_bytes = cm.encode_fragment().unwrap();
        let raw = no_panic(|| eval_phase_two_raw(&base.tx_bytes, &utxo_bytes, if with_costs { Some(&cm_bytes) } else { None }, (ample.cpu as u64, ample.mem as u64), (SlotConfig::default().zero_time, SlotConfig::default().zero_slot, SlotConfig::default().slot_length), true, |_| ())).map_err(|p| panic_failure("eval_phase_two_raw", p, input.clone()))?;
        let raw = observe(raw.map(|v| v.into_iter().map(|(bytes, e)| (Redeemer::decode_fragment(&bytes).expect("redeemer bytes"), e)).collect()));
        st.evals(1);
        if !agree(&got, &raw) || !agree(&raw, &got) {
            return Err(Failure::new("byte-level-entry-point-differs-from-typed-one", json!({"input": input, "typed": format!("{got:?}"), "raw": format!("{raw:?}")})));
        }
    }

    // ---- 2. permutations of what is supplied
    let mut permuted_nontrivially = false;
    for seed in &seeds {
        let p = shuffled(*seed);
        let Ok(b) = build(&p, None, false, None) else { continue };
        if b.tx_bytes != base.tx_bytes || b.utxos.iter().zip(&base.utxos).any(|(x, y)| x.input != y.input) {
            permuted_nontrivially = true;
        }
        let got_p = no_panic(|| simulate(&b, with_costs, Some(ample), true)).map_err(|p| panic_failure("eval_phase_two(permuted)", p, input.clone()))?.map_err(|e| Failure::new("harness-transaction-does-not-decode", json!({"input": input, "error": e})))?;
        st.evals(1);
        let same = match (&got, &got_p) {
            (Outcome::Ok(a), Outcome::Ok(b)) => a == b,
            (Outcome::Err(a, _), Outcome::Err(b, _)) => a == b,
            _ => false,
        };
        if !same {
            return Err(Failure::new("result-depends-on-supply-order", json!({"input": input, "permuted_tx_cbor": hex::encode(&b.tx_bytes), "original": format!("{got:?}"), "permuted": format!("{got_p:?}")})));
        }
    }

    // ---- 3. budgets
    if let Outcome::Ok(reported) = &got {
        let total = model.costs.iter().fold(ExBudget { mem: 0, cpu: 0 }, |a, c| ExBudget { mem: a.mem + c.mem, cpu: a.cpu + c.cpu });
        // exactly the total is enough
        let mut budgets: Vec<(ExBudget, String)> = vec![(total, "exactly the total".into())];
        // one unit short of what redeemer k needs, in one dimension
        let k = src.below(reported.len());
        let upto = model.costs[..=k].iter().fold(ExBudget { mem: 0, cpu: 0 }, |a, c| ExBudget { mem: a.mem + c.mem, cpu: a.cpu + c.cpu });
        if src.bool() {
            budgets.push((ExBudget { cpu: upto.cpu - 1, mem: ample.mem }, format!("cpu one short of redeemer #{k}")));
        } else {
            budgets.push((ExBudget { mem: upto.mem - 1, cpu: ample.cpu }, format!("mem one short of redeemer #{k}")));
        }
        for (b, what) in budgets {
            let m = predict(&base, &scripts, &uses, with_costs, b).map_err(|mut f| {
                f.detail = json!({"input": input, "more": f.detail});
                f
            })?;
            let g = no_panic(|| simulate(&base, with_costs, Some(b), true)).map_err(|p| panic_failure("eval_phase_two(budget)", p, input.clone()))?.map_err(|e| Failure::new("harness-transaction-does-not-decode", json!({"input": input, "error": e})))?;
            st.evals(1);
            if !agree(&m.outcome, &g) {
                let sig = match (&m.outcome, &g) {
                    (Outcome::Err(..), Outcome::Ok(_)) => "budget-left-by-previous-redeemers-not-enforced",
                    (Outcome::Ok(_), Outcome::Err(..)) => "budget-exhausted-although-enough-is-left",
                    (Outcome::Ok(_), Outcome::Ok(_)) => "reported-units-depend-on-budget",
                    _ => "budget-failure-blamed-on-another-redeemer",
                };
                return Err(Failure::new(format!("{sig}:{}", if with_costs { "with-cost-models" } else { "without-cost-models" }), json!({"input": input, "initial_budget": {"cpu": b.cpu, "mem": b.mem}, "budget_is": what, "model": format!("{:?}", m.outcome), "simulation": format!("{g:?}"), "per_redeemer_cost": model.costs.iter().map(|c| json!({"cpu": c.cpu, "mem": c.mem})).collect::<Vec<_>>()})));
            }
            st.class(&format!("budget:{}", what.split(" of").next().unwrap_or("")));
        }
    }

    // ---- 4. something needed is missing
    {
        let which = src.below(3);
        let (b, what) = match which {
            0 => (build(&identity, Some(src.below(scripts.len())), false, None), "a needed script"),
            1 if uses.iter().any(|u| matches!(&u.purpose, Purpose::Spend { datum: Some(_), inline: false, .. })) => (build(&identity, None, true, None), "a needed datum"),
            _ => (build(&identity, None, false, Some(src.below(uses.len()))), "a needed redeemer"),
        };
        if let Ok(b) = b {
            let g = no_panic(|| simulate(&b, with_costs, Some(ample), true)).map_err(|p| panic_failure("eval_phase_two(missing)", p, input.clone()))?.map_err(|e| Failure::new("harness-transaction-does-not-decode", json!({"input": input, "error": e})))?;
            st.evals(1);
            if let Outcome::Ok(r) = &g {
                return Err(Failure::new(format!("simulation-succeeds-without-{}", what.replace(' ', "-")), json!({"input": input, "missing": what, "tx_cbor_without_it": hex::encode(&b.tx_bytes), "simulation": format!("{r:?}")})));
            }
            st.class(&format!("missing:{what}"));
        }
    }

    let distinct_costs = model.costs.len() >= 2 && model.costs.iter().any(|c| *c != model.costs[0]);
    let lookup = uses.iter().any(|u| matches!(&u.purpose, Purpose::Spend { datum: Some(_), inline: false, .. })) || supply.iter().any(|s| *s != Supply::Witness);
    st.class(&format!("redeemers:{}", base.order.len().min(5)));
    for (t, _, _) in &base.order {
        st.class(&format!("purpose:{}", tag_name(t)));
    }
    st.class(&format!("languages:{}", { let mut l: Vec<u8> = scripts.iter().map(|s| s.spec.lang).collect(); l.sort(); l.dedup(); l.iter().map(|x| format!("V{x}")).collect::<Vec<_>>().join("+") }));
    if distinct_costs && lookup && permuted_nontrivially {
        st.nontrivial(&base.tx_bytes);
        st.sample(|| json!({"redeemers": base.order.iter().map(|(t, i, _)| format!("{}[{i}]", tag_name(t))).collect::<Vec<_>>(), "units": model.costs.iter().map(|c| json!({"cpu": c.cpu, "mem": c.mem})).collect::<Vec<_>>(), "cost_models": with_costs, "scripts": describe["scripts"]}));
    }
    let _: Option<J> = None;
    Ok(())
}

pub fn run(cx: &mut Cx) -> String {
    let tier = cx.tier;
    cx.shrink_iters = 400;
    cx.prop("generated-transactions", tier.of(60_000, 1_500_000), 400, judge);
    RULE.to_string()
}

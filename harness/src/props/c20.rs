//! C20 — malformed input is rejected with an error, not a crash.
//! Mutation-based (proptest-driven) exploration of every untrusted-input entry point, with the
//! round-trip oracles applied whenever a decode succeeds. Process-killing crashes (stack overflow,
//! abort) are caught by the supervisor through the side file (`crashy`).
use crate::engine::*;
use crate::gen_::consts;
use crate::gen_::uplc::{self as gu, T};
use crate::props::c15::enrich;
use aiken_lang::ast::ModuleKind;
use aiken_project::blueprint::{Blueprint, definitions::Definitions, parameter::Parameter, schema::{Annotated, Schema}, validator::Validator};
use num_bigint::BigInt;
use serde_json::json;
use std::path::{Path, PathBuf};
use uplc::ast::{Constant, DeBruijn, FakeNamedDeBruijn, Name, NamedDeBruijn, Program, SerializableProgram};

pub const ASSUMPTIONS: &[&str] = &[
    "a 'modest input' for the stack-overflow criterion is at most 64 KiB with nesting depth <= 2000; deeper inputs are run but a stack overflow there is reported as inconclusive",
    "seed corpora are read from /repo at run time (conformance .uplc programs, shipped .ak sources, plutus.json blueprints, aiken.toml files)",
    "an Err result (or a parse error list) is the contract for malformed input; only panics, aborts and non-termination are violations; where a decode succeeds the re-encode/decode fixpoint is required too",
];

pub const RULE: &str = "inputs = mutations (bit flips, byte sets, range deletion/duplication/insertion, truncation, splices between seeds, huge length prefixes, one-letter changes of builtin names, deep nesting) of valid seeds: flat/CBOR/hex encodings of generated programs in four binder forms, printed UPLC text and the conformance corpus, the shipped .ak sources, the shipped plutus.json blueprints and schemas, aiken.toml files; plus arbitrary PlutusData against every schema of the shipped blueprints. Each entry point must return Ok or Err. Non-trivial = the input got past the first validation layer (some decoder/parser accepted it, or rejected it only after consuming >= 8 bytes / after at least one token); distinct by input bytes.";

// ------------------------------------------------------------------------------------------------
// mutation

pub fn mutate(src: &mut Src, seed: &[u8], other: &[u8]) -> Vec<u8> {
    let mut b = seed.to_vec();
    let n_ops = 1 + src.below(3);
    for _ in 0..n_ops {
        let len = b.len();
        match src.below(9) {
            0 if len > 0 => {
                let i = src.below(len);
                b[i] ^= 1 << src.below(8);
            }
            1 if len > 0 => {
                let i = src.below(len);
                b[i] = *src.pick(&[0u8, 0xff, 0x7f, 0x80, 0x01, 0x9f, 0x5f, 0xbf, 0x1b, 0x3b]);
            }
            2 if len > 1 => {
                let i = src.below(len);
                let k = 1 + src.below((len - i).min(16));
                b.drain(i..i + k);
            }
            3 if len > 0 => {
                let i = src.below(len);
                let k = 1 + src.below((len - i).min(32));
                let chunk: Vec<u8> = b[i..i + k].to_vec();
                let at = src.below(len + 1);
                let reps = 1 + src.below(3);
                for _ in 0..reps {
                    b.splice(at..at, chunk.iter().copied());
                }
            }
            4 => {
                let at = src.below(len + 1);
                let k = 1 + src.below(8);
                let bytes = src.bytes(k);
                b.splice(at..at, bytes);
            }
            5 if len > 0 => {
                b.truncate(src.below(len));
            }
            6 if !other.is_empty() => {
                let i = src.below(other.len());
                let k = 1 + src.below((other.len() - i).min(64));
                let at = src.below(len + 1);
                b.splice(at..at, other[i..i + k].iter().copied());
            }
            7 => {
                // huge length prefixes (CBOR bytes/array/map with 8-byte length; flat varints)
                let at = src.below(len + 1);
                let p: &[u8] = *src.pick(&[
                    &[0x5b, 0xff, 0xff, 0xff, 0xff, 0xff, 0xff, 0xff, 0xff][..],
                    &[0x9b, 0x7f, 0xff, 0xff, 0xff, 0xff, 0xff, 0xff, 0xff][..],
                    &[0xbb, 0x00, 0x00, 0x00, 0x01, 0x00, 0x00, 0x00, 0x00][..],
                    &[0xff, 0xff, 0xff, 0xff, 0xff, 0xff, 0xff, 0xff, 0xff, 0x7f][..],
                    &[0xc2, 0x5b, 0x00, 0x00, 0x00, 0x00, 0xff, 0xff, 0xff, 0xff][..],
                    &[0xd8, 0x66, 0x82, 0x1b, 0xff, 0xff, 0xff, 0xff, 0xff, 0xff, 0xff, 0xff, 0x80][..],
                ]);
                b.splice(at..at, p.iter().copied());
            }
            _ => {
                if len > 0 {
                    let i = src.below(len);
                    b[i] = b[i].wrapping_add(1);
                }
            }
        }
    }
    b
}

fn mutate_text(src: &mut Src, seed: &str, other: &str) -> String {
    // token-aware mutations first, then byte-level ones
    let mut s = seed.to_string();
    if src.chance(1, 3) {
        let pairs = [("(", ""), (")", ""), ("[", "("), ("]", ""), ("con", "cons"), ("integer", "integre"), ("lam", "lamda"), ("builtin ", "builtin x"), ("\"", ""), ("#", "#g"), ("{", ""), ("}", ""), ("fn", "f n"), ("->", "-"), ("when", "wen"), ("=", "=="), (",", ",,"), ("0", "0x"), ("1", "1_"), ("@\"", "@")];
        let (from, to) = *src.pick(&pairs);
        if let Some(_) = s.find(from) {
            let occurrences: Vec<usize> = s.match_indices(from).map(|(i, _)| i).collect();
            let at = *src.pick(&occurrences);
            s.replace_range(at..at + from.len(), to);
        }
    }
    // lexeme-level: insert one or two characters of the grammars' alphabets, half of the time right
    // in front of a digit / sign / quote (number, byte-string and string literals are where the
    // hand-written conversions behind the grammar live)
    if src.chance(1, 2) {
        const ALPHABET: &[u8] = b"+-_.#\"'()[]{}<>,:;=!?@\\|&*/% 0123456789abcxXeEo";
        let anchors: Vec<usize> = s.char_indices().filter(|(_, c)| c.is_ascii_digit() || matches!(c, '-' | '+' | '"' | '#')).map(|(i, _)| i).collect();
        let at = if !anchors.is_empty() && src.bool() {
            *src.pick(&anchors)
        } else {
            let idx: Vec<usize> = s.char_indices().map(|(i, _)| i).chain(std::iter::once(s.len())).collect();
            *src.pick(&idx)
        };
        let n = 1 + src.below(2);
        let ins: String = (0..n).map(|_| *src.pick(ALPHABET) as char).collect();
        s.insert_str(at, &ins);
        if src.chance(2, 3) {
            return s;
        }
    }
    let bytes = mutate(src, s.as_bytes(), other.as_bytes());
    String::from_utf8_lossy(&bytes).to_string()
}

// ------------------------------------------------------------------------------------------------
// seeds

pub struct Seeds {
    pub uplc_texts: Vec<String>,
    pub ak_sources: Vec<String>,
    pub blueprints: Vec<String>,
    pub tomls: Vec<String>,
}

fn walk(dir: &Path, ext: &str, name: Option<&str>, out: &mut Vec<PathBuf>, limit: usize) {
    let Ok(rd) = std::fs::read_dir(dir) else { return };
    let mut entries: Vec<_> = rd.filter_map(|e| e.ok()).map(|e| e.path()).collect();
    entries.sort();
    for p in entries {
        if out.len() >= limit {
            return;
        }
        if p.is_dir() {
            let n = p.file_name().unwrap().to_string_lossy().to_string();
            if n == "target" || n == "build" || n == ".git" {
                continue;
            }
            walk(&p, ext, name, out, limit);
        } else if let Some(nm) = name {
            if p.file_name().map(|f| f == nm).unwrap_or(false) {
                out.push(p);
            }
        } else if p.extension().map(|e| e == ext).unwrap_or(false) {
            out.push(p);
        }
    }
}

pub fn load_seeds() -> Seeds {
    let repo = Path::new("/repo");
    let mut files = vec![];
    walk(&repo.join("crates/uplc/test_data/conformance/v3"), "uplc", None, &mut files, 4000);
    let mut uplc_texts: Vec<String> = files
        .iter()
        .filter_map(|p| std::fs::read_to_string(p).ok())
        .filter(|s| s.len() < 4000)
        .collect();
    uplc_texts.truncate(1500);
    let mut files = vec![];
    walk(&repo.join("examples"), "ak", None, &mut files, 1000);
    walk(&repo.join("benchmarks"), "ak", None, &mut files, 1000);
    let ak_sources: Vec<String> = files.iter().filter_map(|p| std::fs::read_to_string(p).ok()).filter(|s| s.len() < 30_000).collect();
    let mut files = vec![];
    walk(&repo.join("examples"), "json", Some("plutus.json"), &mut files, 100);
    walk(&repo.join("benchmarks"), "json", Some("plutus.json"), &mut files, 100);
    let blueprints: Vec<String> = files.iter().filter_map(|p| std::fs::read_to_string(p).ok()).collect();
    let mut files = vec![];
    walk(&repo.join("examples"), "toml", Some("aiken.toml"), &mut files, 400);
    walk(&repo.join("benchmarks"), "toml", Some("aiken.toml"), &mut files, 400);
    let tomls: Vec<String> = files.iter().filter_map(|p| std::fs::read_to_string(p).ok()).collect();
    Seeds {
        uplc_texts,
        ak_sources,
        blueprints,
        tomls,
    }
}

// ------------------------------------------------------------------------------------------------
// entry points

fn decode_all(bytes: &[u8], st: &mut Stats) -> CheckResult {
    let input = json!({"hex": hex::encode(bytes)});
    let mut accepted = false;
    macro_rules! one {
        ($ty:ty, $name:literal) => {{
            let r = no_panic(|| Program::<$ty>::from_flat(bytes)).map_err(|p| panic_failure(concat!("from_flat<", $name, ">"), p, input.clone()))?;
            if let Ok(p) = r {
                accepted = true;
                // accepted input: re-encoding must be decodable to the same program and be a
                // fixpoint after this one normalisation step
                let again = no_panic(|| p.to_flat()).map_err(|pn| panic_failure(concat!("to_flat<", $name, ">"), pn, input.clone()))?;
                if let Ok(b2) = again {
                    let r2 = no_panic(|| Program::<$ty>::from_flat(&b2)).map_err(|pn| panic_failure(concat!("from_flat<", $name, ">(reencoded)"), pn, input.clone()))?;
                    match r2 {
                        Ok(p2) => {
                            let b3 = p2.to_flat().map_err(|e| Failure::new(concat!("reencode-fails:", $name), json!({"input": input, "error": e.to_string()})))?;
                            if b3 != b2 {
                                return Err(Failure::new(concat!("decode-encode-not-a-fixpoint:", $name), json!({"input": input, "second": hex::encode(&b2), "third": hex::encode(&b3)})));
                            }
                        }
                        Err(e) => {
                            return Err(Failure::new(concat!("reencoded-bytes-rejected:", $name), json!({"input": input, "reencoded": hex::encode(&b2), "error": e.to_string()})));
                        }
                    }
                }
            }
        }};
    }
    one!(DeBruijn, "DeBruijn");
    one!(NamedDeBruijn, "NamedDeBruijn");
    one!(Name, "Name");
    one!(FakeNamedDeBruijn, "FakeNamedDeBruijn");
    // cbor / hex wrappers
    let mut buf = vec![];
    let r = no_panic(|| Program::<DeBruijn>::from_cbor(bytes, &mut buf).map(|_| ())).map_err(|p| panic_failure("from_cbor", p, input.clone()))?;
    accepted |= r.is_ok();
    let (mut b1, mut b2) = (vec![], vec![]);
    let hx = hex::encode(bytes);
    let _ = no_panic(|| Program::<DeBruijn>::from_hex(&hx, &mut b1, &mut b2).map(|_| ())).map_err(|p| panic_failure("from_hex", p, input.clone()))?;
    let (mut b1, mut b2) = (vec![], vec![]);
    let as_text = String::from_utf8_lossy(bytes).to_string();
    let _ = no_panic(|| Program::<DeBruijn>::from_hex(&as_text, &mut b1, &mut b2).map(|_| ())).map_err(|p| panic_failure("from_hex(text)", p, input.clone()))?;
    st.class(if accepted { "binary:accepted" } else { "binary:rejected" });
    st.sample(|| json!({"entry": "from_flat/from_cbor/from_hex (4 binder forms)", "outcome": if accepted { "accepted by at least one decoder" } else { "rejected by all" }, "hex": hex::encode(&bytes[..bytes.len().min(120)])}));
    if accepted || bytes.len() >= 8 {
        st.nontrivial(bytes);
    }
    Ok(())
}

fn uplc_text(text: &str, st: &mut Stats) -> CheckResult {
    let input = json!({"text": text});
    let r = no_panic(|| uplc::parser::program(text)).map_err(|p| panic_failure("uplc::parser::program", p, input.clone()))?;
    let _ = no_panic(|| uplc::parser::term(text).map(|_| ())).map_err(|p| panic_failure("uplc::parser::term", p, input.clone()))?;
    match r {
        Ok(p) => {
            st.class("uplc-text:accepted");
            st.nontrivial(text);
            st.sample(|| json!({"entry": "uplc::parser::program", "outcome": "accepted", "text": text.chars().take(300).collect::<String>()}));
            // printing what was parsed must not panic and must parse again
            let printed = no_panic(|| p.to_pretty()).map_err(|pn| panic_failure("to_pretty(parsed)", pn, input.clone()))?;
            let again = no_panic(|| uplc::parser::program(&printed)).map_err(|pn| panic_failure("uplc::parser::program(printed)", pn, input.clone()))?;
            if let Err(e) = again {
                return Err(Failure::new("printed-parsed-text-rejected", json!({"input": input, "printed": printed, "error": e.to_string()})));
            }
            let _ = no_panic(|| p.to_debruijn().map(|_| ())).map_err(|pn| panic_failure("to_debruijn(parsed)", pn, input.clone()))?;
        }
        Err(_) => {
            st.class("uplc-text:rejected");
            if text.len() >= 8 {
                st.nontrivial(text);
            }
        }
    }
    Ok(())
}

/// Deepest nesting of `(` reached anywhere in the text (unbalanced openers count too).
fn paren_depth(text: &str) -> usize {
    let (mut d, mut max) = (0usize, 0usize);
    for b in text.bytes() {
        match b {
            b'(' => {
                d += 1;
                max = max.max(d);
            }
            b')' => d = d.saturating_sub(1),
            _ => {}
        }
    }
    max
}

/// Finding `slow:aiken-parser:nested-parens` (parse time doubling with every level of
/// parenthesis nesting) was excluded by construction above depth 10 while it was open; since its
/// repair the limit only keeps generated text within what the recursive-descent parser's stack
/// can take (deeper inputs are the business of the `deep-term` shapes, which run in their own
/// process).
const MAX_PAREN_DEPTH: usize = 400;

fn aiken_text(text: &str, st: &mut Stats) -> CheckResult {
    if paren_depth(text) > MAX_PAREN_DEPTH {
        st.class("excluded:paren-depth-above-400");
        return Ok(());
    }
    let input = json!({"source": text});
    let r = no_panic(|| aiken_lang::parser::module(text, ModuleKind::Validator)).map_err(|p| panic_failure("aiken_lang::parser::module", p, input.clone()))?;
    match r {
        Ok((module, extra)) => {
            st.class("aiken-text:accepted");
            st.nontrivial(text);
            let mut out = String::new();
            no_panic(|| aiken_lang::format::pretty(&mut out, module, extra, text)).map_err(|p| panic_failure("aiken_lang::format::pretty", p, input.clone()))?;
        }
        Err(errs) => {
            st.class("aiken-text:rejected");
            st.sample(|| json!({"entry": "aiken_lang::parser::module", "outcome": "rejected", "errors": errs.len(), "source": text.chars().take(300).collect::<String>()}));
            // error rendering is what the user sees: it must not panic either
            let _ = no_panic(|| errs.iter().map(|e| format!("{e:?}").len()).sum::<usize>()).map_err(|p| panic_failure("ParseError::fmt", p, input.clone()))?;
            if text.len() >= 8 {
                st.nontrivial(text);
            }
        }
    }
    Ok(())
}

fn json_text(text: &str, st: &mut Stats) -> CheckResult {
    let input = json!({"json": text});
    let r = no_panic(|| serde_json::from_str::<Blueprint>(text)).map_err(|p| panic_failure("from_str::<Blueprint>", p, input.clone()))?;
    let _ = no_panic(|| serde_json::from_str::<Validator<SerializableProgram>>(text).map(|_| ())).map_err(|p| panic_failure("from_str::<Validator>", p, input.clone()))?;
    let _ = no_panic(|| serde_json::from_str::<Annotated<Schema>>(text).map(|_| ())).map_err(|p| panic_failure("from_str::<Annotated<Schema>>", p, input.clone()))?;
    let _ = no_panic(|| serde_json::from_str::<Schema>(text).map(|_| ())).map_err(|p| panic_failure("from_str::<Schema>", p, input.clone()))?;
    let _ = no_panic(|| serde_json::from_str::<SerializableProgram>(text).map(|_| ())).map_err(|p| panic_failure("from_str::<SerializableProgram>", p, input.clone()))?;
    match r {
        Ok(bp) => {
            st.class("json:blueprint-accepted");
            st.nontrivial(text);
            // what was loaded is then looked into by name and gets parameters applied
            for title in [None, Some(""), Some("x"), Some("a.b"), Some("."), Some("a..b"), Some("no dots at all")] {
                let mut probe = bp.clone();
                // titles are free-form strings in a blueprint file
                if let (Some(t), Some(v)) = (title, probe.validators.first_mut()) {
                    v.title = t.to_string();
                }
                let unit = uplc::ast::Data::constr(0, vec![]);
                for (m, v) in [(None, None), (Some("m"), None), (None, Some("v")), (Some(""), Some(""))] {
                    let _ = no_panic(|| probe.lookup(m, v).is_some()).map_err(|p| panic_failure("Blueprint::lookup", p, input.clone()))?;
                    let _ = no_panic(|| probe.apply_parameter(m, v, &unit).is_ok()).map_err(|p| panic_failure("Blueprint::apply_parameter", p, input.clone()))?;
                }
            }
            // saving what was loaded must work and load again to the same value
            let saved = no_panic(|| serde_json::to_string(&bp)).map_err(|p| panic_failure("to_string(Blueprint)", p, input.clone()))?;
            if let Ok(saved) = saved {
                let again = no_panic(|| serde_json::from_str::<Blueprint>(&saved)).map_err(|p| panic_failure("from_str::<Blueprint>(saved)", p, input.clone()))?;
                match again {
                    // fixpoint after one normalisation step (a `$ref` with an unescaped `/` is
                    // normalised to `~1` on save, so structural equality would be too strict)
                    Ok(bp2) if bp2 == bp || serde_json::to_string(&bp2).ok().as_deref() == Some(saved.as_str()) => {}
                    Ok(_) => return Err(Failure::new("blueprint-save-load-differs", json!({"input": input, "saved": saved}))),
                    Err(e) => return Err(Failure::new("blueprint-saved-form-rejected", json!({"input": input, "saved": saved, "error": e.to_string()}))),
                }
            }
        }
        Err(_) => {
            st.class("json:rejected");
            if text.len() >= 8 {
                st.nontrivial(text);
            }
        }
    }
    Ok(())
}

/// Sub-documents of a blueprint that are schemas / validators on their own.
fn json_fragments(bp: &str) -> Vec<String> {
    let mut out = vec![];
    if let Ok(v) = serde_json::from_str::<serde_json::Value>(bp) {
        for val in v["validators"].as_array().into_iter().flatten() {
            out.push(val.to_string());
            for k in ["datum", "redeemer"] {
                if let Some(s) = val.get(k).and_then(|d| d.get("schema")) {
                    out.push(s.to_string());
                }
            }
        }
        for (_, d) in v["definitions"].as_object().into_iter().flatten() {
            out.push(d.to_string());
        }
    }
    out
}

fn toml_text(text: &str, dir: &Path, st: &mut Stats) -> CheckResult {
    let input = json!({"toml": text});
    let _ = std::fs::create_dir_all(dir);
    std::fs::write(dir.join("aiken.toml"), text).map_err(|e| Failure::new("harness-io", json!(e.to_string())))?;
    let r = no_panic(|| aiken_project::config::ProjectConfig::load(dir).map(|_| ())).map_err(|p| panic_failure("ProjectConfig::load", p, input.clone()))?;
    let _ = no_panic(|| aiken_project::config::WorkspaceConfig::load(dir).map(|_| ())).map_err(|p| panic_failure("WorkspaceConfig::load", p, input.clone()))?;
    match r {
        Ok(()) => {
            st.class("toml:accepted");
            st.nontrivial(text);
        }
        Err(e) => {
            st.class("toml:rejected");
            // rendering the diagnostic must not panic
            let _ = no_panic(|| format!("{e:?}").len()).map_err(|p| panic_failure("config::Error::fmt", p, input.clone()))?;
            if text.len() >= 8 {
                st.nontrivial(text);
            }
        }
    }
    Ok(())
}

fn all_parameters(bp: &Blueprint) -> Vec<(Parameter, Definitions<Annotated<Schema>>)> {
    let mut out = vec![];
    for v in &bp.validators {
        for p in v.parameters.iter().chain(v.datum.iter()).chain(v.redeemer.iter()) {
            out.push((p.clone(), bp.definitions.clone()));
        }
    }
    out
}

pub fn run(cx: &mut Cx) -> String {
    let tier = cx.tier;
    cx.crashy = true;
    let seeds = load_seeds();
    cx.note(format!(
        "seeds: {} uplc texts, {} .ak sources, {} blueprints, {} aiken.toml",
        seeds.uplc_texts.len(),
        seeds.ak_sources.len(),
        seeds.blueprints.len(),
        seeds.tomls.len()
    ));
    if seeds.uplc_texts.is_empty() || seeds.ak_sources.is_empty() || seeds.blueprints.is_empty() {
        cx.note("seed corpus missing under /repo: generated seeds only");
    }

    // 1. binary decoders: mutations of valid encodings
    cx.prop("binary-mutation", tier.of(600_000, 12_000_000), 300, |src, st| {
        st.eval();
        let mk = |src: &mut Src| {
            let mut fuel = 1 + src.below(25);
            let base = gu::gen_chaotic(src, 0, &mut fuel, true);
            let t = enrich(src, &base, false);
            let form = src.below(4);
            let version = (1, src.below(2), 0);
            let bytes = match form {
                0 => Program { version, term: t.to_db() }.to_flat(),
                1 => Program { version, term: t.to_ndb() }.to_flat(),
                2 => Program { version, term: t.to_named() }.to_flat(),
                _ => Program { version, term: t.to_db() }.to_cbor(),
            };
            bytes.unwrap_or_default()
        };
        let a = mk(src);
        let b = mk(src);
        let m = if src.chance(1, 10) {
            let n = 1 + src.below(40);
            src.bytes(n)
        } else {
            mutate(src, &a, &b)
        };
        decode_all(&m, st)
    });

    // 2. UPLC text
    let texts = &seeds.uplc_texts;
    cx.prop("uplc-text-mutation", tier.of(200_000, 4_000_000), 300, |src, st| {
        st.eval();
        let pick = |src: &mut Src| -> String {
            if !texts.is_empty() && src.chance(1, 2) {
                src.pick(texts).clone()
            } else {
                let mut fuel = 1 + src.below(20);
                let base = gu::gen_chaotic(src, 0, &mut fuel, false);
                let t = enrich(src, &base, true);
                Program { version: (1, 1, 0), term: t.to_named() }.to_pretty()
            }
        };
        let a = pick(src);
        let b = pick(src);
        let m = if src.chance(1, 6) {
            // builtin names with one letter changed
            let all = gu::all_builtins();
            let mut name = src.pick(&all).to_string();
            if !name.is_empty() {
                let i = src.below(name.len());
                if name.is_char_boundary(i) && name.is_char_boundary(i + 1) {
                    name.replace_range(i..i + 1, *src.pick(&["x", "", "A", "_", "1"]));
                }
            }
            format!("(program 1.1.0 [(builtin {name}) (con integer 1)])")
        } else {
            mutate_text(src, &a, &b)
        };
        uplc_text(&m, st)
    });

    // 3. Aiken lexer / parser / formatter
    let aks = &seeds.ak_sources;
    if !aks.is_empty() {
        cx.prop("aiken-text-mutation", tier.of(40_000, 800_000), 300, |src, st| {
            st.eval();
            let a = src.pick(aks);
            let b = src.pick(aks);
            // cut a window so cases stay small and fast
            let cut = |src: &mut Src, s: &str| -> String {
                if s.len() < 1500 || src.chance(1, 4) {
                    return s.to_string();
                }
                let start = src.below(s.len() - 1000);
                let mut i = start;
                while !s.is_char_boundary(i) {
                    i += 1;
                }
                let mut j = (i + 1000).min(s.len());
                while !s.is_char_boundary(j) {
                    j -= 1;
                }
                s[i..j].to_string()
            };
            let a = cut(src, a);
            let m = mutate_text(src, &a, b);
            aiken_text(&m, st)
        });
    }

    // 4. JSON: blueprints, validators, schemas
    let mut jsons: Vec<String> = seeds.blueprints.clone();
    for bp in &seeds.blueprints {
        jsons.extend(json_fragments(bp));
    }
    if !jsons.is_empty() {
        cx.prop("json-mutation", tier.of(60_000, 1_200_000), 300, |src, st| {
            st.eval();
            let a = src.pick(&jsons);
            let b = src.pick(&jsons);
            let m = if src.chance(1, 8) { a.clone() } else { mutate_text(src, a, b) };
            json_text(&m, st)
        });
    }

    // 5. arbitrary data against every published schema
    let params: Vec<(Parameter, Definitions<Annotated<Schema>>)> = seeds
        .blueprints
        .iter()
        .filter_map(|s| serde_json::from_str::<Blueprint>(s).ok())
        .flat_map(|bp| all_parameters(&bp))
        .collect();
    if !params.is_empty() {
        cx.prop("parameter-validate-arbitrary-data", tier.of(200_000, 4_000_000), 200, |src, st| {
            st.eval();
            let (param, defs) = src.pick(&params);
            let exotic = src.bool();
            let d = consts::gen_data_with(src, 4, true, exotic);
            let c = if src.chance(1, 10) {
                crate::props::c15::gen_any_const(src, 2, false)
            } else {
                Constant::Data(d)
            };
            let input = json!({"parameter": param.title, "schema": serde_json::to_value(&param.schema).unwrap_or_default(), "constant": consts::show_const(&c)});
            let r = no_panic(|| param.validate(defs, &c)).map_err(|p| panic_failure("Parameter::validate", p, input.clone()))?;
            st.class(if r.is_ok() { "validate:accepted" } else { "validate:rejected" });
            st.sample(|| json!({"entry": "Parameter::validate", "outcome": if r.is_ok() { "accepted" } else { "rejected" }, "input": input}));
            if let Err(e) = r {
                let _ = no_panic(|| format!("{e:?}").len()).map_err(|p| panic_failure("blueprint::Error::fmt", p, input.clone()))?;
            }
            st.nontrivial(&(param.title.clone(), consts::show_const(&c)));
            Ok(())
        });
    }

    // 5.b fixed regression grid (worker 0, every run, independent of generator details): the
    // inputs that exposed earlier (now repaired) defects, and every (tag, field count) pair
    // against every shipped schema
    if !cx.is_replay() && cx.worker == 0 {
        for hx in ["ff010000085bffffffffffffffff08000008080401", "01000034800d28", "ff0100ffffffffffffffffffff01", "010000ffffffffffffffffffffff0101"] {
            let bytes = hex::decode(hx).unwrap();
            cx.direct("regression-bytes", &json!({"hex": hx}), |st| {
                st.eval();
                decode_all(&bytes, st)
            });
        }
        for (i, (param, defs)) in params.iter().enumerate() {
            for tag in 0..4u64 {
                for nfields in 0..5usize {
                    let d = uplc::ast::Data::constr(tag, (0..nfields).map(|k| consts::pd_int(&BigInt::from(k as i64 - 3))).collect());
                    let c = Constant::Data(d);
                    let input = json!({"parameter": param.title, "index": i, "tag": tag, "fields": nfields});
                    cx.direct("regression-tag-arity-grid", &input, |st| {
                        st.eval();
                        let r = no_panic(|| param.validate(defs, &c)).map_err(|p| panic_failure("Parameter::validate", p, input.clone()))?;
                        st.class(if r.is_ok() { "validate:accepted" } else { "validate:rejected" });
                        Ok(())
                    });
                }
            }
        }
    }

    // 6. aiken.toml
    let tomls = &seeds.tomls;
    if !tomls.is_empty() {
        let dir = cx.workdir.join(format!("toml-{}", cx.worker));
        cx.prop("toml-mutation", tier.of(20_000, 300_000), 200, |src, st| {
            st.eval();
            let a = src.pick(tomls);
            let b = src.pick(tomls);
            let m = mutate_text(src, a, b);
            toml_text(&m, &dir, st)
        });
    }

    // 7. deep nesting, modest size: must not overflow the stack up to depth 2000
    if !cx.is_replay() || cx.replay_input("deep-nesting").is_some() {
        let replay = cx.replay_input("deep-nesting");
        let shapes = ["uplc-delay", "uplc-lam", "uplc-apply", "uplc-force", "uplc-list-type", "aiken-parens", "aiken-list", "aiken-not", "json-array", "flat-delay", "flat-apply", "data-list"];
        let mut k = 0u64;
        let depths: Vec<usize> = match &replay {
            Some(r) => vec![r["depth"].as_u64().unwrap_or(200) as usize],
            None => vec![200, 1000, 2000],
        };
        for depth in depths {
            for shape in shapes {
                k += 1;
                let input = json!({"shape": shape, "depth": depth});
                if let Some(r) = &replay {
                    if *r != input {
                        continue;
                    }
                } else if !cx.mine(k) {
                    continue;
                }
                cx.direct("deep-nesting", &input, |st| {
                    st.eval();
                    st.nontrivial(&(shape, depth));
                    deep_case(shape, depth, st)
                });
            }
        }
    }

    cx.crashy = false;
    RULE.to_string()
}

fn deep_case(shape: &str, depth: usize, st: &mut Stats) -> CheckResult {
    let rep = |open: &str, inner: &str, close: &str| -> String {
        let mut s = String::with_capacity(depth * (open.len() + close.len()) + inner.len());
        for _ in 0..depth {
            s.push_str(open);
        }
        s.push_str(inner);
        for _ in 0..depth {
            s.push_str(close);
        }
        s
    };
    match shape {
        "uplc-delay" => uplc_text(&format!("(program 1.1.0 {})", rep("(delay ", "(con integer 1)", ")")), st),
        "uplc-lam" => uplc_text(&format!("(program 1.1.0 {})", rep("(lam x ", "x", ")")), st),
        "uplc-apply" => uplc_text(&format!("(program 1.1.0 {})", rep("[(lam x x) ", "(con integer 1)", "]")), st),
        "uplc-force" => uplc_text(&format!("(program 1.1.0 {})", rep("(force ", "(con integer 1)", ")")), st),
        "uplc-list-type" => uplc_text(&format!("(program 1.1.0 (con {} {}))", rep("(list ", "integer", ")"), rep("[", "", "]")), st),
        "aiken-parens" => {
            // probe for the known finding: time a 9-deep and a 17-deep parenthesised literal
            let time = |d: usize| {
                let src = format!("fn f() {{ {}1{} }}", "(".repeat(d), ")".repeat(d));
                let t = std::time::Instant::now();
                let _ = no_panic(|| aiken_lang::parser::module(&src, ModuleKind::Validator).map(|_| ()));
                t.elapsed().as_secs_f64()
            };
            let (t9, t17) = (time(9), time(17));
            if t17 > 1.0 && t17 > 30.0 * t9 {
                return Err(Failure::new(
                    "slow:aiken-parser:nested-parens",
                    json!({"input": {"shape": shape, "depth": depth}, "seconds_depth_9": t9, "seconds_depth_17": t17,
                           "note": "parse time of `((..(1)..))` doubles per nesting level (tuple and parenthesised-block alternatives both re-parse the inner expression)"}),
                ));
            }
            aiken_text(&format!("fn f() {{ {} }}", rep("(", "1", ")")), st)
        }
        "aiken-list" => aiken_text(&format!("const x = {}", rep("[", "", "]")), st),
        "aiken-not" => aiken_text(&format!("fn f() {{ {}True }}", "!".repeat(depth)), st),
        "json-array" => json_text(&rep("[", "", "]"), st),
        "flat-delay" | "flat-apply" => {
            // build the flat bytes directly: version 1.1.0 then `depth` term tags
            let mut bits: Vec<bool> = vec![];
            let push_byte = |bits: &mut Vec<bool>, b: u8| {
                for i in (0..8).rev() {
                    bits.push((b >> i) & 1 == 1);
                }
            };
            for v in [1u8, 1, 0] {
                push_byte(&mut bits, v);
            }
            let tag = |bits: &mut Vec<bool>, t: u8| {
                for i in (0..4).rev() {
                    bits.push((t >> i) & 1 == 1);
                }
            };
            for _ in 0..depth {
                if shape == "flat-delay" {
                    tag(&mut bits, 1);
                } else {
                    tag(&mut bits, 3);
                    tag(&mut bits, 6); // function position: error
                }
            }
            tag(&mut bits, 6);
            // padding
            while bits.len() % 8 != 7 {
                bits.push(false);
            }
            bits.push(true);
            let bytes: Vec<u8> = bits.chunks(8).map(|c| c.iter().fold(0u8, |a, b| (a << 1) | *b as u8)).collect();
            decode_all(&bytes, st)
        }
        "data-list" => {
            // CBOR: depth nested definite arrays of length 1 around an integer, as a Data constant
            let mut cbor = vec![0x81u8; depth];
            cbor.push(0x01);
            let input = json!({"cbor_depth": depth});
            let r = no_panic(|| {
                use pallas_primitives::Fragment;
                pallas_primitives::alonzo::PlutusData::decode_fragment(&cbor).map(|d| {
                    // what `blueprint apply` does with a user-supplied parameter
                    let c = Constant::Data(d);
                    let _ = consts::show_const(&c).len();
                })
            })
            .map_err(|p| panic_failure("PlutusData::decode_fragment", p, input))?;
            st.class(if r.is_ok() { "data:accepted" } else { "data:rejected" });
            Ok(())
        }
        _ => Ok(()),
    }
}

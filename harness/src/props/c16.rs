//! C16 — property tests are reproducible and their counterexamples are real.
//! Model-based (M-FUZZ): fuzzers are assembled from a combinator grammar over an in-harness Aiken
//! PRNG library that follows the `Prng` protocol; the same term is also interpreted in Rust, both
//! in seeded mode (own BLAKE2b) and in replay mode, and every property is also a Rust predicate.
//! Verdict, iteration count and labels of `PropertyTest::run` must be the model's; the reported
//! counterexample must replay to itself (through the framework and through the model), falsify
//! the property, and be no larger than the first failing case in shortlex order.
use crate::aik::Proj;
use crate::engine::*;
use crate::model::blake2b::blake2b;
use crate::model::interp::D;
use aiken_lang::ast::{Definition, ModuleKind, OnTestFailure, TraceLevel, Tracing};
use aiken_lang::plutus_version::PlutusVersion;
use aiken_lang::test_framework::{Prng, PropertyTest, RunnableKind, Test, TestResult};
use serde_json::{Value as J, json};
use std::collections::BTreeMap;

pub const ASSUMPTIONS: &[&str] = &[
    "fuzzers are well formed in the sense the framework documents: in seeded mode they never return None, and replaying the choices recorded by a seeded run regenerates the same value; within that, they may consume a data-dependent number of choices, consume none, crash, or return None on replay for choice sequences no seeded run can produce",
    "the PRNG protocol is the one `Prng::from_seed / from_choices / from_result` define (Seeded {seed, choices newest first}, Replayed {cursor, choices}); the in-harness library implements `rand` as: choice = first byte of the seed, next seed = blake2b_256(seed)",
    "labels are the traces starting with a NUL byte, counted once per execution of the main loop (not during simplification)",
    "expectations as documented in the CHANGELOG (v1.0.29): plain = fails on the first failing execution; `fail` = every execution must fail, a passing execution is the counterexample; `fail once` = succeeds as soon as one execution fails",
    "a hang of the simplifier is reported by the supervisor's watchdog as inconclusive (exit 2), not as a violation",
];

pub const RULE: &str = "fuzzer terms of depth <= 4 over {constant, byte, byte below m (rejects larger bytes on replay), byte padded with a default when the replayed choices are exhausted, two-byte integer, map (+ * mod), map2, choose (one branch consumes more), and_then with a data-dependent number of draws, retry-until (bounded), crash-on-value, fixed-length and continue-byte lists, option, pair} x predicates over the generated type (thresholds, modular, membership, length, sum, sortedness, equality of components, always true / false, crashing `expect`) with optional labels x seeds x n in {1, 5, 30, 100} x {plain, fail, fail once}. Non-trivial = a counterexample was found and simplification changed its choice sequence, for a fuzzer that draws a data-dependent number of choices or can reject on replay; distinct by (fuzzer, predicate, expectation, seed, n).";

const LIB: &str = r#"use aiken/builtin

fn rand(prng: PRNG) -> Option<(PRNG, Int)> {
  when prng is {
    Seeded { seed, choices } -> {
      let choice = builtin.index_bytearray(seed, 0)
      Some(
        (
          Seeded {
            seed: builtin.blake2b_256(seed),
            choices: builtin.cons_bytearray(choice, choices),
          },
          choice,
        ),
      )
    }
    Replayed { cursor, choices } ->
      if cursor >= 1 {
        let cursor = cursor - 1
        Some((Replayed { cursor, choices }, builtin.index_bytearray(choices, cursor)))
      } else {
        None
      }
  }
}

fn rand_below(m: Int) -> Fuzzer<Int> {
  fn(prng) {
    when prng is {
      Seeded { seed, choices } -> {
        let choice = builtin.index_bytearray(seed, 0) % m
        Some(
          (
            Seeded {
              seed: builtin.blake2b_256(seed),
              choices: builtin.cons_bytearray(choice, choices),
            },
            choice,
          ),
        )
      }
      Replayed { cursor, choices } ->
        if cursor >= 1 {
          let cursor = cursor - 1
          let choice = builtin.index_bytearray(choices, cursor)
          if choice < m {
            Some((Replayed { cursor, choices }, choice))
          } else {
            None
          }
        } else {
          None
        }
    }
  }
}

fn rand_or(default: Int) -> Fuzzer<Int> {
  fn(prng) {
    when prng is {
      Seeded { .. } -> rand(prng)
      Replayed { cursor, .. } ->
        if cursor >= 1 {
          rand(prng)
        } else {
          Some((prng, default))
        }
    }
  }
}

fn constant(a: a) -> Fuzzer<a> {
  fn(s0) { Some((s0, a)) }
}

fn map(fa: Fuzzer<a>, f: fn(a) -> b) -> Fuzzer<b> {
  fn(s0) {
    when fa(s0) is {
      Some((s1, a)) -> Some((s1, f(a)))
      None -> None
    }
  }
}

fn map2(fa: Fuzzer<a>, fb: Fuzzer<b>, f: fn(a, b) -> c) -> Fuzzer<c> {
  fn(s0) {
    when fa(s0) is {
      Some((s1, a)) ->
        when fb(s1) is {
          Some((s2, b)) -> Some((s2, f(a, b)))
          None -> None
        }
      None -> None
    }
  }
}

fn and_then(fa: Fuzzer<a>, f: fn(a) -> Fuzzer<b>) -> Fuzzer<b> {
  fn(s0) {
    when fa(s0) is {
      Some((s1, a)) -> f(a)(s1)
      None -> None
    }
  }
}

fn choose(fa: Fuzzer<a>, fb: Fuzzer<a>) -> Fuzzer<a> {
  fn(s0) {
    when rand(s0) is {
      Some((s1, c)) ->
        if c < 128 {
          fa(s1)
        } else {
          fb(s1)
        }
      None -> None
    }
  }
}

fn option(fa: Fuzzer<a>) -> Fuzzer<Option<a>> {
  fn(s0) {
    when rand(s0) is {
      Some((s1, c)) ->
        if c % 2 == 0 {
          Some((s1, None))
        } else {
          when fa(s1) is {
            Some((s2, a)) -> Some((s2, Some(a)))
            None -> None
          }
        }
      None -> None
    }
  }
}

fn retry(fa: Fuzzer<Int>, m: Int, tries: Int, default: Int) -> Fuzzer<Int> {
  if tries <= 0 {
    constant(default)
  } else {
    fn(s0) {
      when fa(s0) is {
        Some((s1, a)) ->
          if a % m != 0 {
            Some((s1, a))
          } else {
            retry(fa, m, tries - 1, default)(s1)
          }
        None -> None
      }
    }
  }
}

fn crash_on(fa: Fuzzer<Int>, k: Int) -> Fuzzer<Int> {
  fn(s0) {
    when fa(s0) is {
      Some((s1, a)) ->
        if a == k {
          fail @"fuzzer crash"
        } else {
          Some((s1, a))
        }
      None -> None
    }
  }
}

fn list_len(n: Int, fa: Fuzzer<a>) -> Fuzzer<List<a>> {
  if n <= 0 {
    constant([])
  } else {
    fn(s0) {
      when fa(s0) is {
        Some((s1, a)) ->
          when list_len(n - 1, fa)(s1) is {
            Some((s2, r)) -> Some((s2, [a, ..r]))
            None -> None
          }
        None -> None
      }
    }
  }
}

fn list_while(threshold: Int, fuel: Int, fa: Fuzzer<a>) -> Fuzzer<List<a>> {
  if fuel <= 0 {
    constant([])
  } else {
    fn(s0) {
      when rand(s0) is {
        Some((s1, c)) ->
          if c < threshold {
            Some((s1, []))
          } else {
            when fa(s1) is {
              Some((s2, a)) ->
                when list_while(threshold, fuel - 1, fa)(s2) is {
                  Some((s3, r)) -> Some((s3, [a, ..r]))
                  None -> None
                }
              None -> None
            }
          }
        None -> None
      }
    }
  }
}

fn sum(xs: List<Int>) -> Int {
  when xs is {
    [] -> 0
    [x, ..r] -> x + sum(r)
  }
}

fn len(xs: List<a>) -> Int {
  when xs is {
    [] -> 0
    [_, ..r] -> 1 + len(r)
  }
}

fn elem(k: Int, xs: List<Int>) -> Bool {
  when xs is {
    [] -> False
    [x, ..r] -> x == k || elem(k, r)
  }
}

fn sorted(xs: List<Int>) -> Bool {
  when xs is {
    [] -> True
    [_] -> True
    [a, b, ..r] -> a <= b && sorted([b, ..r])
  }
}

fn dep(fa: Fuzzer<Int>) -> Fuzzer<Int> {
  and_then(fa, fn(n) { map(list_len(n % 4, rand), sum) })
}

fn lbl(s: String) -> Bool {
  trace builtin.append_string(builtin.decode_utf8(#"00"), s)
  True
}
"#;

// ------------------------------------------------------------------ fuzzer terms

#[derive(Clone, Debug)]
enum F {
    Const(i64),
    Rand,
    Below(i64),
    /// a byte; on replay an exhausted choice sequence is padded with the default
    RandOr(i64),
    Wide,
    Add(Box<F>, i64),
    Mul(Box<F>, i64),
    Mod(Box<F>, i64),
    Plus(Box<F>, Box<F>),
    Minus(Box<F>, Box<F>),
    Choose(Box<F>, Box<F>),
    Dep(Box<F>),
    Retry(Box<F>, i64, i64),
    CrashOn(Box<F>, i64),
}

#[derive(Clone, Debug)]
enum FA {
    I(F),
    ListLen(F, F),
    ListWhile(i64, i64, F),
    Pair(F, F),
    Opt(F),
}

#[derive(Clone, Debug, PartialEq)]
enum Val {
    I(i64),
    L(Vec<i64>),
    P(i64, i64),
    O(Option<i64>),
}

impl Val {
    fn to_d(&self) -> D {
        match self {
            Val::I(i) => D::I((*i).into()),
            Val::L(xs) => D::L(xs.iter().map(|i| D::I((*i).into())).collect()),
            Val::P(a, b) => D::L(vec![D::I((*a).into()), D::I((*b).into())]),
            Val::O(None) => D::C(1, vec![]),
            Val::O(Some(i)) => D::C(0, vec![D::I((*i).into())]),
        }
    }
}

impl F {
    fn text(&self) -> String {
        match self {
            F::Const(k) => format!("constant({k})"),
            F::Rand => "rand".into(),
            F::Below(m) => format!("rand_below({m})"),
            F::RandOr(d) => format!("rand_or({d})"),
            F::Wide => "map2(rand, rand, fn(a, b) { a * 256 + b })".into(),
            F::Add(f, k) => format!("map({}, fn(x) {{ x + {k} }})", f.text()),
            F::Mul(f, k) => format!("map({}, fn(x) {{ x * {k} }})", f.text()),
            F::Mod(f, k) => format!("map({}, fn(x) {{ x % {k} }})", f.text()),
            F::Plus(a, b) => format!("map2({}, {}, fn(a, b) {{ a + b }})", a.text(), b.text()),
            F::Minus(a, b) => format!("map2({}, {}, fn(a, b) {{ a - b }})", a.text(), b.text()),
            F::Choose(a, b) => format!("choose({}, {})", a.text(), b.text()),
            F::Dep(f) => format!("dep({})", f.text()),
            F::Retry(f, m, d) => format!("retry({}, {m}, 3, {d})", f.text()),
            F::CrashOn(f, k) => format!("crash_on({}, {k})", f.text()),
        }
    }
    /// draws a data-dependent number of choices or may reject on replay
    fn interesting(&self) -> bool {
        match self {
            F::Const(_) | F::Rand | F::Wide => false,
            F::Below(_) | F::RandOr(_) | F::Choose(..) | F::Dep(_) | F::Retry(..) | F::CrashOn(..) => true,
            F::Add(f, _) | F::Mul(f, _) | F::Mod(f, _) => f.interesting(),
            F::Plus(a, b) | F::Minus(a, b) => a.interesting() || b.interesting(),
        }
    }
}

impl FA {
    fn text(&self) -> String {
        match self {
            FA::I(f) => f.text(),
            FA::ListLen(n, e) => format!("and_then({}, fn(n) {{ list_len(n % 6, {}) }})", n.text(), e.text()),
            FA::ListWhile(t, fuel, e) => format!("list_while({t}, {fuel}, {})", e.text()),
            FA::Pair(a, b) => format!("map2({}, {}, fn(a, b) {{ (a, b) }})", a.text(), b.text()),
            FA::Opt(f) => format!("option({})", f.text()),
        }
    }
    fn interesting(&self) -> bool {
        match self {
            FA::I(f) => f.interesting(),
            FA::ListLen(..) | FA::ListWhile(..) | FA::Opt(_) => true,
            FA::Pair(a, b) => a.interesting() || b.interesting(),
        }
    }
}

// ------------------------------------------------------------------ the model of the PRNG

trait Draws {
    fn rand(&mut self) -> Option<i64>;
    fn rand_or(&mut self, default: i64) -> Option<i64>;
    fn below(&mut self, m: i64) -> Option<i64>;
}

struct Seeded {
    seed: Vec<u8>,
    choices: Vec<u8>, // oldest first
}

impl Draws for Seeded {
    fn rand(&mut self) -> Option<i64> {
        let c = self.seed[0];
        self.seed = blake2b(&self.seed, 32);
        self.choices.push(c);
        Some(c as i64)
    }
    fn rand_or(&mut self, _default: i64) -> Option<i64> {
        self.rand()
    }
    fn below(&mut self, m: i64) -> Option<i64> {
        let c = (self.seed[0] as i64 % m) as u8;
        self.seed = blake2b(&self.seed, 32);
        self.choices.push(c);
        Some(c as i64)
    }
}

struct Replay<'a> {
    choices: &'a [u8],
    pos: usize,
}

impl Draws for Replay<'_> {
    fn rand(&mut self) -> Option<i64> {
        let c = *self.choices.get(self.pos)?;
        self.pos += 1;
        Some(c as i64)
    }
    fn rand_or(&mut self, default: i64) -> Option<i64> {
        match self.choices.get(self.pos) {
            Some(c) => {
                self.pos += 1;
                Some(*c as i64)
            }
            None => Some(default),
        }
    }
    fn below(&mut self, m: i64) -> Option<i64> {
        let c = *self.choices.get(self.pos)? as i64;
        self.pos += 1;
        if c < m { Some(c) } else { None }
    }
}

/// Err(()) = the fuzzer crashes; Ok(None) = the fuzzer returns None
type R<T> = Result<Option<T>, ()>;

macro_rules! tri {
    ($e:expr) => {
        match $e? {
            Some(x) => x,
            None => return Ok(None),
        }
    };
}

fn run_f(f: &F, d: &mut dyn Draws) -> R<i64> {
    Ok(Some(match f {
        F::Const(k) => *k,
        F::Rand => tri!(Ok::<_, ()>(d.rand())),
        F::Below(m) => tri!(Ok::<_, ()>(d.below(*m))),
        F::RandOr(k) => tri!(Ok::<_, ()>(d.rand_or(*k))),
        F::Wide => {
            let a = tri!(Ok::<_, ()>(d.rand()));
            let b = tri!(Ok::<_, ()>(d.rand()));
            a * 256 + b
        }
        F::Add(f, k) => tri!(run_f(f, d)) + k,
        F::Mul(f, k) => tri!(run_f(f, d)) * k,
        F::Mod(f, k) => tri!(run_f(f, d)).rem_euclid(*k),
        F::Plus(a, b) => {
            let x = tri!(run_f(a, d));
            let y = tri!(run_f(b, d));
            x + y
        }
        F::Minus(a, b) => {
            let x = tri!(run_f(a, d));
            let y = tri!(run_f(b, d));
            x - y
        }
        F::Choose(a, b) => {
            let c = tri!(Ok::<_, ()>(d.rand()));
            if c < 128 { tri!(run_f(a, d)) } else { tri!(run_f(b, d)) }
        }
        F::Dep(f) => {
            let n = tri!(run_f(f, d)).rem_euclid(4);
            let mut s = 0;
            for _ in 0..n {
                s += tri!(Ok::<_, ()>(d.rand()));
            }
            s
        }
        F::Retry(f, m, default) => {
            let mut out = *default;
            let mut found = false;
            for _ in 0..3 {
                let a = tri!(run_f(f, d));
                if a.rem_euclid(*m) != 0 {
                    out = a;
                    found = true;
                    break;
                }
            }
            let _ = found;
            out
        }
        F::CrashOn(f, k) => {
            let a = tri!(run_f(f, d));
            if a == *k {
                return Err(());
            }
            a
        }
    }))
}

fn run_fa(f: &FA, d: &mut dyn Draws) -> R<Val> {
    Ok(Some(match f {
        FA::I(f) => Val::I(tri!(run_f(f, d))),
        FA::ListLen(n, e) => {
            let n = tri!(run_f(n, d)).rem_euclid(6);
            let mut xs = vec![];
            for _ in 0..n {
                xs.push(tri!(run_f(e, d)));
            }
            Val::L(xs)
        }
        FA::ListWhile(t, fuel, e) => {
            let mut xs = vec![];
            for _ in 0..*fuel {
                let c = tri!(Ok::<_, ()>(d.rand()));
                if c < *t {
                    break;
                }
                xs.push(tri!(run_f(e, d)));
            }
            Val::L(xs)
        }
        FA::Pair(a, b) => {
            let x = tri!(run_f(a, d));
            let y = tri!(run_f(b, d));
            Val::P(x, y)
        }
        FA::Opt(f) => {
            let c = tri!(Ok::<_, ()>(d.rand()));
            if c % 2 == 0 { Val::O(None) } else { Val::O(Some(tri!(run_f(f, d)))) }
        }
    }))
}

// ------------------------------------------------------------------ predicates

#[derive(Clone, Debug)]
enum P {
    True,
    False,
    Lt(i64),
    Ge(i64),
    Ne(i64),
    ModNe(i64, i64),
    ExpectLt(i64),
    LenLt(i64),
    SumLt(i64),
    NotElem(i64),
    Sorted,
    PairNe,
    PairSumLt(i64),
    PairLe,
    OptNeSome(i64),
    OptIsNone,
}

#[derive(Clone, Copy, Debug, PartialEq)]
enum Verdict {
    Pass,
    Fail, // returns False or crashes
}

impl P {
    fn text(&self) -> String {
        match self {
            P::True => "True".into(),
            P::False => "False".into(),
            P::Lt(k) => format!("x < {k}"),
            P::Ge(k) => format!("x >= {k}"),
            P::Ne(k) => format!("x != {k}"),
            P::ModNe(m, r) => format!("x % {m} != {r}"),
            P::ExpectLt(k) => format!("{{\n    expect x < {k}\n    True\n  }}"),
            P::LenLt(k) => format!("len(x) < {k}"),
            P::SumLt(k) => format!("sum(x) < {k}"),
            P::NotElem(k) => format!("!elem({k}, x)"),
            P::Sorted => "sorted(x)".into(),
            P::PairNe => "x.1st != x.2nd".into(),
            P::PairSumLt(k) => format!("x.1st + x.2nd < {k}"),
            P::PairLe => "x.1st <= x.2nd".into(),
            P::OptNeSome(k) => format!("x != Some({k})"),
            P::OptIsNone => "x == None".into(),
        }
    }
    fn holds(&self, v: &Val) -> bool {
        match (self, v) {
            (P::True, _) => true,
            (P::False, _) => false,
            (P::Lt(k), Val::I(x)) | (P::ExpectLt(k), Val::I(x)) => x < k,
            (P::Ge(k), Val::I(x)) => x >= k,
            (P::Ne(k), Val::I(x)) => x != k,
            (P::ModNe(m, r), Val::I(x)) => x.rem_euclid(*m) != *r,
            (P::LenLt(k), Val::L(xs)) => (xs.len() as i64) < *k,
            (P::SumLt(k), Val::L(xs)) => xs.iter().sum::<i64>() < *k,
            (P::NotElem(k), Val::L(xs)) => !xs.contains(k),
            (P::Sorted, Val::L(xs)) => xs.windows(2).all(|w| w[0] <= w[1]),
            (P::PairNe, Val::P(a, b)) => a != b,
            (P::PairSumLt(k), Val::P(a, b)) => a + b < *k,
            (P::PairLe, Val::P(a, b)) => a <= b,
            (P::OptNeSome(k), Val::O(o)) => *o != Some(*k),
            (P::OptIsNone, Val::O(o)) => o.is_none(),
            _ => unreachable!("predicate / value type mismatch"),
        }
    }
}

/// label condition (over the same value), or none
#[derive(Clone, Debug)]
enum Lab {
    None,
    Always,
    Split(P),
}

impl Lab {
    fn labels(&self, v: &Val) -> Vec<String> {
        match self {
            Lab::None => vec![],
            Lab::Always => vec!["seen".into()],
            Lab::Split(p) => vec![if p.holds(v) { "yes".into() } else { "no".into() }],
        }
    }
}

// ------------------------------------------------------------------ generation

fn gen_f(src: &mut Src, depth: usize) -> F {
    if depth == 0 {
        return match src.weighted(&[2, 5, 3, 2, 2]) {
            0 => F::Const(*src.pick(&[0i64, 1, 7, 100, -3])),
            1 => F::Rand,
            2 => F::Below(*src.pick(&[2i64, 3, 10, 100, 200])),
            3 => F::Wide,
            _ => F::RandOr(*src.pick(&[0i64, 1, 255, 7])),
        };
    }
    let sub = |src: &mut Src| Box::new(gen_f(src, depth - 1));
    match src.weighted(&[3, 2, 2, 2, 2, 1, 3, 3, 2, 2]) {
        0 => gen_f(src, 0),
        1 => F::Add(sub(src), *src.pick(&[1i64, -1, 10, -100, 1000])),
        2 => F::Mul(sub(src), *src.pick(&[2i64, 3, -1, 7])),
        3 => F::Mod(sub(src), *src.pick(&[2i64, 3, 10, 7])),
        4 => F::Plus(sub(src), sub(src)),
        5 => F::Minus(sub(src), sub(src)),
        6 => F::Choose(sub(src), sub(src)),
        7 => F::Dep(sub(src)),
        8 => F::Retry(sub(src), *src.pick(&[2i64, 3, 5]), *src.pick(&[1i64, 7, 11])),
        _ => {
            if src.bool() {
                // a crash that seeded runs hit often: one residue out of ten
                F::CrashOn(Box::new(F::Mod(sub(src), 10)), src.below(10) as i64)
            } else {
                F::CrashOn(sub(src), *src.pick(&[0i64, 3, 255, 13, 500]))
            }
        }
    }
}

fn gen_fa(src: &mut Src) -> FA {
    let d = src.below(3);
    match src.weighted(&[5, 2, 3, 2, 2]) {
        0 => FA::I(gen_f(src, d + 1)),
        1 => FA::ListLen(gen_f(src, d.min(1)), gen_f(src, d.min(1))),
        2 => FA::ListWhile(*src.pick(&[32i64, 64, 128, 200]), 2 + src.below(7) as i64, gen_f(src, d.min(1))),
        3 => FA::Pair(gen_f(src, d), gen_f(src, d)),
        _ => FA::Opt(gen_f(src, d)),
    }
}

fn gen_p(src: &mut Src, fa: &FA, samples: &[Val]) -> P {
    // thresholds are taken from values the fuzzer actually produces so that failures are neither
    // impossible nor immediate
    let ints: Vec<i64> = samples
        .iter()
        .flat_map(|v| match v {
            Val::I(i) => vec![*i],
            Val::L(xs) => xs.iter().cloned().chain([xs.iter().sum::<i64>(), xs.len() as i64]).collect(),
            Val::P(a, b) => vec![*a, *b, a + b],
            Val::O(o) => o.iter().cloned().collect(),
        })
        .collect();
    let near = |src: &mut Src| -> i64 {
        if ints.is_empty() || src.chance(1, 6) {
            *src.pick(&[0i64, 1, 5, 100, 200, 300, -1])
        } else {
            let k = ints[src.below(ints.len())];
            k + *src.pick(&[0i64, 0, 1, -1])
        }
    };
    if src.chance(1, 10) {
        return if src.bool() { P::True } else { P::False };
    }
    match fa {
        FA::I(_) => match src.below(5) {
            0 => P::Lt(near(src)),
            1 => P::Ge(near(src)),
            2 => P::Ne(near(src)),
            3 => {
                let m = *src.pick(&[2i64, 3, 7, 10]);
                P::ModNe(m, src.below(m as usize) as i64)
            }
            _ => P::ExpectLt(near(src)),
        },
        FA::ListLen(..) | FA::ListWhile(..) => match src.below(4) {
            0 => P::LenLt(1 + src.below(5) as i64),
            1 => P::SumLt(near(src)),
            2 => P::NotElem(near(src)),
            _ => P::Sorted,
        },
        FA::Pair(..) => match src.below(3) {
            0 => P::PairNe,
            1 => P::PairSumLt(near(src)),
            _ => P::PairLe,
        },
        FA::Opt(_) => {
            if src.bool() {
                P::OptNeSome(near(src))
            } else {
                P::OptIsNone
            }
        }
    }
}

// ------------------------------------------------------------------ the check

fn shortlex_le(a: &[u8], b: &[u8]) -> bool {
    a.len() < b.len() || (a.len() == b.len() && a <= b)
}

fn compile(source: &str) -> Result<(Proj, PropertyTest), String> {
    let tracing = Tracing::All(TraceLevel::Verbose);
    let mut proj = Proj::new();
    proj.add_module("m", ModuleKind::Lib, source, tracing).map_err(|e| format!("rejected: {e:?}"))?;
    let test = proj.modules[0]
        .definitions()
        .find_map(|d| match d {
            Definition::Test(t) => Some(t.clone()),
            _ => None,
        })
        .ok_or("no test")?;
    let t = {
        let mut generator = proj.generator(PlutusVersion::V3, tracing);
        Test::from_function_definition(&mut generator, test, "m".to_string(), std::path::PathBuf::new(), RunnableKind::Test)
    };
    match t {
        Test::PropertyTest(p) => Ok((proj, p)),
        _ => Err("not a property test".into()),
    }
}

struct ModelRun {
    iterations: usize,
    labels: BTreeMap<String, usize>,
    /// first kept case: (value, choices)
    kept: Option<(Val, Vec<u8>)>,
    fuzzer_crashed: bool,
}

fn model_run(fa: &FA, p: &P, lab: &Lab, expectation: &OnTestFailure, seed: u32, n: usize) -> ModelRun {
    let mut d = Seeded { seed: blake2b(&seed.to_be_bytes(), 32), choices: vec![] };
    let mut labels = BTreeMap::new();
    for i in 1..=n {
        d.choices.clear();
        let v = match run_fa(fa, &mut d) {
            Err(()) => return ModelRun { iterations: i, labels, kept: None, fuzzer_crashed: true },
            Ok(None) => unreachable!("seeded fuzzers never return None"),
            Ok(Some(v)) => v,
        };
        for l in lab.labels(&v) {
            *labels.entry(l).or_insert(0) += 1;
        }
        let verdict = if p.holds(&v) { Verdict::Pass } else { Verdict::Fail };
        let keep = match expectation {
            OnTestFailure::FailImmediately | OnTestFailure::SucceedImmediately => verdict == Verdict::Fail,
            OnTestFailure::SucceedEventually => verdict == Verdict::Pass,
        };
        if keep {
            return ModelRun { iterations: i, labels, kept: Some((v, d.choices.clone())), fuzzer_crashed: false };
        }
    }
    ModelRun { iterations: n, labels, kept: None, fuzzer_crashed: false }
}

fn judge(src: &mut Src, st: &mut Stats) -> CheckResult {
    st.eval();
    let fa = gen_fa(src);
    let seed = if src.chance(1, 8) { *src.pick(&[0u32, 1, 42, u32::MAX]) } else { src.below(1 << 30) as u32 ^ ((src.below(4) as u32) << 30) };
    // a few seeded samples of the fuzzer, to pick thresholds from
    let mut samples = vec![];
    {
        let mut d = Seeded { seed: blake2b(&seed.to_be_bytes(), 32), choices: vec![] };
        for _ in 0..12 {
            if let Ok(Some(v)) = run_fa(&fa, &mut d) {
                samples.push(v);
            }
        }
    }
    let p = gen_p(src, &fa, &samples);
    let lab = match src.weighted(&[3, 1, 3]) {
        0 => Lab::None,
        1 => Lab::Always,
        _ => Lab::Split(gen_p(src, &fa, &samples)),
    };
    let (expectation, keyword) = match src.weighted(&[3, 2, 2]) {
        0 => (OnTestFailure::FailImmediately, ""),
        1 => (OnTestFailure::SucceedEventually, " fail"),
        _ => (OnTestFailure::SucceedImmediately, " fail once"),
    };
    let n = *src.pick(&[1usize, 5, 30, 100]);
    let lab_text = match &lab {
        Lab::None => String::new(),
        Lab::Always => "  let labelled = lbl(@\"seen\")\n".to_string(),
        Lab::Split(q) => format!("  let labelled =\n    if {} {{\n      lbl(@\"yes\")\n    }} else {{\n      lbl(@\"no\")\n    }}\n", match q {
            P::ExpectLt(k) => format!("x < {k}"),
            q => q.text(),
        }),
    };
    let body = if matches!(lab, Lab::None) { format!("  {}\n", p.text()) } else { format!("{lab_text}  labelled && {}\n", p.text()) };
    let source = format!("{LIB}\nfn the_fuzzer() {{\n  {}\n}}\n\ntest prop(x via the_fuzzer()){keyword} {{\n{body}}}\n", fa.text());
    let input = json!({"fuzzer": fa.text(), "property": p.text(), "labels": format!("{lab:?}"), "expectation": keyword.trim(), "seed": seed, "n": n});
    let (_proj, test) = match no_panic(|| compile(&source)).map_err(|pn| panic_failure("compile", pn, json!({"input": input, "source": source})))? {
        Ok(x) => x,
        Err(e) => {
            // the generator only produces well-typed programs: a rejection is a harness defect,
            // reported loudly but not as a violation of C16
            st.class(&format!("skipped:{}", e.chars().take(60).collect::<String>()));
            if std::env::var("VERIF_SHOW_REJECTS").is_ok() {
                eprintln!("---- {e}\n{}", &source[LIB.len()..]);
            }
            return Ok(());
        }
    };
    if test.on_test_failure != expectation {
        return Err(Failure::new("expectation-keyword-misparsed", json!({"input": input, "parsed": format!("{:?}", test.on_test_failure)})));
    }
    let model = model_run(&fa, &p, &lab, &expectation, seed, n);
    let version = PlutusVersion::V3;

    // ---- A. the product entry point, twice
    let r1 = no_panic(|| test.clone().run(seed, n, &version)).map_err(|pn| panic_failure("PropertyTest::run", pn, input.clone()))?;
    let r2 = no_panic(|| test.clone().run(seed, n, &version)).map_err(|pn| panic_failure("PropertyTest::run", pn, input.clone()))?;
    let show = |r: &aiken_lang::test_framework::PropertyTestResult<uplc::PlutusData>| {
        json!({"iterations": r.iterations, "labels": r.labels, "counterexample": match &r.counterexample { Ok(Some(d)) => D::from_plutus(d).show(), Ok(None) => "none".into(), Err(e) => format!("fuzzer error: {}", crate::aik::error_kind(e)) }, "logs": r.logs})
    };
    if show(&r1) != show(&r2) {
        return Err(Failure::new("two-runs-with-one-seed-differ", json!({"input": input, "first": show(&r1), "second": show(&r2)})));
    }
    st.evals(2);
    // verdict / iterations / labels against the model
    if model.fuzzer_crashed != r1.counterexample.is_err() {
        return Err(Failure::new("fuzzer-crash-mismatch", json!({"input": input, "model_fuzzer_crashed": model.fuzzer_crashed, "run": show(&r1)})));
    }
    if r1.iterations != model.iterations {
        return Err(Failure::new("iteration-count-differs-from-model", json!({"input": input, "model": model.iterations, "run": show(&r1)})));
    }
    let strip = |m: &BTreeMap<String, usize>| m.iter().map(|(k, v)| (k.trim_start_matches('\0').to_string(), *v)).collect::<BTreeMap<_, _>>();
    if strip(&r1.labels) != model.labels {
        return Err(Failure::new("labels-differ-from-model", json!({"input": input, "model": model.labels, "run": show(&r1)})));
    }
    let found = matches!(r1.counterexample, Ok(Some(_)));
    if found != model.kept.is_some() {
        return Err(Failure::new(if found { "counterexample-reported-but-model-finds-none" } else { "failure-lost" }, json!({"input": input, "model_first_kept": model.kept.as_ref().map(|(v, c)| (v.to_d().show(), c.clone())), "run": show(&r1)})));
    }
    // documented verdict table
    let result: TestResult<(uplc::ast::Constant, std::rc::Rc<aiken_lang::tipo::Type>), uplc::PlutusData> = TestResult::PropertyTestResult(r1.clone());
    let want_success = if model.fuzzer_crashed {
        false
    } else {
        match expectation {
            OnTestFailure::FailImmediately | OnTestFailure::SucceedEventually => model.kept.is_none(),
            OnTestFailure::SucceedImmediately => model.kept.is_some(),
        }
    };
    if result.is_success() != want_success {
        return Err(Failure::new("verdict-differs-from-documented-table", json!({"input": input, "is_success": result.is_success(), "expected": want_success, "run": show(&r1)})));
    }
    st.class(&format!("expectation:{}:{}", if keyword.is_empty() { "plain" } else { keyword.trim() }, if want_success { "success" } else { "failure" }));

    // ---- B. the counterexample
    let mut shrunk = false;
    if let Some((first_val, first_choices)) = &model.kept {
        let mut remaining = n;
        let mut labels = BTreeMap::new();
        let cex = no_panic(|| test.run_n_times(&mut remaining, Prng::from_seed(seed), &mut labels, &version).map(|c| c.map(|c| (c.value.clone(), c.choices.clone())))).map_err(|pn| panic_failure("run_n_times", pn, input.clone()))?;
        let (value, choices) = match cex {
            Ok(Some(x)) => x,
            _ => return Err(Failure::new("run_n_times-disagrees-with-run", json!({"input": input, "run": show(&r1)}))),
        };
        let vd = D::from_plutus(&value);
        let detail = |extra: J| json!({"input": input, "reported_value": vd.show(), "reported_choices": choices, "first_kept_value": first_val.to_d().show(), "first_kept_choices": first_choices, "more": extra});
        if r1.counterexample.as_ref().ok().and_then(|c| c.as_ref()).map(D::from_plutus) != Some(vd.clone()) {
            return Err(Failure::new("run-and-run_n_times-report-different-counterexamples", detail(show(&r1))));
        }
        // replays to itself through the framework
        let replayed = no_panic(|| Prng::from_choices(&choices).sample(&test.fuzzer.program)).map_err(|pn| panic_failure("Prng::sample", pn, input.clone()))?;
        match replayed {
            Ok(Some((_, v))) if D::from_plutus(&v) == vd => {}
            Ok(Some((_, v))) => return Err(Failure::new("recorded-choices-regenerate-another-value", detail(json!({"replayed": D::from_plutus(&v).show()})))),
            Ok(None) => return Err(Failure::new("recorded-choices-do-not-replay", detail(json!("fuzzer returned None")))),
            Err(_) => return Err(Failure::new("recorded-choices-do-not-replay", detail(json!("fuzzer crashed")))),
        }
        // ... and through the model
        let mval = run_fa(&fa, &mut Replay { choices: &choices, pos: 0 });
        let mval = match mval {
            Ok(Some(v)) => v,
            other => return Err(Failure::new("recorded-choices-do-not-replay-in-model", detail(json!(format!("{other:?}"))))),
        };
        if mval.to_d() != vd {
            return Err(Failure::new("reported-value-is-not-what-the-choices-generate", detail(json!({"model_value": mval.to_d().show()}))));
        }
        // it really is a counterexample
        let want_pass = matches!(expectation, OnTestFailure::SucceedEventually);
        if p.holds(&mval) != want_pass {
            return Err(Failure::new("reported-counterexample-does-not-falsify", detail(json!({"property_holds_on_it": p.holds(&mval)}))));
        }
        let ev = no_panic(|| test.eval(&value, &version)).map_err(|pn| panic_failure("PropertyTest::eval", pn, input.clone()))?;
        let failed = ev.failed(true, &(&version).into());
        if failed == want_pass {
            return Err(Failure::new("reported-counterexample-does-not-falsify-when-re-applied", detail(json!({"evaluation_failed": failed}))));
        }
        if ev.logs() != r1.logs {
            return Err(Failure::new("logs-are-not-those-of-the-counterexample", detail(json!({"eval_logs": ev.logs(), "reported_logs": r1.logs}))));
        }
        // no larger than the first failing case
        if !shortlex_le(&choices, first_choices) {
            return Err(Failure::new("counterexample-larger-than-first-failing-case", detail(J::Null)));
        }
        shrunk = &choices != first_choices;
        st.class(if shrunk { "counterexample:simplified" } else { "counterexample:already-minimal" });
        if shrunk && fa.interesting() {
            st.nontrivial(&(fa.text(), p.text(), keyword, seed, n));
            st.sample(|| json!({"fuzzer": fa.text(), "property": p.text(), "expectation": keyword.trim(), "seed": seed, "n": n, "first_failing_choices": first_choices, "reported_choices": choices, "reported_value": vd.show()}));
        }
    } else {
        st.class(if model.fuzzer_crashed { "fuzzer-crashed" } else { "no-counterexample" });
    }
    let _ = shrunk;
    Ok(())
}

pub fn run(cx: &mut Cx) -> String {
    let tier = cx.tier;
    if std::env::var("VERIF_BACKTRACE").is_err() && std::env::var("VERIF_SHOW_REJECTS").is_err() {
        // the simplifier prints two progress lines per counterexample on stderr
        unsafe {
            let devnull = libc::open(c"/dev/null".as_ptr(), libc::O_WRONLY);
            if devnull >= 0 {
                libc::dup2(devnull, 2);
            }
        }
    }
    cx.shrink_iters = 300;
    cx.prop("fuzzers-properties-seeds", tier.of(6_000, 150_000), 200, judge);
    RULE.to_string()
}

//! C02 — the optimiser never changes what compiler output computes.
//! Domain: every (pre, post) pair the code generator hands to / gets back from
//! `aiken_optimize_and_intern` (hook H1) while compiling generated modules; the reference program
//! is the recorded one with the `__no_inline__` markers (and nothing else) removed.
use crate::aik::{self, Outcome};
use crate::engine::*;
use crate::gen_::aiken_gen::AikCfg;
use crate::props::c01::{self, Case, CompileOutcome, norm_result};
use aiken_lang::ast::{TraceLevel, Tracing};
use serde_json::json;

pub const ASSUMPTIONS: &[&str] = &[
    "the program recorded by hook H1 still contains `(lam __no_inline__ X)` markers, which are directives for the optimiser and not binders; the reference is that program after `Program::clean_up_no_inlines` (marker removal only), interned and converted to de Bruijn form",
    "arbitrary UPLC is never fed to the optimiser: it is entitled to assume closed, type-correct code-generator output",
    "results are compared as constants (Data in normal form); two non-constant results are compared by their printed terms after discharge",
];

pub const RULE: &str = "for every generated module (see C01) the entry function is compiled under silent, compact and verbose tracing; the program handed to the optimiser and the optimised program are both evaluated on the same 8 argument tuples with an unlimited budget: both must fail, or both return the same value. A panic inside the optimiser is a violation. Non-trivial = the two programs differ structurally and both return a value, or both abort after >= 10 machine steps (measured by cpu cost above the start-up cost); distinct by (optimised program, arguments).";

pub const KNOWN_CAST_ELISION: &str = c01::KNOWN_CAST_ELISION;

fn show(o: &Outcome) -> String {
    match o {
        Outcome::Value(t) => match norm_result(t) {
            c01::Norm::Data(d) => d.show(),
            c01::Norm::Other(s) => s,
        },
        Outcome::Error(k, d) => format!("error {k}: {}", d.chars().take(160).collect::<String>()),
    }
}

pub fn judge_case(case: &Case, tracing: Tracing, st: &mut Stats) -> CheckResult {
    st.eval();
    let compiled = match c01::compile_entry(&case.source, tracing) {
        CompileOutcome::Ok(c) => c,
        CompileOutcome::Rejected(_) => {
            st.class("generator:rejected-by-checker");
            return Ok(());
        }
        CompileOutcome::Panic((msg, loc)) => {
            if loc.contains("optimize") {
                return Err(Failure::new(panic_signature("optimiser", &msg, &loc), json!({"panic": msg, "at": loc, "input": {"source": case.source, "args": []}, "arg_index": 0})));
            }
            st.class("skipped:compiler-panic-outside-optimiser(judged-by-C10)");
            return Ok(());
        }
        CompileOutcome::FreeUnique(e) => {
            return Err(Failure::new("optimised-program-has-free-variable", json!({"error": e, "input": {"source": case.source, "args": []}, "arg_index": 0})));
        }
    };
    let Some(pre) = compiled.pre.as_ref() else {
        st.class("skipped:no-pre-program");
        return Ok(());
    };
    let differ = compiled.pre_named.as_ref().map(|p| p.to_pretty()) != Some(compiled.post_named.to_pretty());
    st.class(if differ { "pair:optimiser-changed-program" } else { "pair:identical" });
    let post_text = compiled.post_named.to_pretty();
    for (arg_index, args) in case.args.iter().enumerate() {
        let Some(data) = c01::args_to_data(&case.module, &case.entry, args) else { continue };
        let pd: Vec<uplc::PlutusData> = data.iter().map(|d| d.to_plutus()).collect();
        let input = json!({"source": case.source, "args": data.iter().map(|d| d.show()).collect::<Vec<_>>(), "tracing": format!("{tracing:?}")});
        let (a, _, cost_a) = no_panic(|| aik::eval_with_args(pre, &pd)).map_err(|p| panic_failure("eval(pre)", p, input.clone()))?;
        let (b, _, cost_b) = no_panic(|| aik::eval_with_args(&compiled.program, &pd)).map_err(|p| panic_failure("eval(post)", p, input.clone()))?;
        st.evals(1);
        let same = match (&a, &b) {
            (Outcome::Error(k, _), _) | (_, Outcome::Error(k, _)) if k == "OutOfExError" => true,
            (Outcome::Error(..), Outcome::Error(..)) => true,
            (Outcome::Value(x), Outcome::Value(y)) => norm_result(x) == norm_result(y),
            _ => false,
        };
        if !same {
            let mut sig = match (&a, &b) {
                (Outcome::Error(..), Outcome::Value(_)) => "optimiser-changes-outcome:abort-to-success".to_string(),
                (Outcome::Value(_), Outcome::Error(k, _)) => format!("optimiser-changes-outcome:success-to-abort:{k}"),
                _ => "optimiser-changes-value".to_string(),
            };
            // the recorded known finding: a failing un*Data check is cancelled against *Data
            if let (Outcome::Error(k, d), Outcome::Value(_)) = (&a, &b) {
                if k == "DeserialisationError" && ["UnIData", "UnBData", "UnListData", "UnMapData"].iter().any(|n| d.contains(n)) && !matches!(tracing.trace_level(true), TraceLevel::Verbose) {
                    sig = KNOWN_CAST_ELISION.to_string();
                }
            }
            return Err(Failure::new(sig, json!({"input": input, "arg_index": arg_index, "pre_optimisation": show(&a), "post_optimisation": show(&b)})));
        }
        let both_value = matches!((&a, &b), (Outcome::Value(_), Outcome::Value(_)));
        let long_abort = matches!((&a, &b), (Outcome::Error(..), Outcome::Error(..))) && cost_a.cpu > 400_000 && cost_b.cpu > 100_000;
        if differ && (both_value || long_abort) {
            st.class(if both_value { "agree:value" } else { "agree:abort" });
            st.nontrivial(&(post_text.as_str(), format!("{data:?}")));
            st.sample(|| json!({"source": case.source, "args": data.iter().map(|d| d.show()).collect::<Vec<_>>(), "tracing": format!("{tracing:?}"), "both": show(&b), "cpu_pre": cost_a.cpu, "cpu_post": cost_b.cpu}));
        } else {
            st.class("agree:trivial");
        }
    }
    Ok(())
}

pub const KNOWN_LAZY_BINDING: &str = "optimiser:binding-made-lazy-under-returned-lambda";

pub const LAZY_BINDING_SOURCE: &str = "fn mk(a: Int) -> fn(Int) -> Int {\n  let x: Int = 100 / a\n  fn(p: Int) -> Int {\n    x + p\n  }\n}\n\npub fn entry(a: Int, call: Bool) -> Int {\n  let f: fn(Int) -> Int = mk(a)\n  if call {\n    f(1)\n  } else {\n    0\n  }\n}\n";

/// Re-observes the recorded known finding on its fixed input: `mk(0)` is bound and never called;
/// strict evaluation (and the program handed to the optimiser) aborts with a division by zero,
/// the optimised program returns 0.
pub fn probe_lazy_binding(st: &mut Stats) -> CheckResult {
    st.eval();
    let input = json!({"source": LAZY_BINDING_SOURCE, "args": ["I 0", "Constr 0 []"]});
    let CompileOutcome::Ok(c) = c01::compile_entry(LAZY_BINDING_SOURCE, Tracing::All(TraceLevel::Silent)) else {
        return Err(Failure::new("probe-does-not-compile", json!({"input": input})));
    };
    let args = vec![uplc::ast::Data::integer(0.into()), uplc::ast::Data::constr(0, vec![])];
    let post = aik::eval_with_args(&c.program, &args).0;
    let pre = c.pre.as_ref().map(|p| aik::eval_with_args(p, &args).0);
    if let (Some(Outcome::Error(..)), Outcome::Value(_)) = (&pre, &post) {
        return Err(Failure::new(KNOWN_LAZY_BINDING, json!({"input": input, "pre_optimisation": pre.as_ref().map(show), "post_optimisation": show(&post)})));
    }
    Ok(())
}

/// What is left of the lazy-binding finding after its repair below the top level: a program whose
/// own top-level spine is `\\a -> let x = <may fail> in \\p -> ..` (an exported function that
/// returns a closure), applied to `a` only.
pub const KNOWN_LAZY_BINDING_ROOT: &str = "optimiser:binding-made-lazy-under-returned-lambda:at-program-root";

pub const LAZY_BINDING_ROOT_SOURCE: &str = "pub fn entry(a: Int) -> fn(Int) -> Int {\n  let x: Int = 100 / a\n  fn(p: Int) -> Int {\n    x + p\n  }\n}\n";

pub fn probe_lazy_binding_root(st: &mut Stats) -> CheckResult {
    st.eval();
    let input = json!({"source": LAZY_BINDING_ROOT_SOURCE, "args": ["I 0"]});
    let CompileOutcome::Ok(c) = c01::compile_entry(LAZY_BINDING_ROOT_SOURCE, Tracing::All(TraceLevel::Silent)) else {
        return Err(Failure::new("probe-does-not-compile", json!({"input": input})));
    };
    let args = vec![uplc::ast::Data::integer(0.into())];
    let post = aik::eval_with_args(&c.program, &args).0;
    let pre = c.pre.as_ref().map(|p| aik::eval_with_args(p, &args).0);
    if let (Some(Outcome::Error(..)), Outcome::Value(_)) = (&pre, &post) {
        return Err(Failure::new(KNOWN_LAZY_BINDING_ROOT, json!({"input": input, "pre_optimisation": pre.as_ref().map(show), "post_optimisation": show(&post)})));
    }
    Ok(())
}

pub fn run(cx: &mut Cx) -> String {
    let tier = cx.tier;
    cx.shrink_iters = 0;
    if !cx.is_replay() && cx.worker == 0 {
        cx.direct("known-finding-probe:lazy-binding", &json!({"source": LAZY_BINDING_SOURCE}), probe_lazy_binding);
        cx.direct("known-finding-probe:lazy-binding-at-program-root", &json!({"source": LAZY_BINDING_ROOT_SOURCE}), probe_lazy_binding_root);
    }
    let cfg = AikCfg::default();
    for (name, tracing, share) in [
        ("pairs-silent", Tracing::All(TraceLevel::Silent), 2u64),
        ("pairs-verbose", Tracing::All(TraceLevel::Verbose), 1),
        ("pairs-compact", Tracing::All(TraceLevel::Compact), 1),
    ] {
        cx.prop(name, tier.of(5_000, 120_000) * share, 3000, |src, st| {
            let case = c01::gen_case(src, &cfg, 8);
            c01::judge_and_shrink(case, st, &|c, st| judge_case(c, tracing, st))
        });
    }
    // focus: possibly-throwing bindings captured by closures that are not called on every path,
    // behind expect / if-else-fail guards (where the inliner's must-execute reasoning matters)
    let cfg2 = AikCfg { closure_weight: 30, expect_weight: 6, abort_weight: 2, trace_weight: 0, cast_weight: 2, max_helpers: 2, max_depth: 4, ..AikCfg::default() };
    for (name, tracing) in [("closures-silent", Tracing::All(TraceLevel::Silent)), ("closures-verbose", Tracing::All(TraceLevel::Verbose))] {
        cx.prop(name, tier.of(4_000, 100_000), 3000, |src, st| {
            let case = c01::gen_case(src, &cfg2, 8);
            c01::judge_and_shrink(case, st, &|c, st| judge_case(c, tracing, st))
        });
    }
    RULE.to_string()
}

//! C07 — pattern matching is exhaustive when accepted and first-match when run.
//! (1) free-form clause lists over a small type universe are judged by the type checker and by a
//!     brute-force matcher over enumerated values (M-MATCH): accepted <=> exhaustive and no
//!     unreachable clause; every pattern reported missing denotes an unmatched value; a clause
//!     reported redundant is unreachable.
//! (2) accepted clause lists are compiled and run on the enumerated values: the clause taken and
//!     the values bound must be those of "try the clauses top to bottom".
use crate::aik;
use crate::engine::*;
use crate::gen_::aiken_ast::*;
use crate::gen_::aiken_gen::Entry;
use crate::model::interp::{Env, Interp, V};
use crate::props::c01::{self, Case};
use aiken_lang::ast::{ModuleKind, TraceLevel, Tracing};
use aiken_lang::tipo::error::Error as TypeError;
use num_bigint::BigInt;
use serde_json::json;
use std::collections::BTreeMap;

pub const ASSUMPTIONS: &[&str] = &[
    "M-MATCH enumerates every value of the scrutinee type down to the depth of the patterns, with the integer / byte-array literals occurring in the patterns plus one fresh literal, and lists up to one element longer than the longest list pattern: complete for the pattern language generated",
    "the checker stops at the first redundant clause, so only that clause is compared; when a clause list is both non-exhaustive and has an unreachable clause either error is accepted",
    "patterns reported missing are parsed back by a small parser in the harness; with integer/byte-array literal columns the checker reports `_` by design, so only the weak form (some denoted value is unmatched) is asserted there, the strong form (every denoted value is unmatched) otherwise",
];

pub const RULE: &str = "scrutinee types: Bool, Int, ByteArray, Option<Bool>, Option<Int>, a 3-constructor data type, a record, lists of those, tuples, pairs, nested to depth 2; 1-5 clauses of freely generated patterns (constructors positional/labelled/with `..`, literals, `[]` / `[a, b]` / `[a, ..rest]` / `[_, ..]`, variables, discards, `as`). Also single patterns in `let P = x` and in argument position, accepted iff the pattern matches every enumerated value. Non-trivial (checker half) = at least 2 clauses, one of them with a nested constructor/list/literal pattern below a constructor, tuple or list; (run-time half) = a value that two or more clauses match. Distinct by (type, clause list) resp. (type, clause list, value).";

pub const KNOWN_PERMUTED: &str = "first-match:bindings-permuted-under-open-list-clause";

fn universe() -> Module {
    let t0 = AdtDecl {
        name: "T0".into(),
        params: 0,
        ctors: vec![
            Ctor { name: "T0A".into(), fields: vec![] },
            Ctor { name: "T0B".into(), fields: vec![(None, Ty::Bool)] },
            Ctor { name: "T0C".into(), fields: vec![(None, Ty::Int), (None, Ty::opt(Ty::Bool))] },
        ],
        opaque: false,
        public: true,
        tags: vec![],
    };
    let r = AdtDecl { name: "R1".into(), params: 0, ctors: vec![Ctor { name: "R1".into(), fields: vec![(Some("rx".into()), Ty::Bool), (Some("ry".into()), Ty::opt(Ty::Int))] }], opaque: false, public: true, tags: vec![] };
    Module { adts: vec![t0, r], consts: vec![], fns: vec![] }
}

fn scrutinee_types() -> Vec<Ty> {
    let t0 = Ty::Adt(0, vec![]);
    let r1 = Ty::Adt(1, vec![]);
    vec![
        Ty::Bool,
        Ty::Int,
        Ty::Bytes,
        Ty::opt(Ty::Bool),
        Ty::opt(Ty::Int),
        t0.clone(),
        r1.clone(),
        Ty::list(Ty::Bool),
        Ty::list(Ty::Int),
        Ty::list(Ty::opt(Ty::Bool)),
        Ty::list(t0.clone()),
        Ty::Tuple(vec![Ty::Bool, Ty::opt(Ty::Bool)]),
        Ty::Tuple(vec![t0.clone(), Ty::Bool]),
        Ty::Tuple(vec![Ty::Int, Ty::Bool, Ty::Bool]),
        Ty::pair(Ty::Bool, t0.clone()),
        Ty::opt(t0.clone()),
        Ty::opt(Ty::list(Ty::Bool)),
        Ty::list(Ty::Tuple(vec![Ty::Bool, Ty::Int])),
        Ty::Tuple(vec![Ty::list(Ty::Bool), Ty::opt(Ty::Int)]),
        Ty::opt(r1),
    ]
}

struct PatGen<'a, 's, 'd> {
    src: &'s mut Src<'d>,
    m: &'a Module,
    fresh: usize,
    binds: Vec<(String, Ty)>,
}

impl PatGen<'_, '_, '_> {
    fn var(&mut self, t: &Ty) -> Pat {
        self.fresh += 1;
        let x = format!("b{}", self.fresh);
        self.binds.push((x.clone(), t.clone()));
        Pat::Var(x)
    }

    fn pat(&mut self, t: &Ty, depth: usize) -> Pat {
        if depth == 0 || self.src.chance(1, 4) {
            return if self.src.chance(2, 5) { Pat::Discard } else { self.var(t) };
        }
        let p = match t {
            Ty::Bool => Pat::Bool(self.src.bool()),
            Ty::Int => {
                if self.src.chance(1, 5) {
                    // literals beyond the machine word (compared as big integers, not as i64)
                    let big = *self.src.pick(&["9223372036854775807", "9223372036854775808", "18446744073709551616", "36893488147419103232", "-9223372036854775809", "-18446744073709551616"]);
                    Pat::Int(big.parse::<BigInt>().unwrap())
                } else {
                    Pat::Int(BigInt::from(self.src.range(-1, 2)))
                }
            }
            Ty::Bytes => {
                let n = self.src.below(2);
                Pat::Bytes(vec![0xab; n])
            }
            Ty::Opt(e) => {
                if self.src.chance(1, 3) {
                    Pat::Ctor { adt: OPT, ctor: 1, args: vec![], labelled: false, spread: false }
                } else {
                    let p = self.pat(e, depth - 1);
                    Pat::Ctor { adt: OPT, ctor: 0, args: vec![p], labelled: false, spread: false }
                }
            }
            Ty::List(e) => {
                let n = self.src.below(4);
                let ps: Vec<Pat> = (0..n).map(|_| self.pat(e, depth - 1)).collect();
                let tail = match self.src.weighted(&[3, 2, 2]) {
                    0 => None,
                    1 if n > 0 => Some(None),
                    _ if n > 0 => {
                        self.fresh += 1;
                        let x = format!("b{}", self.fresh);
                        self.binds.push((x.clone(), t.clone()));
                        Some(Some(x))
                    }
                    _ => None,
                };
                Pat::List(ps, tail)
            }
            Ty::Tuple(ts) => Pat::Tuple(ts.iter().map(|t| self.pat(t, depth - 1)).collect()),
            Ty::Pair(a, b) => Pat::Pair(Box::new(self.pat(a, depth - 1)), Box::new(self.pat(b, depth - 1))),
            Ty::Adt(i, targs) => {
                let decl = &self.m.adts[*i];
                let c = self.src.below(decl.ctors.len());
                let tys = decl.field_tys(c, targs);
                let all_labelled = !tys.is_empty() && decl.ctors[c].fields.iter().all(|f| f.0.is_some());
                let labelled = all_labelled && self.src.bool();
                let spread = !tys.is_empty() && self.src.chance(1, 5);
                let n = if spread { self.src.below(tys.len()) } else { tys.len() };
                let args = tys.iter().take(n).map(|t| self.pat(t, depth - 1)).collect();
                Pat::Ctor { adt: *i, ctor: c, args, labelled, spread }
            }
            _ => Pat::Discard,
        };
        if self.src.chance(1, 12) {
            self.fresh += 1;
            let x = format!("b{}", self.fresh);
            self.binds.push((x.clone(), t.clone()));
            Pat::As(Box::new(p), x)
        } else {
            p
        }
    }
}

fn collect_literals(p: &Pat, ints: &mut Vec<BigInt>, bytes: &mut Vec<Vec<u8>>, max_list: &mut usize) {
    match p {
        Pat::Int(i) => {
            if !ints.contains(i) {
                ints.push(i.clone());
            }
        }
        Pat::Bytes(b) => {
            if !bytes.contains(b) {
                bytes.push(b.clone());
            }
        }
        Pat::Tuple(ps) => ps.iter().for_each(|p| collect_literals(p, ints, bytes, max_list)),
        Pat::Pair(a, b) => {
            collect_literals(a, ints, bytes, max_list);
            collect_literals(b, ints, bytes, max_list);
        }
        Pat::List(ps, _) => {
            *max_list = (*max_list).max(ps.len());
            ps.iter().for_each(|p| collect_literals(p, ints, bytes, max_list));
        }
        Pat::Ctor { args, .. } => args.iter().for_each(|p| collect_literals(p, ints, bytes, max_list)),
        Pat::As(p, _) => collect_literals(p, ints, bytes, max_list),
        _ => {}
    }
}

struct Enum<'a> {
    m: &'a Module,
    ints: Vec<BigInt>,
    bytes: Vec<Vec<u8>>,
    max_list: usize,
}

impl Enum<'_> {
    fn values(&self, t: &Ty, cap: usize) -> Vec<V> {
        match t {
            Ty::Bool => vec![V::Bool(false), V::Bool(true)],
            Ty::Int => self.ints.iter().cloned().map(V::Int).collect(),
            Ty::Bytes => self.bytes.iter().cloned().map(V::Bytes).collect(),
            Ty::Unit => vec![V::Unit],
            Ty::Opt(e) => {
                let mut out = vec![V::Con(OPT, 1, vec![])];
                out.extend(self.values(e, cap).into_iter().map(|v| V::Con(OPT, 0, vec![v])));
                out
            }
            Ty::Tuple(ts) => self.product(ts, cap).into_iter().map(V::Tuple).collect(),
            Ty::Pair(a, b) => self.product(&[(**a).clone(), (**b).clone()], cap).into_iter().map(|mut v| {
                let y = v.pop().unwrap();
                let x = v.pop().unwrap();
                V::Pair(Box::new(x), Box::new(y))
            }).collect(),
            Ty::Adt(i, targs) => {
                let decl = &self.m.adts[*i];
                let mut out = vec![];
                for c in 0..decl.ctors.len() {
                    for fs in self.product(&decl.field_tys(c, targs), cap) {
                        out.push(V::Con(*i, c, fs));
                    }
                }
                out
            }
            Ty::List(e) => {
                let elems = self.values(e, cap);
                let mut out: Vec<V> = vec![V::List(vec![])];
                let mut layer: Vec<Vec<V>> = vec![vec![]];
                for _ in 0..=self.max_list {
                    let mut next = vec![];
                    for l in &layer {
                        for x in &elems {
                            let mut l2 = l.clone();
                            l2.push(x.clone());
                            next.push(l2);
                        }
                    }
                    if out.len() + next.len() > cap {
                        // keep a spread of the layer rather than all of it
                        let step = (next.len() / (cap.saturating_sub(out.len()).max(1))).max(1);
                        next = next.into_iter().step_by(step).collect();
                    }
                    out.extend(next.iter().cloned().map(V::List));
                    layer = next;
                    if out.len() >= cap {
                        break;
                    }
                }
                out
            }
            _ => vec![],
        }
    }

    fn product(&self, ts: &[Ty], cap: usize) -> Vec<Vec<V>> {
        let mut out: Vec<Vec<V>> = vec![vec![]];
        for t in ts {
            let vs = self.values(t, cap);
            let mut next = vec![];
            for pre in &out {
                for v in &vs {
                    let mut p = pre.clone();
                    p.push(v.clone());
                    next.push(p);
                }
            }
            out = next;
        }
        out
    }
}

fn nested(p: &Pat) -> bool {
    let refut = |q: &Pat| !matches!(q, Pat::Var(_) | Pat::Discard);
    match p {
        Pat::Tuple(ps) => ps.iter().any(refut),
        Pat::Pair(a, b) => refut(a) || refut(b),
        Pat::List(ps, _) => ps.iter().any(refut),
        Pat::Ctor { args, .. } => args.iter().any(refut),
        Pat::As(q, _) => nested(q),
        _ => false,
    }
}

// ------------------------------------------------------------------------------------------------
// parser for the patterns the checker reports as missing

struct PP<'a> {
    s: &'a [u8],
    i: usize,
    m: &'a Module,
}

impl PP<'_> {
    fn ws(&mut self) {
        while self.i < self.s.len() && self.s[self.i].is_ascii_whitespace() {
            self.i += 1;
        }
    }
    fn eat(&mut self, c: u8) -> bool {
        self.ws();
        if self.i < self.s.len() && self.s[self.i] == c {
            self.i += 1;
            true
        } else {
            false
        }
    }
    fn ident(&mut self) -> String {
        self.ws();
        let st = self.i;
        while self.i < self.s.len() && (self.s[self.i].is_ascii_alphanumeric() || self.s[self.i] == b'_') {
            self.i += 1;
        }
        String::from_utf8_lossy(&self.s[st..self.i]).to_string()
    }
    fn pat(&mut self, t: &Ty) -> Option<Pat> {
        self.ws();
        if self.eat(b'(') {
            // pairs are reported in tuple notation
            if let Ty::Pair(a, b) = t {
                let p = self.pat(a)?;
                if !self.eat(b',') {
                    return None;
                }
                let q = self.pat(b)?;
                return self.eat(b')').then_some(Pat::Pair(Box::new(p), Box::new(q)));
            }
            let Ty::Tuple(ts) = t else { return None };
            let mut ps = vec![];
            for (k, et) in ts.iter().enumerate() {
                if k > 0 && !self.eat(b',') {
                    return None;
                }
                ps.push(self.pat(et)?);
            }
            return self.eat(b')').then_some(Pat::Tuple(ps));
        }
        if self.eat(b'[') {
            let Ty::List(et) = t else { return None };
            let mut ps = vec![];
            loop {
                self.ws();
                if self.eat(b']') {
                    return Some(Pat::List(ps, None));
                }
                if self.s[self.i..].starts_with(b"..") {
                    self.i += 2;
                    return self.eat(b']').then_some(Pat::List(ps, Some(None)));
                }
                ps.push(self.pat(et)?);
                self.eat(b',');
            }
        }
        let name = self.ident();
        if name.is_empty() {
            return None;
        }
        if name == "_" || name.chars().next().is_some_and(|c| c.is_ascii_lowercase()) {
            return Some(Pat::Discard);
        }
        match (name.as_str(), t) {
            ("True", Ty::Bool) => return Some(Pat::Bool(true)),
            ("False", Ty::Bool) => return Some(Pat::Bool(false)),
            ("None", Ty::Opt(_)) => return Some(Pat::Ctor { adt: OPT, ctor: 1, args: vec![], labelled: false, spread: false }),
            ("Some", Ty::Opt(e)) => {
                if !self.eat(b'(') {
                    return None;
                }
                let p = self.pat(e)?;
                return self.eat(b')').then_some(Pat::Ctor { adt: OPT, ctor: 0, args: vec![p], labelled: false, spread: false });
            }
            ("Pair", Ty::Pair(a, b)) => {
                if !self.eat(b'(') {
                    return None;
                }
                let p = self.pat(a)?;
                if !self.eat(b',') {
                    return None;
                }
                let q = self.pat(b)?;
                return self.eat(b')').then_some(Pat::Pair(Box::new(p), Box::new(q)));
            }
            _ => {}
        }
        let Ty::Adt(i, targs) = t else { return None };
        let decl = &self.m.adts[*i];
        let c = decl.ctors.iter().position(|c| c.name == name)?;
        let tys = decl.field_tys(c, targs);
        let mut args: Vec<Pat> = tys.iter().map(|_| Pat::Discard).collect();
        if self.eat(b'(') {
            for (k, et) in tys.iter().enumerate() {
                if k > 0 && !self.eat(b',') {
                    return None;
                }
                args[k] = self.pat(et)?;
            }
            if !self.eat(b')') {
                return None;
            }
        } else if self.eat(b'{') {
            loop {
                self.ws();
                if self.eat(b'}') {
                    break;
                }
                let label = self.ident();
                let k = decl.ctors[c].fields.iter().position(|f| f.0.as_deref() == Some(label.as_str()))?;
                if self.eat(b':') {
                    args[k] = self.pat(&tys[k])?;
                }
                self.eat(b',');
            }
        }
        Some(Pat::Ctor { adt: *i, ctor: c, args, labelled: false, spread: false })
    }
}

pub fn parse_reported(m: &Module, t: &Ty, s: &str) -> Option<Pat> {
    let mut p = PP { s: s.as_bytes(), i: 0, m };
    let r = p.pat(t)?;
    p.ws();
    (p.i == p.s.len()).then_some(r)
}

// ------------------------------------------------------------------------------------------------

struct Matrix {
    ty: Ty,
    clauses: Vec<(Pat, Vec<(String, Ty)>)>,
}

fn gen_matrix(src: &mut Src, m: &Module) -> Matrix {
    let tys = scrutinee_types();
    let ty = src.pick(&tys).clone();
    let n = 1 + src.below(5);
    let mut clauses = vec![];
    let mut fresh = 0;
    for k in 0..n {
        let mut g = PatGen { src, m, fresh, binds: vec![] };
        // the last clause is a catch-all half of the time, so that exhaustive lists are common
        let p = if k + 1 == n && g.src.chance(1, 2) { if g.src.bool() { Pat::Discard } else { g.var(&ty) } } else { g.pat(&ty, 2) };
        fresh = g.fresh;
        clauses.push((p, g.binds));
    }
    Matrix { ty, clauses }
}

/// source of `fn f(x: T) -> Int { when x is { p_k -> k } }` with the byte range of every clause
fn checker_source(m: &Module, mx: &Matrix) -> (String, Vec<(usize, usize)>) {
    let mut src = print_module(m);
    let pr = Printer::new(m);
    src.push_str(&format!("pub fn f(x: {}) -> Int {{\n  when x is {{\n", show_ty(m, &mx.ty)));
    let mut ranges = vec![];
    for (k, (p, _)) in mx.clauses.iter().enumerate() {
        let start = src.len();
        src.push_str(&format!("    {} -> {}\n", pr.pat(p), k));
        ranges.push((start, src.len()));
    }
    src.push_str("  }\n}\n");
    (src, ranges)
}

pub fn check_types(source: &str) -> Result<(), TypeError> {
    let mut proj = aik::Proj::new();
    let (mut ast, _) = aiken_lang::parser::module(source, ModuleKind::Lib).map_err(|_| TypeError::ImplicitlyDiscardedExpression { location: aiken_lang::ast::Span::empty() })?;
    ast.name = "m".to_string();
    let mut warnings = vec![];
    ast.infer(&proj.id_gen, ModuleKind::Lib, "test/project", &proj.module_types, Tracing::All(TraceLevel::Verbose), &mut warnings, None).map(|_| ())?;
    let _ = &mut proj;
    Ok(())
}

fn show_v(it: &Interp, v: &V, t: &Ty) -> String {
    it.to_data(v, t).map(|d| d.show()).unwrap_or_else(|_| format!("{v:?}"))
}

fn judge_matrix(src: &mut Src, st: &mut Stats) -> CheckResult {
    st.eval();
    let m = universe();
    let mx = gen_matrix(src, &m);
    let (source, ranges) = checker_source(&m, &mx);
    let input = json!({"source": source});
    // M-MATCH
    let mut en = Enum { m: &m, ints: vec![], bytes: vec![], max_list: 0 };
    for (p, _) in &mx.clauses {
        collect_literals(p, &mut en.ints, &mut en.bytes, &mut en.max_list);
    }
    let has_literal_column = !en.ints.is_empty() || !en.bytes.is_empty();
    en.ints.push(BigInt::from(77));
    en.bytes.push(vec![0x77, 0x77, 0x77]);
    let values = en.values(&mx.ty, 4000);
    let mut it = Interp::new(&m, u64::MAX);
    let mut first_hits = vec![0usize; mx.clauses.len()];
    let mut unmatched: Vec<&V> = vec![];
    let mut multi = 0usize;
    for v in &values {
        let mut first = None;
        let mut count = 0;
        for (k, (p, _)) in mx.clauses.iter().enumerate() {
            let mut env = Env::default();
            if it.matches(p, v, &mut env).unwrap_or(false) {
                count += 1;
                if first.is_none() {
                    first = Some(k);
                }
            }
        }
        match first {
            Some(k) => first_hits[k] += 1,
            None => unmatched.push(v),
        }
        if count >= 2 {
            multi += 1;
        }
    }
    let exhaustive = unmatched.is_empty();
    let first_unreachable = first_hits.iter().position(|h| *h == 0);
    let verdict = no_panic(|| check_types(&source)).map_err(|p| panic_failure("type-checker", p, input.clone()))?;
    let an_unmatched = unmatched.first().map(|v| show_v(&it, v, &mx.ty));
    let nvalues = values.len();
    let detail = |extra: serde_json::Value| json!({"input": input, "model": {"exhaustive": exhaustive, "first_unreachable_clause": first_unreachable, "values_enumerated": nvalues, "an_unmatched_value": an_unmatched}, "checker": extra});
    match &verdict {
        Ok(()) => {
            st.class("checker:accepted");
            if !exhaustive {
                return Err(Failure::new("accepted-but-not-exhaustive", detail(json!("accepted"))));
            }
            if let Some(k) = first_unreachable {
                return Err(Failure::new("accepted-with-unreachable-clause", detail(json!({"accepted": true, "clause": k}))));
            }
        }
        Err(TypeError::NotExhaustivePatternMatch { unmatched: reported, .. }) => {
            st.class("checker:not-exhaustive");
            if exhaustive {
                return Err(Failure::new("rejected-although-exhaustive", detail(json!({"unmatched": reported}))));
            }
            for r in reported {
                let Some(rp) = parse_reported(&m, &mx.ty, r) else {
                    st.class("reported-pattern:not-parsed");
                    if std::env::var("VERIF_SHOW_REJECTS").is_ok() {
                        eprintln!("cannot parse reported pattern {r:?} at type {}", show_ty(&m, &mx.ty));
                    }
                    continue;
                };
                st.class("reported-pattern:parsed");
                let denoted: Vec<&V> = values.iter().filter(|v| it.matches(&rp, v, &mut Env::default()).unwrap_or(false)).collect();
                let denoted_unmatched = denoted.iter().filter(|v| unmatched.iter().any(|u| std::ptr::eq(*u, **v))).count();
                if denoted.is_empty() || denoted_unmatched == 0 {
                    return Err(Failure::new("reported-missing-pattern-is-matched", detail(json!({"unmatched": reported, "offending": r}))));
                }
                if !has_literal_column && denoted_unmatched != denoted.len() {
                    return Err(Failure::new("reported-missing-pattern-partly-matched", detail(json!({"unmatched": reported, "offending": r, "denoted": denoted.len(), "of_which_unmatched": denoted_unmatched}))));
                }
            }
        }
        Err(TypeError::RedundantMatchClause { redundant, .. }) => {
            st.class("checker:redundant");
            let k = ranges.iter().position(|(a, b)| redundant.start >= *a && redundant.start < *b);
            match k {
                Some(k) if first_hits[k] == 0 => {}
                Some(k) => return Err(Failure::new("reported-redundant-clause-is-reachable", detail(json!({"redundant_clause": k, "values_reaching_it_first": first_hits[k]})))),
                None => st.class("checker:redundant-span-not-mapped"),
            }
            if first_unreachable.is_none() {
                return Err(Failure::new("rejected-redundant-although-all-clauses-reachable", detail(json!("redundant"))));
            }
        }
        Err(other) => {
            st.class("checker:other-error");
            if std::env::var("VERIF_SHOW_REJECTS").is_ok() {
                eprintln!("{source}\n{other:?}");
            }
            return Ok(());
        }
    }
    let nontrivial = mx.clauses.len() >= 2 && mx.clauses.iter().any(|(p, _)| nested(p));
    if nontrivial {
        st.nontrivial(&source);
        st.sample(|| json!({"source": source.rsplit("pub fn f").next().map(|s| format!("pub fn f{s}")), "checker": match &verdict { Ok(()) => "accepted".to_string(), Err(e) => format!("{e:?}").chars().take(120).collect() }, "values_enumerated": values.len()}));
    }
    // (2) run-time half for accepted clause lists
    if verdict.is_ok() {
        let mut module = m.clone();
        let clauses: Vec<(Pat, E)> = mx
            .clauses
            .iter()
            .enumerate()
            .map(|(k, (p, binds))| {
                let bound: Vec<E> = binds.iter().map(|(x, t)| if *t == Ty::Data { E::Var(x.clone()) } else { E::ToData(Box::new(E::Var(x.clone())), t.clone()) }).collect();
                (p.clone(), E::Tuple(vec![E::Int(BigInt::from(k), 0), E::List(bound, None)]))
            })
            .collect();
        let ret = Ty::Tuple(vec![Ty::Int, Ty::list(Ty::Data)]);
        let body = E::ToData(Box::new(E::When(Box::new(E::Var("x".into())), clauses)), ret.clone());
        module.fns.push(FnDecl { name: "entry".into(), tyvars: 0, params: vec![("x".into(), mx.ty.clone())], ret: Ty::Data, body, public: true });
        let n = values.len();
        let step = (n / 48).max(1);
        let args: Vec<Vec<V>> = values.iter().step_by(step).map(|v| vec![v.clone()]).collect();
        let case = Case { source: print_module(&module), module, entry: Entry { name: "entry".into(), params: vec![mx.ty.clone()], ret }, args, used: BTreeMap::new() };
        let tracing = if src.bool() { Tracing::All(TraceLevel::Silent) } else { Tracing::All(TraceLevel::Verbose) };
        let mut sub = Stats::scratch();
        c01::judge_case(&case, tracing, &mut sub).map_err(|mut f| {
            // the recorded known finding: the right clause is taken but the values bound by the
            // sub-patterns of a `[p, q, ..]` clause are handed out in another order
            let permuted = match (f.detail["expected"].as_str(), f.detail["actual"].as_str()) {
                (Some(e), Some(a)) if f.signature == "value-differs" => {
                    let split = |s: &str| -> Option<(String, Vec<String>)> {
                        let inner = s.strip_prefix("List [")?.strip_suffix(']')?;
                        let (k, rest) = inner.split_once(", ")?;
                        let rest = rest.strip_prefix("List [")?.strip_suffix(']')?;
                        let mut parts: Vec<String> = vec![];
                        let (mut depth, mut cur) = (0i32, String::new());
                        for ch in rest.chars() {
                            match ch {
                                '[' | '(' => depth += 1,
                                ']' | ')' => depth -= 1,
                                _ => {}
                            }
                            if ch == ',' && depth == 0 {
                                parts.push(cur.trim().to_string());
                                cur.clear();
                            } else {
                                cur.push(ch);
                            }
                        }
                        if !cur.trim().is_empty() {
                            parts.push(cur.trim().to_string());
                        }
                        parts.sort();
                        Some((k.to_string(), parts))
                    };
                    split(e).is_some() && split(e) == split(a)
                }
                _ => false,
            };
            let open_tail_clause = mx.clauses.iter().any(|(p, _)| matches!(p, Pat::List(ps, Some(_)) if ps.iter().filter(|q| !matches!(q, Pat::Var(_) | Pat::Discard)).count() >= 2));
            f.signature = if permuted && open_tail_clause { KNOWN_PERMUTED.to_string() } else { format!("first-match:{}", f.signature) };
            f
        })?;
        st.evals(case.args.len() as u64);
        st.class("runtime:first-match-agrees");
        if multi > 0 {
            st.class("runtime:value-matched-by-several-clauses");
            st.nontrivial(&(source.as_str(), "runtime"));
        }
    }
    Ok(())
}

/// `let P = x`: a single pattern must be irrefutable (match every value of the type) to be accepted.
fn judge_let(src: &mut Src, st: &mut Stats) -> CheckResult {
    st.eval();
    let m = universe();
    let tys = scrutinee_types();
    // tuples and pairs twice as often: they have one shape, all refutability is in the components
    let composite: Vec<Ty> = tys.iter().filter(|t| matches!(t, Ty::Tuple(_) | Ty::Pair(..))).cloned().collect();
    let ty = if src.chance(1, 2) && !composite.is_empty() { src.pick(&composite).clone() } else { src.pick(&tys).clone() };
    let (p, _binds) = {
        let mut g = PatGen { src, m: &m, fresh: 0, binds: vec![] };
        let p = g.pat(&ty, 2);
        (p, g.binds)
    };
    let pr = Printer::new(&m);
    let as_argument = src.chance(1, 4) && matches!(p, Pat::Tuple(_) | Pat::Pair(..));
    let mut source = print_module(&m);
    if as_argument {
        source.push_str(&format!("pub fn f({}: {}) -> Int {{\n  0\n}}\n", pr.pat(&p), show_ty(&m, &ty)));
    } else {
        source.push_str(&format!("pub fn f(x: {}) -> Int {{\n  let {} = x\n  0\n}}\n", show_ty(&m, &ty), pr.pat(&p)));
    }
    let input = json!({"source": source});
    let mut en = Enum { m: &m, ints: vec![], bytes: vec![], max_list: 0 };
    collect_literals(&p, &mut en.ints, &mut en.bytes, &mut en.max_list);
    en.ints.push(BigInt::from(77));
    en.bytes.push(vec![0x77, 0x77, 0x77]);
    let values = en.values(&ty, 4000);
    let mut it = Interp::new(&m, u64::MAX);
    let unmatched: Vec<&V> = values.iter().filter(|v| !it.matches(&p, v, &mut Env::default()).unwrap_or(false)).collect();
    let irrefutable = unmatched.is_empty();
    let verdict = no_panic(|| check_types(&source)).map_err(|pn| panic_failure("type-checker", pn, input.clone()))?;
    let detail = |extra: serde_json::Value| json!({"input": input, "model": {"irrefutable": irrefutable, "values_enumerated": values.len(), "an_unmatched_value": unmatched.first().map(|v| show_v(&it, v, &ty))}, "checker": extra});
    match &verdict {
        Ok(()) => {
            st.class("let:accepted");
            if !irrefutable {
                return Err(Failure::new("let-accepted-but-refutable", detail(json!("accepted"))));
            }
        }
        Err(TypeError::NotExhaustivePatternMatch { unmatched: reported, .. }) => {
            st.class("let:not-exhaustive");
            if irrefutable {
                return Err(Failure::new("let-rejected-although-irrefutable", detail(json!({"unmatched": reported}))));
            }
        }
        Err(other) => {
            st.class("let:other-error");
            if std::env::var("VERIF_SHOW_REJECTS").is_ok() {
                eprintln!("{source}\n{other:?}");
            }
            return Ok(());
        }
    }
    if nested(&p) {
        st.nontrivial(&(source.as_str(), "let"));
    }
    Ok(())
}

/// Clause lists whose verdict depends on how literals are spelt, which the pattern generator
/// (it prints canonical numbers) cannot produce: (source, must be reported redundant).
const SPELLINGS: &[(&str, bool)] = &[
    ("pub fn f(n: Int) -> Int {\n  when n is {\n    0 -> 1\n    -0 -> 2\n    _ -> 3\n  }\n}\n", true),
    ("pub fn f(n: Int) -> Int {\n  when n is {\n    1_000 -> 1\n    01_000 -> 2\n    _ -> 3\n  }\n}\n", true),
    ("pub fn f(n: Int) -> Int {\n  when n is {\n    1_000 -> 1\n    1000 -> 2\n    _ -> 3\n  }\n}\n", true),
    ("pub fn f(n: Int) -> Int {\n  when n is {\n    0x10 -> 1\n    16 -> 2\n    _ -> 3\n  }\n}\n", true),
    ("pub fn f(n: Int) -> Int {\n  when n is {\n    10 -> 1\n    -10 -> 2\n    _ -> 3\n  }\n}\n", false),
    ("pub fn f(n: Int) -> Int {\n  when n is {\n    18446744073709551616 -> 1\n    36893488147419103232 -> 2\n    _ -> 3\n  }\n}\n", false),
];

fn judge_spelling(source: &str, redundant: bool, st: &mut Stats) -> CheckResult {
    st.eval();
    let input = json!({"source": source});
    let verdict = no_panic(|| check_types(source)).map_err(|p| panic_failure("type-checker", p, input.clone()))?;
    match (&verdict, redundant) {
        (Err(TypeError::RedundantMatchClause { .. }), true) | (Ok(()), false) => Ok(()),
        (Ok(()), true) => Err(Failure::new("accepted-with-unreachable-clause:literal-spelling", json!({"input": input}))),
        (Err(e), _) => Err(Failure::new("literal-spelling-verdict-unexpected", json!({"input": input, "checker": format!("{e:?}").chars().take(200).collect::<String>(), "second_clause_unreachable": redundant}))),
    }
}

pub fn run(cx: &mut Cx) -> String {
    let tier = cx.tier;
    if !cx.is_replay() && cx.worker == 0 {
        for (source, redundant) in SPELLINGS {
            cx.direct("literal-spellings", &json!({"source": source}), |st| judge_spelling(source, *redundant, st));
        }
    }
    cx.shrink_iters = 300;
    cx.prop("clause-lists", tier.of(40_000, 1_000_000), 400, judge_matrix);
    cx.prop("let-patterns", tier.of(30_000, 600_000), 200, judge_let);
    RULE.to_string()
}

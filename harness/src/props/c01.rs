//! C01 — compiled code computes what the Aiken source means.
//! Oracle: R-AIKEN (model::interp) on the generated AST vs the program compiled from the printed
//! source through the real parser, type checker and code generator, evaluated on Data arguments.
use crate::aik::{self, CompileError, Outcome, Proj};
use crate::engine::*;
use crate::gen_::aiken_ast::*;
use crate::gen_::aiken_gen::{AikCfg, Entry, Gen};
use crate::model::interp::{D, Interp, Stop, V};
use aiken_lang::ast::{ModuleKind, TraceLevel, Tracing};
use aiken_lang::plutus_version::PlutusVersion;
use serde_json::{Value as J, json};
use std::collections::BTreeMap;
use uplc::ast::{Constant, NamedDeBruijn, Program, Term};

pub const ASSUMPTIONS: &[&str] = &[
    "the reference interpreter (harness/src/model/interp.rs) implements the documented source semantics: strict left-to-right evaluation, first-match when, floor division/modulo, short-circuit && and ||, structural ==, aborts for fail/todo/failed expect/partial builtins",
    "`let x = e` whose variable is never used (and `let _ = e`) is erased by the type checker (tipo/expr.rs filters such assignments out of sequences), so the model does not evaluate e there",
    "entry functions are monomorphic with Data-serialisable parameters (the precondition `aiken export` enforces before calling generate_raw); generic functions are only called from them",
    "which machine error an aborting program ends with is not compared here (C06 classifies errors)",
    "a generated module the type checker rejects is a generator defect: counted, never reported as a violation",
];

pub const RULE: &str = "typed mini-Aiken modules (0-3 data types incl. records, generic and recursive ones; module constants; a library of generic higher-order helpers; 0-4 generated helpers using structural recursion on lists / data types and count-down recursion; one monomorphic entry function) printed to source, compiled through parser -> type checker -> code generator (the `aiken export` path) and evaluated on 6-10 argument tuples generated from the parameter types. Non-trivial = the reference run returns a value (or aborts after >= 8 steps) and exercised at least one of {when with >= 2 clauses, recursion depth >= 2, higher-order call, Data cast, record update}; distinct by (source, arguments).";

pub struct Case {
    pub module: Module,
    pub source: String,
    pub entry: Entry,
    pub args: Vec<Vec<V>>,
    pub used: BTreeMap<&'static str, u32>,
}

pub fn gen_case(src: &mut Src, cfg: &AikCfg, nargs: usize) -> Case {
    let mut g = Gen::new(src, cfg.clone());
    let entry = g.module();
    let mut args = vec![];
    for k in 0..nargs {
        let tuple: Vec<V> = entry.params.iter().map(|t| g.value(t, if k == 0 { 1 } else { 3 })).collect();
        args.push(tuple);
    }
    let used = std::mem::take(&mut g.used);
    let module = std::mem::take(&mut g.m);
    let source = print_module(&module);
    Case { module, source, entry, args, used }
}

pub struct Compiled {
    pub proj: Proj,
    pub program: Program<NamedDeBruijn>,
    /// the program handed to the optimiser (hook H1), interned and converted
    pub pre: Option<Program<NamedDeBruijn>>,
    pub pre_named: Option<Program<uplc::ast::Name>>,
    pub post_named: Program<uplc::ast::Name>,
}

pub fn intern_to_ndb(p: &Program<uplc::ast::Name>) -> Option<Program<NamedDeBruijn>> {
    // `(lam __no_inline__ X)` is a marker for the optimiser, not a binder: the reference program is
    // the recorded one with the markers (and nothing else) removed
    let mut q = p.clone().clean_up_no_inlines();
    uplc::optimize::interner::CodeGenInterner::new().program(&mut q);
    aik::to_ndb(&q).ok()
}

pub enum CompileOutcome {
    Ok(Box<Compiled>),
    Rejected(CompileError),
    Panic((String, String)),
    FreeUnique(String),
}

pub fn compile_entry(source: &str, tracing: Tracing) -> CompileOutcome {
    let r = no_panic(|| {
        let mut proj = Proj::new();
        match proj.add_module("m", ModuleKind::Lib, source, tracing) {
            Ok(_) => {}
            Err(e) => return Err(e),
        }
        aiken_lang::verif_hooks::start_recording();
        let program = {
            let mut g = proj.generator(PlutusVersion::V3, tracing);
            aik::compile_fn(&proj, &mut g, 0, "entry").expect("entry function")
        };
        let pre = aiken_lang::verif_hooks::take_recorded().pop();
        Ok((proj, program, pre))
    });
    match r {
        Err(p) => CompileOutcome::Panic(p),
        Ok(Err(e)) => CompileOutcome::Rejected(e),
        Ok(Ok((proj, program, pre))) => match aik::to_ndb(&program) {
            Ok(p) => CompileOutcome::Ok(Box::new(Compiled { proj, program: p, pre: pre.as_ref().and_then(intern_to_ndb), pre_named: pre, post_named: program })),
            Err(e) => CompileOutcome::FreeUnique(e),
        },
    }
}

/// Normalised view of an evaluation result.
#[derive(Debug, Clone, PartialEq)]
pub enum Norm {
    Data(D),
    Other(String),
}

pub fn norm_result(t: &Term<NamedDeBruijn>) -> Norm {
    match t {
        Term::Constant(c) => match &**c {
            Constant::Data(d) => Norm::Data(D::from_plutus(d)),
            Constant::Integer(i) => Norm::Data(D::I(i.clone())),
            Constant::ByteString(b) => Norm::Data(D::B(b.clone())),
            Constant::Bool(b) => Norm::Data(D::C(*b as u64, vec![])),
            Constant::Unit => Norm::Data(D::C(0, vec![])),
            other => Norm::Other(format!("{other:?}")),
        },
        other => Norm::Other(other.to_pretty()),
    }
}

#[derive(Debug, Clone, PartialEq)]
pub enum Expected {
    Value(D),
    Abort(&'static str),
    Skip(String),
}

pub fn model_run(case_module: &Module, entry: &Entry, args: &[V], fuel: u64) -> (Expected, crate::model::interp::Features) {
    let mut it = Interp::new(case_module, fuel);
    let r = it.call_named(&entry.name, args.to_vec());
    let feat = it.feat.clone();
    let exp = match r {
        Ok(V::Data(d)) => Expected::Value(d),
        Ok(v) => match it.to_data(&v, &entry.ret) {
            Ok(d) => Expected::Value(d),
            Err(e) => Expected::Skip(format!("{e:?}")),
        },
        Err(Stop::Abort(why)) => Expected::Abort(why),
        Err(Stop::Fuel) => Expected::Skip("fuel".into()),
        Err(Stop::Unsupported(w)) => Expected::Skip(format!("unsupported: {w}")),
    };
    (exp, feat)
}

pub fn args_to_data(m: &Module, entry: &Entry, args: &[V]) -> Option<Vec<D>> {
    let it = Interp::new(m, 0);
    args.iter().zip(&entry.params).map(|(v, t)| it.to_data(v, t).ok()).collect()
}

pub fn is_nontrivial(exp: &Expected, f: &crate::model::interp::Features) -> bool {
    let feature = f.when_multi > 0 || f.max_rec_depth >= 2 || f.higher_order > 0 || f.data_cast > 0 || f.record_update > 0;
    match exp {
        Expected::Value(_) => feature,
        Expected::Abort(_) => feature && f.steps >= 8,
        Expected::Skip(_) => false,
    }
}

pub fn compare(exp: &Expected, out: &Outcome) -> Result<(), (String, J)> {
    match (exp, out) {
        (Expected::Skip(_), _) => Ok(()),
        (Expected::Value(d), Outcome::Value(t)) => {
            let got = norm_result(t);
            if got == Norm::Data(d.clone()) {
                Ok(())
            } else {
                Err(("value-differs".into(), json!({"expected": d.show(), "actual": match got { Norm::Data(g) => g.show(), Norm::Other(s) => s }})))
            }
        }
        (Expected::Abort(_), Outcome::Error(k, _)) if k == "OutOfExError" => Ok(()),
        (Expected::Abort(_), Outcome::Error(..)) => Ok(()),
        (Expected::Value(d), Outcome::Error(k, detail)) => {
            if k == "OutOfExError" {
                return Ok(());
            }
            Err((format!("aborts-where-source-returns:{k}"), json!({"expected": d.show(), "actual_error": detail})))
        }
        (Expected::Abort(why), Outcome::Value(t)) => Err(("returns-where-source-aborts".into(), json!({"expected_abort": why, "actual": match norm_result(t) { Norm::Data(g) => g.show(), Norm::Other(s) => s }}))),
    }
}

/// Known finding `optimiser:data-cast-check-elided`: under silent or compact compiler-generated traces `expect x: Int = d`
/// lowers to `unIData d`; when `x` is then only cast back to Data the optimiser cancels
/// `iData (unIData d)` to `d` and the failure for a `d` of another kind disappears. Recognised by:
/// non-verbose tracing, the model aborts on exactly that primitive-kind check, the program handed to the
/// optimiser aborts, the optimised one returns.
pub const KNOWN_CAST_ELISION: &str = "optimiser:data-cast-check-elided";

pub fn known_cast_elision(exp: &Expected, out: &Outcome, compiled: &Compiled, args: &[uplc::PlutusData], tracing: Tracing) -> Option<&'static str> {
    if matches!(tracing.trace_level(true), TraceLevel::Verbose) {
        return None;
    }
    if !matches!(exp, Expected::Abort(r) if *r == crate::model::interp::CAST_PRIM_KIND) || !matches!(out, Outcome::Value(_)) {
        return None;
    }
    let pre = compiled.pre.as_ref()?;
    match aik::eval_with_args(pre, args).0 {
        Outcome::Error(..) => Some(KNOWN_CAST_ELISION),
        Outcome::Value(_) => None,
    }
}

fn describe(case: &Case, data: &[D]) -> J {
    json!({"source": case.source, "args": data.iter().map(|d| d.show()).collect::<Vec<_>>()})
}

pub const FUEL: u64 = 150_000;

pub fn judge_case(case: &Case, tracing: Tracing, st: &mut Stats) -> CheckResult {
    st.eval();
    let compiled = match compile_entry(&case.source, tracing) {
        CompileOutcome::Ok(c) => c,
        CompileOutcome::Rejected(e) => {
            st.class("generator:rejected-by-checker");
            st.class(&format!("generator:rejected:{}", format!("{e:?}").chars().filter(|c| c.is_alphanumeric() || *c == ' ').take(60).collect::<String>()));
            if std::env::var("VERIF_SHOW_REJECTS").is_ok() {
                let msg = format!("{e:?}");
                let span = msg.find("span: ").or(msg.find("location: ")).map(|i| &msg[i..]).and_then(|t| {
                    let t = t.split_once(' ')?.1;
                    let (a, rest) = t.split_once("..")?;
                    let b: String = rest.chars().take_while(|c| c.is_ascii_digit()).collect();
                    Some((a.trim().parse::<usize>().ok()?, b.parse::<usize>().ok()?))
                });
                let ctx = span.map(|(a, b)| {
                    let lo = a.saturating_sub(160);
                    let hi = (b + 60).min(case.source.len());
                    format!("{}>>>{}<<<{}", case.source.get(lo..a).unwrap_or(""), case.source.get(a..b).unwrap_or(""), case.source.get(b..hi).unwrap_or(""))
                });
                eprintln!("---- rejected: {}\n{}\n", msg.chars().take(300).collect::<String>(), ctx.unwrap_or_default());
            }
            return Ok(());
        }
        CompileOutcome::Panic(_) => {
            st.class("skipped:compiler-panic(judged-by-C10)");
            return Ok(());
        }
        CompileOutcome::FreeUnique(_) => {
            st.class("skipped:free-unique(judged-by-C06)");
            return Ok(());
        }
    };
    st.class("compiled");
    for (k, n) in &case.used {
        st.class_n(&format!("gen:{k}"), *n as u64);
    }
    for (arg_index, args) in case.args.iter().enumerate() {
        let Some(data) = args_to_data(&case.module, &case.entry, args) else {
            st.class("skipped:argument-encoding");
            continue;
        };
        let (exp, feat) = model_run(&case.module, &case.entry, args, FUEL);
        match &exp {
            Expected::Skip(w) => {
                st.class(&format!("skipped:model:{}", w.chars().take(40).collect::<String>()));
                continue;
            }
            Expected::Value(_) => st.class("model:value"),
            Expected::Abort(_) => st.class("model:abort"),
        }
        let pd: Vec<uplc::PlutusData> = data.iter().map(|d| d.to_plutus()).collect();
        let input = describe(case, &data);
        let (out, _logs, _cost) = no_panic(|| aik::eval_with_args(&compiled.program, &pd)).map_err(|p| panic_failure("eval", p, input.clone()))?;
        st.evals(1);
        if let Err((mut sig, mut detail)) = compare(&exp, &out) {
            if let Some(k) = known_cast_elision(&exp, &out, &compiled, &pd, tracing) {
                sig = k.to_string();
            }
            detail["input"] = input;
            detail["arg_index"] = json!(arg_index);
            return Err(Failure::new(sig, detail));
        }
        if is_nontrivial(&exp, &feat) {
            st.nontrivial(&(case.source.as_str(), format!("{data:?}")));
            st.sample(|| json!({"source": case.source, "args": data.iter().map(|d| d.show()).collect::<Vec<_>>(), "expected": format!("{exp:?}"), "model_steps": feat.steps}));
            for (name, on) in [
                ("when>=2", feat.when_multi > 0),
                ("recursion>=2", feat.max_rec_depth >= 2),
                ("higher-order", feat.higher_order > 0),
                ("data-cast", feat.data_cast > 0),
                ("record-update", feat.record_update > 0),
                ("erased-let", feat.erased_let > 0),
                ("short-circuit", feat.short_circuit > 0),
                ("generic-call", feat.generic_call > 0),
            ] {
                if on {
                    st.class(&format!("feature:{name}"));
                }
            }
        }
    }
    Ok(())
}

thread_local! {
    static SHRUNK: std::cell::RefCell<Option<(u64, Failure)>> = const { std::cell::RefCell::new(None) };
}

/// Judge a generated case with `judge`; on failure shrink the module syntactically (keeping only
/// the failing argument tuple) and report the failure of the shrunk case.
pub fn judge_and_shrink(case: Case, st: &mut Stats, judge: &dyn Fn(&Case, &mut Stats) -> CheckResult) -> CheckResult {
    let fail = match judge(&case, st) {
        Ok(()) => return Ok(()),
        Err(f) => f,
    };
    let key = hash_of(&(case.source.as_str(), fail.signature.as_str()));
    if let Some(f) = SHRUNK.with(|c| c.borrow().as_ref().filter(|(k, _)| *k == key).map(|(_, f)| f.clone())) {
        return Err(f);
    }
    let ix = fail.detail["arg_index"].as_u64().unwrap_or(0) as usize;
    let args = vec![case.args.get(ix).cloned().unwrap_or_default()];
    let entry_params = case.entry.params.clone();
    let entry_ret = case.entry.ret.clone();
    let want = fail.signature.clone();
    let mk = |m: &Module| -> Option<Case> {
        let source = no_panic(|| print_module(m)).ok()?;
        Some(Case { module: m.clone(), source, entry: Entry { name: "entry".into(), params: entry_params.clone(), ret: entry_ret.clone() }, args: args.clone(), used: BTreeMap::new() })
    };
    let budget: usize = std::env::var("VERIF_AST_SHRINK").ok().and_then(|s| s.parse().ok()).unwrap_or(1500);
    let small = crate::gen_::aiken_shrink::shrink_module(&case.module, budget, |m| {
        let Some(c) = mk(m) else { return false };
        let mut scratch = Stats::scratch();
        matches!(no_panic(|| judge(&c, &mut scratch)), Ok(Err(f)) if f.signature == want)
    });
    let out = match mk(&small) {
        Some(c) => {
            let mut scratch = Stats::scratch();
            match judge(&c, &mut scratch) {
                Err(f) => f,
                Ok(()) => fail,
            }
        }
        None => fail,
    };
    SHRUNK.with(|c| *c.borrow_mut() = Some((key, out.clone())));
    Err(out)
}

/// Replay of a plain description: source text + argument data + expected outcome.
pub fn judge_source(input: &J, st: &mut Stats) -> CheckResult {
    st.eval();
    let source = input["source"].as_str().unwrap_or("");
    let compiled = match compile_entry(source, Tracing::All(TraceLevel::Verbose)) {
        CompileOutcome::Ok(c) => c,
        _ => return Err(Failure::new("replay:does-not-compile", json!({"input": input}))),
    };
    let args: Vec<uplc::PlutusData> = input["args"]
        .as_array()
        .into_iter()
        .flatten()
        .filter_map(|a| match uplc::parser::term(&format!("(con data ({}))", a.as_str().unwrap_or(""))) {
            Ok(Term::Constant(c)) => match &*c {
                Constant::Data(d) => Some(d.clone()),
                _ => None,
            },
            _ => None,
        })
        .collect();
    let (out, _, _) = aik::eval_with_args(&compiled.program, &args);
    let want_abort = input["expected_abort"].as_bool().unwrap_or(false);
    match (&out, want_abort) {
        (Outcome::Error(..), true) => Ok(()),
        (Outcome::Value(t), false) => {
            let got = match norm_result(t) {
                Norm::Data(d) => d.show(),
                Norm::Other(s) => s,
            };
            if Some(got.as_str()) == input["expected_value"].as_str() {
                Ok(())
            } else {
                Err(Failure::new("value-differs", json!({"input": input, "actual": got})))
            }
        }
        (Outcome::Error(k, d), false) => Err(Failure::new(format!("aborts-where-source-returns:{k}"), json!({"input": input, "actual_error": d}))),
        (Outcome::Value(t), true) => Err(Failure::new("returns-where-source-aborts", json!({"input": input, "actual": t.to_pretty()}))),
    }
}

pub fn run(cx: &mut Cx) -> String {
    let tier = cx.tier;
    if let Some(input) = cx.replay_input("source-replay") {
        cx.direct("source-replay", &input, |st| judge_source(&input, st));
    }
    if !cx.is_replay() && cx.worker == 0 {
        // fixed probe for the recorded known finding (the generators exclude its shape)
        let src_text = crate::props::c02::LAZY_BINDING_SOURCE;
        let input = json!({"source": src_text, "args": ["I 0", "Constr 0 []"], "expected_abort": true});
        cx.direct("known-finding-probe:lazy-binding", &input, |st| match judge_source(&input, st) {
            Err(f) if f.signature == "returns-where-source-aborts" => Err(Failure::new(crate::props::c02::KNOWN_LAZY_BINDING, f.detail)),
            other => other,
        });
    }
    let cfg = AikCfg::default();
    // failures are shrunk on the syntax tree (judge_and_shrink), not on the choice sequence
    cx.shrink_iters = 0;
    cx.prop("generated-modules", tier.of(12_000, 300_000), 3000, |src, st| {
        let case = gen_case(src, &cfg, 8);
        judge_and_shrink(case, st, &|c, st| judge_case(c, Tracing::All(TraceLevel::Verbose), st))
    });
    let cfg2 = AikCfg { abort_weight: 0, trace_weight: 0, max_depth: 6, ..AikCfg::default() };
    cx.prop("generated-modules-total", tier.of(6_000, 150_000), 3000, |src, st| {
        let case = gen_case(src, &cfg2, 8);
        judge_and_shrink(case, st, &|c, st| judge_case(c, Tracing::All(TraceLevel::Silent), st))
    });
    // focus: refutable `expect` patterns (lists with discards and open tails, constructors,
    // refined tuples) on values near the pattern's boundary
    let cfg3 = AikCfg { expect_weight: 24, abort_weight: 1, trace_weight: 0, cast_weight: 2, max_helpers: 1, max_depth: 4, ..AikCfg::default() };
    for (name, tracing) in [("expect-patterns-verbose", Tracing::All(TraceLevel::Verbose)), ("expect-patterns-silent", Tracing::All(TraceLevel::Silent))] {
        cx.prop(name, tier.of(4_000, 100_000), 3000, |src, st| {
            let case = gen_case(src, &cfg3, 6);
            judge_and_shrink(case, st, &|c, st| judge_case(c, tracing, st))
        });
    }
    // focus: the same generic helpers instantiated at plain lists and at associative lists
    // (`List<Pair<k, v>>` is a map at the Data level) within one program (shared with C06)
    let cfg4 = AikCfg { pairs_bias: true, cast_weight: 8, abort_weight: 1, trace_weight: 0, expect_weight: 1, closure_weight: 0, max_adts: 1, max_helpers: 2, ..AikCfg::default() };
    cx.prop("pairs-and-lists", tier.of(14_000, 300_000), 3000, |src, st| {
        let case = gen_case(src, &cfg4, 8);
        judge_and_shrink(case, st, &|c, st| judge_case(c, Tracing::All(TraceLevel::Silent), st))
    });
    RULE.to_string()
}

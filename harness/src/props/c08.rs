//! C08 — script bytes, hashes and addresses survive every tool round trip.
use crate::engine::*;
use crate::gen_::consts;
use crate::gen_::uplc::{self as gu, T};
use crate::model::blake2b::blake2b_224;
use crate::props::c15::{enrich, t_eq};
use pallas_primitives::conway::Language;
use serde_json::json;
use std::rc::Rc;
use uplc::ast::{Constant, DeBruijn, FakeNamedDeBruijn, Name, NamedDeBruijn, Program, SerializableProgram, Term, Unique};

pub const ASSUMPTIONS: &[&str] = &[
    "BLS constants are outside the flat domain: the encoder documents them as unsupported (asserted to return Err, not to panic)",
    "the ledger script hash is blake2b-224 over (language tag byte || CBOR-wrapped flat bytes); recomputed with the harness' own BLAKE2b (self-tested against Python hashlib vectors)",
    "text-level conversions (decode = print, encode = parse) are only required to be byte-stable for Data constants in the encoding the toolchain itself builds; the textual syntax cannot carry definite/indefinite CBOR choices",
];

pub const RULE: &str = "programs from the chaotic term generator enriched with constants of every type nesting (big integers, byte strings up to 1000 bytes incl. > 64-byte chunks, unicode strings, nested lists/pairs, Data with definite and indefinite containers, BigUInt/BigNInt forms and all constructor-tag ranges) in the binder forms Name / NamedDeBruijn / DeBruijn / FakeNamedDeBruijn and several versions. Checked: from_flat(to_flat(p)) = p (own deep comparison incl. binder texts/uniques), same through CBOR and hex; to_flat(from_flat(b)) = b bit for bit; decode->print->parse->encode reproduces b; SerializableProgram JSON round trip keeps version, code bytes and hash, and the hash equals an independently computed blake2b-224; address payment part = that hash; blueprint entries with valid but foreign code bytes (longer CBOR length header, chunked byte string, bytes after the flat stream, double wrapping) published with the true hash of those bytes are either refused or reproduced bit for bit on save. Non-trivial = the program has a composite or Data constant with an indefinite container or a byte string > 64 bytes, or >= 3 binders; distinct by flat bytes.";

fn binders(t: &T) -> usize {
    match t {
        T::Lam(b) => 1 + binders(b),
        T::Delay(b) | T::Force(b) => binders(b),
        T::App(f, a) => binders(f) + binders(a),
        T::Constr(_, fs) => fs.iter().map(binders).sum(),
        T::Case(s, bs) => binders(s) + bs.iter().map(binders).sum::<usize>(),
        _ => 0,
    }
}

fn has_rich_const(t: &T) -> bool {
    match t {
        T::Con(c) => match &**c {
            Constant::ProtoList(..) | Constant::ProtoPair(..) | Constant::Data(_) => true,
            Constant::ByteString(b) => b.len() > 64,
            _ => false,
        },
        T::Lam(b) | T::Delay(b) | T::Force(b) => has_rich_const(b),
        T::App(f, a) => has_rich_const(f) || has_rich_const(a),
        T::Constr(_, fs) => fs.iter().any(has_rich_const),
        T::Case(s, bs) => has_rich_const(s) || bs.iter().any(has_rich_const),
        _ => false,
    }
}

fn named_eq(a: &Term<Name>, b: &Term<Name>) -> bool {
    match (a, b) {
        (Term::Var(x), Term::Var(y)) => x.text == y.text && x.unique == y.unique,
        (Term::Lambda { parameter_name: p, body: x }, Term::Lambda { parameter_name: q, body: y }) => {
            p.text == q.text && p.unique == q.unique && named_eq(x, y)
        }
        (Term::Apply { function: f, argument: x }, Term::Apply { function: g, argument: y }) => named_eq(f, g) && named_eq(x, y),
        (Term::Delay(x), Term::Delay(y)) | (Term::Force(x), Term::Force(y)) => named_eq(x, y),
        (Term::Constant(x), Term::Constant(y)) => crate::props::c15::const_eq(x, y) && x == y,
        (Term::Builtin(f), Term::Builtin(g)) => f == g,
        (Term::Error, Term::Error) => true,
        (Term::Constr { tag: t1, fields: f1 }, Term::Constr { tag: t2, fields: f2 }) => {
            t1 == t2 && f1.len() == f2.len() && f1.iter().zip(f2).all(|(x, y)| named_eq(x, y))
        }
        (Term::Case { constr: s1, branches: b1 }, Term::Case { constr: s2, branches: b2 }) => {
            named_eq(s1, s2) && b1.len() == b2.len() && b1.iter().zip(b2).all(|(x, y)| named_eq(x, y))
        }
        _ => false,
    }
}

fn ndb_eq(a: &Term<NamedDeBruijn>, b: &Term<NamedDeBruijn>) -> bool {
    match (a, b) {
        (Term::Var(x), Term::Var(y)) => x.text == y.text && x.index == y.index,
        (Term::Lambda { parameter_name: p, body: x }, Term::Lambda { parameter_name: q, body: y }) => {
            p.text == q.text && p.index == q.index && ndb_eq(x, y)
        }
        (Term::Apply { function: f, argument: x }, Term::Apply { function: g, argument: y }) => ndb_eq(f, g) && ndb_eq(x, y),
        (Term::Delay(x), Term::Delay(y)) | (Term::Force(x), Term::Force(y)) => ndb_eq(x, y),
        (Term::Constant(x), Term::Constant(y)) => x == y,
        (Term::Builtin(f), Term::Builtin(g)) => f == g,
        (Term::Error, Term::Error) => true,
        (Term::Constr { tag: t1, fields: f1 }, Term::Constr { tag: t2, fields: f2 }) => {
            t1 == t2 && f1.len() == f2.len() && f1.iter().zip(f2).all(|(x, y)| ndb_eq(x, y))
        }
        (Term::Case { constr: s1, branches: b1 }, Term::Case { constr: s2, branches: b2 }) => {
            ndb_eq(s1, s2) && b1.len() == b2.len() && b1.iter().zip(b2).all(|(x, y)| ndb_eq(x, y))
        }
        _ => false,
    }
}

/// Names with arbitrary texts and uniques (the flat form stores both).
fn to_named_arbitrary(src: &mut Src, t: &T) -> Term<Name> {
    fn go(src: &mut Src, t: &T, scope: &mut Vec<Rc<Name>>) -> Term<Name> {
        let fresh = |src: &mut Src| {
            let text = match src.below(4) {
                0 => String::new(),
                1 => "x".to_string(),
                2 => consts::gen_string(src),
                _ => format!("n{}", src.below(1000)),
            };
            let unique = match src.below(4) {
                0 => 0isize,
                1 => src.below(100) as isize,
                2 => -(src.below(100) as isize),
                _ => *src.pick(&[isize::MAX, isize::MIN, 1 << 40, -(1 << 40)]),
            };
            Rc::new(Name {
                text,
                unique: Unique::new(unique),
            })
        };
        match t {
            T::Var(i) => {
                if *i >= 1 && *i <= scope.len() {
                    Term::Var(scope[scope.len() - i].clone())
                } else {
                    Term::Var(fresh(src))
                }
            }
            T::Lam(b) => {
                let n = fresh(src);
                scope.push(n.clone());
                let body = go(src, b, scope);
                scope.pop();
                Term::Lambda {
                    parameter_name: n,
                    body: Rc::new(body),
                }
            }
            T::App(f, a) => Term::Apply {
                function: Rc::new(go(src, f, scope)),
                argument: Rc::new(go(src, a, scope)),
            },
            T::Delay(b) => Term::Delay(Rc::new(go(src, b, scope))),
            T::Force(b) => Term::Force(Rc::new(go(src, b, scope))),
            T::Con(c) => Term::Constant(c.clone()),
            T::Builtin(f) => Term::Builtin(*f),
            T::Error => Term::Error,
            T::Constr(tag, fs) => Term::Constr {
                tag: *tag,
                fields: fs.iter().map(|f| go(src, f, scope)).collect(),
            },
            T::Case(s, bs) => Term::Case {
                constr: Rc::new(go(src, s, scope)),
                branches: bs.iter().map(|f| go(src, f, scope)).collect(),
            },
        }
    }
    go(src, t, &mut vec![])
}

fn gen_version(src: &mut Src) -> (usize, usize, usize) {
    *src.pick(&[(1, 1, 0), (1, 0, 0), (0, 0, 0), (2, 7, 300), (usize::MAX >> 1, 1 << 40, 99)])
}

/// A term with rich constants; `exotic` also uses non-canonical Data encodings.
fn gen_program_term(src: &mut Src, exotic: bool) -> T {
    let mut fuel = 1 + src.below(30);
    let base = gu::gen_chaotic(src, 0, &mut fuel, true);
    let t = enrich(src, &base, false);
    if exotic {
        inject_exotic(src, &t)
    } else {
        t
    }
}

fn inject_exotic(src: &mut Src, t: &T) -> T {
    match t {
        T::Con(c) if matches!(&**c, Constant::Data(_)) || src.chance(1, 6) => {
            T::con(Constant::Data(consts::gen_data_with(src, 3, true, true)))
        }
        T::Lam(b) => T::Lam(Rc::new(inject_exotic(src, b))),
        T::Delay(b) => T::Delay(Rc::new(inject_exotic(src, b))),
        T::Force(b) => T::Force(Rc::new(inject_exotic(src, b))),
        T::App(f, a) => T::App(Rc::new(inject_exotic(src, f)), Rc::new(inject_exotic(src, a))),
        T::Constr(tag, fs) => T::Constr(*tag, fs.iter().map(|f| inject_exotic(src, f)).collect()),
        T::Case(s, bs) => T::Case(Rc::new(inject_exotic(src, s)), bs.iter().map(|f| inject_exotic(src, f)).collect()),
        other => other.clone(),
    }
}

fn fail(sig: &str, input: &serde_json::Value, extra: serde_json::Value) -> Failure {
    Failure::new(sig, json!({"input": input, "detail": extra}))
}

fn judge_binary(src: &mut Src, st: &mut Stats) -> CheckResult {
    st.eval();
    let exotic = src.chance(1, 3);
    let t = gen_program_term(src, exotic);
    let version = gen_version(src);
    let input = json!({"term": t.show(), "version": format!("{version:?}"), "exotic_data": exotic});

    // --- DeBruijn
    let p_db = Program { version, term: t.to_db() };
    let flat = no_panic(|| p_db.to_flat()).map_err(|p| panic_failure("to_flat", p, input.clone()))?;
    let flat = flat.map_err(|e| fail("to_flat-error", &input, json!(e.to_string())))?;
    let back = no_panic(|| Program::<DeBruijn>::from_flat(&flat)).map_err(|p| panic_failure("from_flat", p, input.clone()))?;
    let back = back.map_err(|e| fail("from_flat-rejects-own-output", &input, json!({"error": e.to_string(), "flat": hex::encode(&flat)})))?;
    if back.version != version || !t_eq(&T::from_db(&back.term), &t) || back != p_db {
        return Err(fail("flat-roundtrip-differs:debruijn", &input, json!({"actual": T::from_db(&back.term).show()})));
    }
    let flat2 = back.to_flat().map_err(|e| fail("to_flat-error", &input, json!(e.to_string())))?;
    if flat2 != flat {
        return Err(fail("flat-bytes-unstable:debruijn", &input, json!({"first": hex::encode(&flat), "second": hex::encode(&flat2)})));
    }
    // cbor + hex
    let cbor = p_db.to_cbor().map_err(|e| fail("to_cbor-error", &input, json!(e.to_string())))?;
    let mut buf = vec![];
    let from_cbor = no_panic(|| Program::<DeBruijn>::from_cbor(&cbor, &mut buf)).map_err(|p| panic_failure("from_cbor", p, input.clone()))?;
    match from_cbor {
        Ok(q) if q == p_db && t_eq(&T::from_db(&q.term), &t) => {
            if q.to_cbor().ok().as_ref() != Some(&cbor) {
                return Err(fail("cbor-bytes-unstable", &input, json!(hex::encode(&cbor))));
            }
        }
        other => return Err(fail("cbor-roundtrip-differs", &input, json!(format!("{:?}", other.map(|q| T::from_db(&q.term).show()).map_err(|e| e.to_string()))))),
    }
    let hex_s = p_db.to_hex().map_err(|e| fail("to_hex-error", &input, json!(e.to_string())))?;
    if hex_s != hex::encode(&cbor) {
        return Err(fail("hex-is-not-hex-of-cbor", &input, json!(hex_s)));
    }
    let (mut b1, mut b2) = (vec![], vec![]);
    match Program::<DeBruijn>::from_hex(&hex_s, &mut b1, &mut b2) {
        Ok(q) if q == p_db => {}
        other => return Err(fail("hex-roundtrip-differs", &input, json!(format!("{:?}", other.map(|q| T::from_db(&q.term).show()).map_err(|e| e.to_string()))))),
    }

    // --- FakeNamedDeBruijn and NamedDeBruijn decode the same on-chain bytes
    match Program::<FakeNamedDeBruijn>::from_flat(&flat) {
        Ok(q) => {
            let ndb: Program<NamedDeBruijn> = q.clone().into();
            if !t_eq(&T::from_ndb(&ndb.term), &t) {
                return Err(fail("flat-roundtrip-differs:fake-named-debruijn", &input, json!(T::from_ndb(&ndb.term).show())));
            }
            if q.to_flat().ok().as_ref() != Some(&flat) {
                return Err(fail("flat-bytes-unstable:fake-named-debruijn", &input, json!(hex::encode(&flat))));
            }
        }
        Err(e) => return Err(fail("from_flat-rejects-own-output:fake-named-debruijn", &input, json!(e.to_string()))),
    }

    // --- NamedDeBruijn (texts are part of the encoding)
    let p_ndb = {
        let mut term = t.to_ndb();
        // give binders some texts
        fn retext(src: &mut Src, t: &mut Term<NamedDeBruijn>) {
            match t {
                Term::Var(n) => Rc::make_mut(n).text = format!("v{}", src.below(5)),
                Term::Lambda { parameter_name, body } => {
                    Rc::make_mut(parameter_name).text = consts::gen_string(src);
                    retext(src, Rc::make_mut(body));
                }
                Term::Apply { function, argument } => {
                    retext(src, Rc::make_mut(function));
                    retext(src, Rc::make_mut(argument));
                }
                Term::Delay(b) | Term::Force(b) => retext(src, Rc::make_mut(b)),
                Term::Constr { fields, .. } => fields.iter_mut().for_each(|f| retext(src, f)),
                Term::Case { constr, branches } => {
                    retext(src, Rc::make_mut(constr));
                    branches.iter_mut().for_each(|f| retext(src, f));
                }
                _ => {}
            }
        }
        retext(src, &mut term);
        Program { version, term }
    };
    let f_ndb = p_ndb.to_flat().map_err(|e| fail("to_flat-error:named-debruijn", &input, json!(e.to_string())))?;
    match Program::<NamedDeBruijn>::from_flat(&f_ndb) {
        Ok(q) if q.version == version && ndb_eq(&q.term, &p_ndb.term) => {
            if q.to_flat().ok().as_ref() != Some(&f_ndb) {
                return Err(fail("flat-bytes-unstable:named-debruijn", &input, json!(hex::encode(&f_ndb))));
            }
        }
        other => return Err(fail("flat-roundtrip-differs:named-debruijn", &input, json!(format!("{:?}", other.map(|q| T::from_ndb(&q.term).show()).map_err(|e| e.to_string()))))),
    }

    // --- Name (text and unique are part of the encoding)
    let p_name = Program { version, term: to_named_arbitrary(src, &t) };
    let f_name = p_name.to_flat().map_err(|e| fail("to_flat-error:name", &input, json!(e.to_string())))?;
    match Program::<Name>::from_flat(&f_name) {
        Ok(q) if q.version == version && named_eq(&q.term, &p_name.term) => {
            if q.to_flat().ok().as_ref() != Some(&f_name) {
                return Err(fail("flat-bytes-unstable:name", &input, json!(hex::encode(&f_name))));
            }
        }
        other => return Err(fail("flat-roundtrip-differs:name", &input, json!(format!("{:?}", other.map(|_| "decoded to a different program").map_err(|e| e.to_string()))))),
    }

    // --- published hash / blueprint JSON
    let lang = src.below(3);
    let (sp, tag, language) = match lang {
        0 => (SerializableProgram::PlutusV1Program(p_db.clone()), 1u8, Language::PlutusV1),
        1 => (SerializableProgram::PlutusV2Program(p_db.clone()), 2u8, Language::PlutusV2),
        _ => (SerializableProgram::PlutusV3Program(p_db.clone()), 3u8, Language::PlutusV3),
    };
    let js = no_panic(|| serde_json::to_value(&sp)).map_err(|p| panic_failure("serialize SerializableProgram", p, input.clone()))?;
    let js = js.map_err(|e| fail("serialize-error", &input, json!(e.to_string())))?;
    let mut preimage = vec![tag];
    preimage.extend_from_slice(&cbor);
    let want_hash = hex::encode(blake2b_224(&preimage));
    if js["compiledCode"].as_str() != Some(&hex_s) {
        return Err(fail("blueprint-compiled-code-differs", &input, js.clone()));
    }
    if js["hash"].as_str() != Some(&want_hash) {
        return Err(fail("blueprint-hash-is-not-ledger-hash", &input, json!({"published": js["hash"], "recomputed": want_hash, "language_tag": tag})));
    }
    let back: Result<SerializableProgram, _> = no_panic(|| serde_json::from_value(js.clone())).map_err(|p| panic_failure("deserialize SerializableProgram", p, input.clone()))?;
    match back {
        Ok(b) => {
            if b != sp {
                return Err(fail("blueprint-load-changes-version-or-program", &input, json!({"loaded": format!("{:?}", std::mem::discriminant(&b)), "language_tag": tag})));
            }
            let js2 = serde_json::to_value(&b).unwrap();
            if js2 != js {
                return Err(fail("blueprint-save-load-save-differs", &input, json!({"first": js, "second": js2})));
            }
        }
        Err(e) => return Err(fail("blueprint-load-rejects-own-output", &input, json!(e.to_string()))),
    }
    let addr = p_db.address(
        pallas_addresses::Network::Testnet,
        pallas_addresses::ShelleyDelegationPart::Null,
        &language,
    );
    let payment_hex = hex::encode(addr.payment().as_hash().as_ref());
    if payment_hex != want_hash {
        return Err(fail("address-payment-part-is-not-script-hash", &input, json!({"address": payment_hex, "hash": want_hash})));
    }

    st.class("roundtrip-ok");
    if exotic {
        st.class("with-exotic-data-encoding");
    }
    if has_rich_const(&t) || binders(&t) >= 3 {
        st.nontrivial(&flat);
        st.sample(|| json!({"term": t.show().chars().take(300).collect::<String>(), "flat": hex::encode(&flat).chars().take(120).collect::<String>(), "hash": want_hash}));
    }
    Ok(())
}

/// decode (DeBruijn -> Name -> text) then encode (text -> Name -> DeBruijn -> flat), as the CLI does.
fn judge_cli_path(src: &mut Src, st: &mut Stats) -> CheckResult {
    st.eval();
    let mut fuel = 1 + src.below(30);
    let base = gu::gen_chaotic(src, 0, &mut fuel, false);
    let t = enrich(src, &base, false);
    let version = *src.pick(&[(1, 1, 0), (1, 0, 0), (3, 2, 1)]);
    let input = json!({"term": t.show(), "version": format!("{version:?}")});
    let p_db = Program { version, term: t.to_db() };
    let bytes = p_db.to_cbor().map_err(|e| fail("to_cbor-error", &input, json!(e.to_string())))?;
    // aiken uplc decode
    let mut buf = vec![];
    let decoded = Program::<DeBruijn>::from_cbor(&bytes, &mut buf).map_err(|e| fail("from_cbor-rejects-own-output", &input, json!(e.to_string())))?;
    let named: Program<Name> = no_panic(|| Program::<Name>::try_from(decoded))
        .map_err(|p| panic_failure("debruijn_to_name", p, input.clone()))?
        .map_err(|e| fail("decode-rejects-closed-program", &input, json!(e.to_string())))?;
    let text = no_panic(|| named.to_pretty()).map_err(|p| panic_failure("to_pretty", p, input.clone()))?;
    // aiken uplc encode
    let parsed = no_panic(|| uplc::parser::program(&text))
        .map_err(|p| panic_failure("parser::program", p, input.clone()))?
        .map_err(|e| fail("encode-rejects-decoded-text", &input, json!({"text": text, "error": e.to_string()})))?;
    let again = parsed.to_debruijn().map_err(|e| fail("encode-free-variable", &input, json!(e.to_string())))?;
    let bytes2 = again.to_cbor().map_err(|e| fail("to_cbor-error", &input, json!(e.to_string())))?;
    if bytes2 != bytes {
        return Err(fail("decode-encode-changes-bytes", &input, json!({"before": hex::encode(&bytes), "after": hex::encode(&bytes2), "text": text})));
    }
    st.class("cli-path-ok");
    if has_rich_const(&t) || binders(&t) >= 3 {
        st.nontrivial(&bytes);
    }
    Ok(())
}

fn judge_bls_unsupported(src: &mut Src, st: &mut Stats) -> CheckResult {
    st.eval();
    let c = if src.bool() { crate::props::c15::gen_g1(src) } else { crate::props::c15::gen_g2(src) };
    let t = T::con(c).delay();
    let p = Program { version: (1, 1, 0), term: t.to_db() };
    let r = no_panic(|| p.to_flat()).map_err(|pn| panic_failure("to_flat(bls)", pn, json!({"term": t.show()})))?;
    if r.is_ok() {
        return Err(Failure::new("bls-constant-encoded-although-documented-unsupported", json!({"term": t.show()})));
    }
    st.class("bls-encode-is-error");
    Ok(())
}

// ------------------------------------------------------------------------------------------------
// independent flat encoder for `(program v (con <type> <value>))` with Data leaves: own bit
// writer, CBOR of each Data leaf from pallas' own `Fragment` encoder (never through uplc's flat.rs)

struct Bits {
    out: Vec<u8>,
    cur: u8,
    used: u8,
}

impl Bits {
    fn new() -> Self {
        Bits { out: vec![], cur: 0, used: 0 }
    }
    fn bit(&mut self, b: bool) {
        self.cur = (self.cur << 1) | b as u8;
        self.used += 1;
        if self.used == 8 {
            self.out.push(self.cur);
            self.cur = 0;
            self.used = 0;
        }
    }
    fn bits(&mut self, n: u8, v: u8) {
        for i in (0..n).rev() {
            self.bit((v >> i) & 1 == 1);
        }
    }
    fn word(&mut self, mut v: usize) {
        loop {
            let group = (v & 0x7f) as u8;
            v >>= 7;
            self.bits(8, if v != 0 { group | 0x80 } else { group });
            if v == 0 {
                break;
            }
        }
    }
    /// zero bits then a one, ending on a byte boundary
    fn filler(&mut self) {
        while self.used != 7 {
            self.bit(false);
        }
        self.bit(true);
    }
    fn bytestring(&mut self, b: &[u8]) {
        self.filler();
        for chunk in b.chunks(255) {
            self.out.push(chunk.len() as u8);
            self.out.extend_from_slice(chunk);
        }
        self.out.push(0);
    }
}

fn type_tags(c: &Constant, out: &mut Vec<u8>) -> bool {
    match c {
        Constant::Data(_) => out.push(8),
        Constant::ProtoList(t, _) => {
            out.extend([7, 5]);
            return type_tags_of(t, out);
        }
        Constant::ProtoPair(a, b, _, _) => {
            out.extend([7, 7, 6]);
            return type_tags_of(a, out) && type_tags_of(b, out);
        }
        _ => return false,
    }
    true
}

fn type_tags_of(t: &uplc::ast::Type, out: &mut Vec<u8>) -> bool {
    use uplc::ast::Type;
    match t {
        Type::Data => out.push(8),
        Type::List(e) => {
            out.extend([7, 5]);
            return type_tags_of(e, out);
        }
        Type::Pair(a, b) => {
            out.extend([7, 7, 6]);
            return type_tags_of(a, out) && type_tags_of(b, out);
        }
        _ => return false,
    }
    true
}

fn encode_value(c: &Constant, w: &mut Bits) -> bool {
    use pallas_primitives::Fragment;
    match c {
        Constant::Data(d) => match d.encode_fragment() {
            Ok(cbor) => w.bytestring(&cbor),
            Err(_) => return false,
        },
        Constant::ProtoList(_, items) => {
            for it in items {
                w.bit(true);
                if !encode_value(it, w) {
                    return false;
                }
            }
            w.bit(false);
        }
        Constant::ProtoPair(_, _, a, b) => return encode_value(a, w) && encode_value(b, w),
        _ => return false,
    }
    true
}

fn reference_flat(version: (usize, usize, usize), c: &Constant) -> Option<Vec<u8>> {
    let mut w = Bits::new();
    w.word(version.0);
    w.word(version.1);
    w.word(version.2);
    w.bits(4, 4); // term tag: constant
    let mut tags = vec![];
    if !type_tags(c, &mut tags) {
        return None;
    }
    for t in tags {
        w.bit(true);
        w.bits(4, t);
    }
    w.bit(false);
    if !encode_value(c, &mut w) {
        return None;
    }
    w.filler();
    Some(w.out)
}

/// Constants built from Data leaves in arbitrary (also non-canonical) CBOR encodings.
fn gen_data_const(src: &mut Src, depth: usize) -> Constant {
    let leaf = |src: &mut Src| {
        let exotic = src.chance(3, 4);
        Constant::Data(consts::gen_data_with(src, 3, true, exotic))
    };
    if depth == 0 {
        return leaf(src);
    }
    match src.weighted(&[3, 4, 3]) {
        0 => leaf(src),
        1 => {
            let first = gen_data_const(src, depth - 1);
            let ty = crate::props::c15::type_of(&first);
            let n = src.below(4);
            let mut items = vec![];
            if n > 0 {
                items.push(first);
            }
            for _ in 1..n {
                items.push(gen_data_const_of(src, &ty));
            }
            Constant::ProtoList(ty, items)
        }
        _ => {
            let a = gen_data_const(src, depth - 1);
            let b = gen_data_const(src, depth - 1);
            Constant::ProtoPair(crate::props::c15::type_of(&a), crate::props::c15::type_of(&b), Rc::new(a), Rc::new(b))
        }
    }
}

fn gen_data_const_of(src: &mut Src, t: &uplc::ast::Type) -> Constant {
    use uplc::ast::Type;
    match t {
        Type::List(e) => {
            let n = src.below(3);
            Constant::ProtoList((**e).clone(), (0..n).map(|_| gen_data_const_of(src, e)).collect())
        }
        Type::Pair(a, b) => Constant::ProtoPair((**a).clone(), (**b).clone(), Rc::new(gen_data_const_of(src, a)), Rc::new(gen_data_const_of(src, b))),
        _ => {
            let exotic = src.chance(3, 4);
            Constant::Data(consts::gen_data_with(src, 3, true, exotic))
        }
    }
}

/// Encoding-sensitive rendering of a constant: CBOR bytes of every Data leaf.
fn strict_show(c: &Constant) -> String {
    use pallas_primitives::Fragment;
    match c {
        Constant::Data(d) => format!("data#{}", d.encode_fragment().map(hex::encode).unwrap_or_default()),
        Constant::ProtoList(_, items) => format!("[{}]", items.iter().map(strict_show).collect::<Vec<_>>().join(",")),
        Constant::ProtoPair(_, _, a, b) => format!("({},{})", strict_show(a), strict_show(b)),
        other => format!("{other:?}"),
    }
}

fn judge_nested_data(src: &mut Src, st: &mut Stats) -> CheckResult {
    st.eval();
    let c = gen_data_const(src, 3);
    let version = *src.pick(&[(1usize, 1usize, 0usize), (1, 0, 0), (2, 300, 70000)]);
    let nested = !matches!(c, Constant::Data(_));
    let input = json!({"constant": strict_show(&c).chars().take(600).collect::<String>(), "version": format!("{version:?}")});
    let Some(want) = reference_flat(version, &c) else {
        st.class("skipped:reference-encoder");
        return Ok(());
    };
    let p = Program { version, term: Term::<DeBruijn>::Constant(Rc::new(c.clone())) };
    let got = no_panic(|| p.to_flat()).map_err(|pn| panic_failure("to_flat", pn, input.clone()))?.map_err(|e| fail("to_flat-error", &input, json!(e.to_string())))?;
    if got != want {
        return Err(fail("flat-bytes-differ-from-reference-encoding", &input, json!({"reference": hex::encode(&want), "actual": hex::encode(&got)})));
    }
    // bytes as another conforming encoder produced them: decode, compare leaves by their CBOR, re-encode
    let back = no_panic(|| Program::<DeBruijn>::from_flat(&want)).map_err(|pn| panic_failure("from_flat", pn, input.clone()))?.map_err(|e| fail("from_flat-rejects-reference-bytes", &input, json!({"error": e.to_string(), "flat": hex::encode(&want)})))?;
    match &back.term {
        Term::Constant(c2) if strict_show(c2) == strict_show(&c) => {}
        other => return Err(fail("decoded-constant-differs", &input, json!({"decoded": format!("{other:?}").chars().take(600).collect::<String>()}))),
    }
    let again = back.to_flat().map_err(|e| fail("to_flat-error", &input, json!(e.to_string())))?;
    if again != want {
        return Err(fail("decode-encode-changes-bytes:nested-data", &input, json!({"before": hex::encode(&want), "after": hex::encode(&again)})));
    }
    // hash stability through the blueprint form
    let cbor = back.to_cbor().map_err(|e| fail("to_cbor-error", &input, json!(e.to_string())))?;
    let cbor0 = p.to_cbor().map_err(|e| fail("to_cbor-error", &input, json!(e.to_string())))?;
    if cbor != cbor0 {
        return Err(fail("decode-encode-changes-cbor:nested-data", &input, json!({"before": hex::encode(&cbor0), "after": hex::encode(&cbor)})));
    }
    st.class(if nested { "nested-data:ok" } else { "toplevel-data:ok" });
    if nested {
        st.nontrivial(&want);
        st.sample(|| json!({"constant": strict_show(&c).chars().take(300).collect::<String>(), "flat": hex::encode(&want).chars().take(160).collect::<String>()}));
    }
    Ok(())
}

/// Blueprint entries written by other tools: valid but not byte-identical to what this toolchain
/// emits (non-minimal CBOR length header, chunked byte string, bytes after the end of the flat
/// stream), published with the true ledger hash of those bytes. Loading such an entry may be
/// refused; if it is accepted, saving it must reproduce its code and hash bit for bit, and the
/// hash the tools compute must be the published one.
fn judge_foreign_entry(src: &mut Src, st: &mut Stats) -> CheckResult {
    st.eval();
    let t = gen_program_term(src, false);
    let version = gen_version(src);
    let p_db = Program { version, term: t.to_db() };
    let Ok(flat) = p_db.to_flat() else { return Ok(()) };
    let Ok(canonical) = p_db.to_cbor() else { return Ok(()) };
    let lang: u8 = *src.pick(&[1u8, 2, 3]);
    let header = |len: usize, form: usize| -> Vec<u8> {
        // CBOR major type 2 with the length in the shortest (0) or a longer form
        match (form, len) {
            (0, l) if l < 24 => vec![0x40 | l as u8],
            (0, l) | (1, l) if l < 256 => vec![0x58, l as u8],
            (0, l) | (1, l) | (2, l) if l < 65536 => vec![0x59, (l >> 8) as u8, l as u8],
            (_, l) => vec![0x5a, (l >> 24) as u8, (l >> 16) as u8, (l >> 8) as u8, l as u8],
        }
    };
    let (variant, bytes): (&str, Vec<u8>) = match src.weighted(&[2, 3, 2, 2, 1]) {
        0 => ("canonical", canonical.clone()),
        1 => {
            let form = 1 + src.below(3);
            let mut b = header(flat.len(), form);
            b.extend_from_slice(&flat);
            ("longer-length-header", b)
        }
        2 => {
            let mut f = flat.clone();
            for _ in 0..1 + src.below(3) {
                f.push(src.below(256) as u8);
            }
            let mut b = header(f.len(), 0);
            b.extend_from_slice(&f);
            ("bytes-after-the-flat-stream", b)
        }
        3 => {
            // indefinite-length byte string in two chunks
            let cut = src.below(flat.len() + 1);
            let mut b = vec![0x5f];
            for chunk in [&flat[..cut], &flat[cut..]] {
                b.extend(header(chunk.len(), 0));
                b.extend_from_slice(chunk);
            }
            b.push(0xff);
            ("chunked-byte-string", b)
        }
        _ => {
            // the canonical bytes wrapped once more (double CBOR wrapping, as some tools publish)
            let mut b = header(canonical.len(), 0);
            b.extend_from_slice(&canonical);
            ("double-wrapped", b)
        }
    };
    let mut pre = vec![lang];
    pre.extend_from_slice(&bytes);
    let hash = hex::encode(blake2b_224(&pre));
    let code = hex::encode(&bytes);
    let input = json!({"variant": variant, "compiledCode": code, "hash": hash, "language": lang, "term": t.show().chars().take(300).collect::<String>()});
    let entry = json!({"compiledCode": code, "hash": hash});
    let loaded = no_panic(|| serde_json::from_value::<SerializableProgram>(entry.clone())).map_err(|p| panic_failure("SerializableProgram::deserialize", p, input.clone()))?;
    let sp = match loaded {
        Err(e) => {
            if variant == "canonical" {
                return Err(fail("own-entry-refused", &input, json!(e.to_string())));
            }
            st.class(&format!("foreign-entry:{variant}:refused"));
            return Ok(());
        }
        Ok(sp) => sp,
    };
    let saved = serde_json::to_value(&sp).map_err(|e| fail("entry-not-serialisable", &input, json!(e.to_string())))?;
    if saved["compiledCode"].as_str().map(|s| s.to_lowercase()) != Some(code.clone()) || saved["hash"].as_str() != Some(hash.as_str()) {
        return Err(fail("loaded-entry-not-reproduced-on-save", &input, json!({"saved": saved})));
    }
    let (h, _) = sp.compiled_code_and_hash();
    if h.to_string() != hash {
        return Err(fail("loaded-entry-has-another-hash", &input, json!({"tool_hash": h.to_string()})));
    }
    st.class(&format!("foreign-entry:{variant}:accepted-and-reproduced"));
    if variant != "canonical" || flat.len() > 64 {
        st.nontrivial(&(code, lang));
    }
    Ok(())
}

pub fn run(cx: &mut Cx) -> String {
    if !crate::model::blake2b::self_test() {
        cx.note("harness BLAKE2b self-test failed");
        panic!("blake2b self test");
    }
    let tier = cx.tier;
    cx.prop("binary-roundtrip", tier.of(300_000, 6_000_000), 500, judge_binary);
    cx.prop("cli-decode-encode", tier.of(150_000, 3_000_000), 400, judge_cli_path);
    cx.prop("nested-data-constants", tier.of(150_000, 3_000_000), 400, judge_nested_data);
    cx.prop("foreign-blueprint-entries", tier.of(100_000, 2_000_000), 400, judge_foreign_entry);
    cx.prop("bls-unsupported", tier.of(2_000, 20_000), 10, judge_bls_unsupported);
    RULE.to_string()
}

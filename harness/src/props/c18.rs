//! C18 — applying a parameter means applying the function.
//! Model-based over histories: a blueprint with parameterised validators goes through a generated
//! sequence of `apply_parameter` calls (conforming, near-miss and arbitrary values; by validator
//! name, by module, or unqualified) interleaved with JSON save / load; after every step the
//! blueprint is compared with a model (which parameters are left, which code each entry must
//! carry), and at the end the published JSON is re-derived independently from the *original* JSON
//! (code = original code applied to the accepted values, hash = own blake2b-224, address = header
//! byte + hash) and the code is evaluated against the original applied to everything at once.
use crate::aik::{self, Outcome, Proj};
use crate::engine::*;
use crate::gen_::aiken_ast::*;
use crate::gen_::aiken_gen::{AikCfg, Gen};
use crate::gen_::consts;
use crate::model::blake2b::blake2b_224;
use crate::model::interp::{D, Interp};
use crate::props::c12::{adt_fields_ok, mutate_data, no_standalone_pair};
use aiken_lang::ast::{ModuleKind, TraceLevel, Tracing};
use aiken_lang::plutus_version::PlutusVersion;
use aiken_project::blueprint::Blueprint;
use aiken_project::config::ProjectConfig;
use aiken_project::module::CheckedModules;
use pallas_addresses::{Network, ShelleyDelegationPart};
use pallas_codec::minicbor;
use serde_json::{Value, json};
use std::rc::Rc;
use uplc::PlutusData;
use uplc::ast::{Constant, DeBruijn, NamedDeBruijn, Program, SerializableProgram, Term};
use uplc::machine::cost_model::ExBudget;

pub const ASSUMPTIONS: &[&str] = &[
    "which values conform to a parameter's schema is decided by M-SHAPE (the reference interpreter's `from_data`), whose agreement with the published schema is C12's subject",
    "the code of a script is hashed as blake2b-224 over the language tag byte followed by the CBOR byte string found in `compiledCode` (own BLAKE2b implementation, RFC 7693); an enterprise script address is the header byte 0x70 | network id followed by that hash",
    "`behaves like the original applied to that parameter` is judged on result, logs and budget of the CEK machine for the published code applied to the remaining arguments versus the original code applied to all arguments by hand-built application nodes",
    "Aiken projects are Plutus V3 only; blueprints of other language versions are obtained by re-tagging the built programs (what a blueprint written by an older compiler looks like) and must keep their language through every application and save / load",
];

pub const RULE: &str = "generated modules with data types and one or two validators (`v` with 1-4 parameters of serialisable types - user types, Option, lists, tuples, lists of pairs, Int, ByteArray, Bool, Data - and spend + mint + else handlers whose verdict depends on every parameter and on their order; optionally a second validator `w`, `v_2` or `vv` with 1-2 parameters), blueprints built through `Blueprint::new`, language tag V3 / V2 / V1; histories of up to 10 steps: apply a conforming value, a near miss (one mutation, see C12) or arbitrary Data to either validator addressed by name, by module or not at all, or save to JSON text and load back. Non-trivial = at least two successive accepted applications to one validator with a save / load in between, at least one rejected application, and the final code succeeds on one script context and fails on another; distinct by (source, history).";

fn no_fn_or_var(t: &Ty) -> bool {
    no_standalone_pair(t, false)
}

struct VModel {
    name: &'static str,
    tys: Vec<Ty>,
    applied: Vec<D>,
}

fn apply_by_hand<T: Clone>(p: &Program<T>, args: &[PlutusData]) -> Program<T> {
    let mut term = p.term.clone();
    for a in args {
        term = Term::Apply { function: Rc::new(term), argument: Rc::new(Term::Constant(Rc::new(Constant::Data(a.clone())))) };
    }
    Program { version: p.version, term }
}

fn entries_of<'a>(doc: &'a Value, name: &str) -> Vec<&'a Value> {
    doc["validators"].as_array().map(|a| a.iter().filter(|v| v["title"].as_str().map(|t| t.split('.').nth(1) == Some(name)).unwrap_or(false)).collect()).unwrap_or_default()
}

fn decode(code_hex: &str) -> Result<Program<DeBruijn>, String> {
    let (mut a, mut b) = (vec![], vec![]);
    Program::<DeBruijn>::from_hex(code_hex, &mut a, &mut b).map_err(|e| format!("{e:?}"))
}

fn retag(bp: &mut Blueprint, lang: u8) {
    for v in bp.validators.iter_mut() {
        let p = v.program.inner().clone();
        v.program = match lang {
            1 => SerializableProgram::PlutusV1Program(p),
            2 => SerializableProgram::PlutusV2Program(p),
            _ => SerializableProgram::PlutusV3Program(p),
        };
    }
    bp.preamble.plutus_version = match lang {
        1 => PlutusVersion::V1,
        2 => PlutusVersion::V2,
        _ => PlutusVersion::V3,
    };
}

fn lang_of(p: &SerializableProgram) -> u8 {
    match p {
        SerializableProgram::PlutusV1Program(_) => 1,
        SerializableProgram::PlutusV2Program(_) => 2,
        SerializableProgram::PlutusV3Program(_) => 3,
    }
}

fn build_blueprint(source: &str, tracing: Tracing) -> Result<Blueprint, String> {
    let mut proj = Proj::new();
    proj.add_module("m", ModuleKind::Validator, source, tracing).map_err(|e| format!("rejected: {e:?}"))?;
    let checked = proj.checked_module(0);
    let modules = CheckedModules::singleton(checked);
    let config: ProjectConfig = serde_json::from_value(json!({"name": "test/project", "version": "0.0.0", "description": ""})).map_err(|e| format!("config: {e}"))?;
    let mut generator = proj.generator(PlutusVersion::V3, tracing);
    Blueprint::new(&config, &modules, &mut generator, false).map_err(|e| format!("blueprint: {e:?}").chars().take(300).collect::<String>())
}

fn ctx_spend(redeemer: &D) -> PlutusData {
    D::C(0, vec![D::I(7.into()), redeemer.clone(), D::C(1, vec![D::I(1.into()), D::C(1, vec![])])]).to_plutus()
}

fn ctx_mint(redeemer: &D) -> PlutusData {
    D::C(0, vec![D::I(7.into()), redeemer.clone(), D::C(0, vec![D::B(vec![0xab; 28])])]).to_plutus()
}

fn run_ndb(p: &Program<DeBruijn>) -> (String, Vec<String>, ExBudget) {
    let p: Program<NamedDeBruijn> = p.clone().into();
    let r = p.eval_version(ExBudget::max(), &pallas_primitives::conway::Language::PlutusV3);
    let logs = r.logs();
    let cost = r.cost();
    let out = match r.result() {
        Ok(t) => format!("value:{}", t.to_pretty().chars().take(80).collect::<String>()),
        Err(e) => format!("error:{}", aik::error_kind(&e)),
    };
    (out, logs, cost)
}

fn judge(src: &mut Src, st: &mut Stats) -> CheckResult {
    st.eval();
    let cfg = AikCfg { max_adts: 3, explicit_tags: true, ..AikCfg::default() };
    let mut g = Gen::new(src, cfg);
    g.gen_adts_pub();
    if !adt_fields_ok(&g.m) {
        st.class("skipped:standalone-pair");
        return Ok(());
    }
    let mut pick_ty = |g: &mut Gen| -> Ty {
        for _ in 0..6 {
            let t = if g.src.chance(1, 8) { Ty::Data } else { g.ty(2) };
            if no_fn_or_var(&t) {
                return t;
            }
        }
        Ty::Int
    };
    let nv = 1 + g.src.weighted(&[2, 4, 3, 2]);
    let v_tys: Vec<Ty> = (0..nv).map(|_| pick_ty(&mut g)).collect();
    let with_w = g.src.chance(3, 5);
    // the second validator's name may extend the first one's (`v` / `v_2`): entries are told
    // apart by their whole `module.validator` prefix, not by a common beginning
    let wname: &'static str = *g.src.pick(&["w", "v_2", "vv", "w"]);
    let w_tys: Vec<Ty> = if with_w { (0..1 + g.src.below(2)).map(|_| pick_ty(&mut g)).collect() } else { vec![] };
    // conforming values for every parameter (two candidates each)
    let mut cands: Vec<Vec<crate::model::interp::V>> = vec![];
    for t in v_tys.iter().chain(w_tys.iter()) {
        cands.push((0..2).map(|k| g.value(t, 1 + 2 * k)).collect());
    }
    let module = std::mem::take(&mut g.m);
    let src: &mut Src = g.src;
    let mut source = print_module(&module);
    let params = |tys: &[Ty], p: &str| tys.iter().enumerate().map(|(i, t)| format!("{p}{i}: {}", show_ty(&module, t))).collect::<Vec<_>>().join(", ");
    let lets = |tys: &[Ty], p: &str| tys.iter().enumerate().map(|(i, _)| format!("    let d{i}: Data = {p}{i}\n")).collect::<String>();
    let fwd = (0..nv).map(|i| format!("d{i}")).collect::<Vec<_>>().join(", ");
    let bwd = (0..nv).rev().map(|i| format!("d{i}")).collect::<Vec<_>>().join(", ");
    source.push_str(&format!(
        "validator v({}) {{\n  spend(_d: Option<Data>, r: Data, _o: Data, _tx: Data) {{\n{}    let l: List<Data> = [{fwd}]\n    let ld: Data = l\n    ld == r\n  }}\n\n  mint(r: Data, _p: ByteArray, _tx: Data) {{\n{}    let l: List<Data> = [{bwd}]\n    let ld: Data = l\n    ld == r\n  }}\n\n  else(_) {{\n    fail\n  }}\n}}\n",
        params(&v_tys, "p"),
        lets(&v_tys, "p"),
        lets(&v_tys, "p")
    ));
    if with_w {
        let fw = (0..w_tys.len()).map(|i| format!("d{i}")).collect::<Vec<_>>().join(", ");
        source.push_str(&format!(
            "\nvalidator {wname}({}) {{\n  spend(_d: Option<Data>, r: Data, _o: Data, _tx: Data) {{\n{}    let l: List<Data> = [{fw}]\n    let ld: Data = l\n    ld == r\n  }}\n\n  else(_) {{\n    fail\n  }}\n}}\n",
            params(&w_tys, "q"),
            lets(&w_tys, "q")
        ));
    }
    let tracing = if src.bool() { Tracing::All(TraceLevel::Silent) } else { Tracing::All(TraceLevel::Verbose) };
    let lang: u8 = *src.pick(&[3u8, 3, 3, 2, 1]);
    let input0 = json!({"source": source, "language_tag": lang});
    let mut bp = match no_panic(|| build_blueprint(&source, tracing)).map_err(|p| panic_failure("blueprint-generation", p, input0.clone()))? {
        Ok(b) => b,
        Err(e) => {
            st.class(&format!("skipped:{}", e.chars().take(40).collect::<String>()));
            if std::env::var("VERIF_SHOW_REJECTS").is_ok() {
                eprintln!("---- {e}\n{source}");
            }
            return Ok(());
        }
    };
    retag(&mut bp, lang);
    let original_text = serde_json::to_string_pretty(&bp).map_err(|e| Failure::new("blueprint-not-serialisable", json!({"input": input0, "error": e.to_string()})))?;
    let original: Value = serde_json::from_str(&original_text).unwrap();
    let it = Interp::new(&module, 0);
    let mut models = vec![VModel { name: "v", tys: v_tys.clone(), applied: vec![] }];
    if with_w {
        models.push(VModel { name: wname, tys: w_tys.clone(), applied: vec![] });
    }
    let offset = |mi: usize| if mi == 0 { 0 } else { v_tys.len() };

    // ---- the history
    let steps = 2 + src.below(9);
    let mut log: Vec<Value> = vec![];
    let mut accepted_apps: Vec<(usize, D)> = vec![];
    let mut rejected = 0usize;
    let mut saveload_between = false; // a save/load happened between two accepted applications to one validator
    let mut pending_sl = vec![false; models.len()];
    let mut roundtrips = 0usize;
    for _ in 0..steps {
        if src.chance(1, 4) {
            // save and load
            let text = no_panic(|| serde_json::to_string_pretty(&bp)).map_err(|p| panic_failure("save", p, json!({"input": input0, "history": log})))?.map_err(|e| Failure::new("save-fails", json!({"input": input0, "history": log, "error": e.to_string()})))?;
            let back: Blueprint = no_panic(|| serde_json::from_str::<Blueprint>(&text)).map_err(|p| panic_failure("load", p, json!({"input": input0, "history": log})))?.map_err(|e| Failure::new("load-of-saved-blueprint-fails", json!({"input": input0, "history": log, "error": e.to_string()})))?;
            let again = serde_json::to_string_pretty(&back).unwrap_or_default();
            if again != text {
                return Err(Failure::new("save-load-changes-blueprint", json!({"input": input0, "history": log})));
            }
            bp = back;
            roundtrips += 1;
            for (mi, m) in models.iter().enumerate() {
                if !m.applied.is_empty() {
                    pending_sl[mi] = true;
                }
            }
            log.push(json!("save+load"));
            continue;
        }
        let mi = if with_w && src.chance(1, 3) { 1 } else { 0 };
        let k = models[mi].applied.len();
        let n = models[mi].tys.len();
        // how the validator is addressed
        let addressing = src.weighted(&[6, 1, 1, 1]);
        let (mname, vname, resolvable): (Option<&str>, Option<&str>, bool) = match addressing {
            0 => (None, Some(models[mi].name), true),
            1 => (Some("m"), Some(models[mi].name), true),
            2 => (Some("m"), None, !with_w),
            _ => (None, None, !with_w),
        };
        // when unqualified and there is only `v`, the target is v
        let mi = if resolvable && !with_w { 0 } else { mi };
        // the value
        let (value, origin): (D, &str) = if k < n {
            let t = &models[mi].tys[k];
            let cand = &cands[offset(mi) + k][src.below(2)];
            let good = it.to_data(cand, t).unwrap_or(D::I(0.into()));
            match src.weighted(&[5, 3, 1]) {
                0 => (good, "conforming"),
                1 => (mutate_data(src, &good, 0), "near-miss"),
                _ => (D::from_plutus(&consts::gen_data(src, 3, false)), "arbitrary"),
            }
        } else {
            (D::I(1.into()), "surplus")
        };
        let conforms = k < n && it.from_data(&value, &models[mi].tys[k]).is_some();
        let expect_ok = resolvable && conforms;
        let before = bp.clone();
        let pd = value.to_plutus();
        let step = json!({"apply": models[mi].name, "module_arg": mname, "validator_arg": vname, "value": value.show(), "origin": origin, "position": k, "model_conforms": conforms});
        log.push(step.clone());
        let input = json!({"input": input0, "history": log});
        let r = no_panic(|| bp.apply_parameter(mname, vname, &pd)).map_err(|p| panic_failure("apply_parameter", p, input.clone()))?;
        st.evals(1);
        match (&r, expect_ok) {
            (Ok(()), false) => {
                let why = if !resolvable { "ambiguous-validator" } else if k >= n { "no-parameter-left" } else { "value-does-not-conform" };
                return Err(Failure::new(format!("parameter-accepted-but-should-not:{why}"), json!({"input": input})));
            }
            (Err(e), true) => return Err(Failure::new("conforming-parameter-rejected", json!({"input": input, "error": format!("{e:?}").chars().take(300).collect::<String>()}))),
            _ => {}
        }
        if r.is_err() {
            rejected += 1;
            st.class(&format!("rejected:{origin}"));
            if bp != before {
                return Err(Failure::new("rejected-application-changes-blueprint", json!({"input": input})));
            }
            continue;
        }
        st.class(&format!("accepted:{origin}"));
        if pending_sl[mi] {
            saveload_between = true;
        }
        models[mi].applied.push(value.clone());
        accepted_apps.push((mi, value.clone()));
        // step invariant against the model
        for (oi, m) in models.iter().enumerate() {
            let kk = m.applied.len();
            let orig_entries = entries_of(&original, m.name);
            let now: Vec<_> = bp.validators.iter().filter(|v| v.title.split('.').nth(1) == Some(m.name)).collect();
            if now.len() != orig_entries.len() || now.is_empty() {
                return Err(Failure::new("validator-entries-changed", json!({"input": input, "validator": m.name})));
            }
            for (entry, o) in now.iter().zip(&orig_entries) {
                let left = entry.parameters.len();
                if left != m.tys.len() - kk {
                    return Err(Failure::new(format!("wrong-number-of-parameters-left:{}", if oi == mi { "target" } else { "other-validator" }), json!({"input": input, "entry": entry.title, "left": left, "expected": m.tys.len() - kk})));
                }
                let titles: Vec<Option<String>> = entry.parameters.iter().map(|p| p.title.clone()).collect();
                let want: Vec<Option<String>> = o["parameters"].as_array().map(|a| a.iter().skip(kk).map(|p| p["title"].as_str().map(|s| s.to_string())).collect()).unwrap_or_default();
                if titles != want {
                    return Err(Failure::new("wrong-parameters-left", json!({"input": input, "entry": entry.title, "left": format!("{titles:?}"), "expected": format!("{want:?}")})));
                }
                let orig_prog = decode(o["compiledCode"].as_str().unwrap_or("")).map_err(|e| Failure::new("original-code-undecodable", json!({"input": input, "error": e})))?;
                let args: Vec<PlutusData> = m.applied.iter().map(|d| d.to_plutus()).collect();
                let want_prog = apply_by_hand(&orig_prog, &args);
                if entry.program.inner() != &want_prog {
                    return Err(Failure::new(format!("code-is-not-original-applied-to-accepted-values:{}", if oi == mi { "target" } else { "other-validator" }), json!({"input": input, "entry": entry.title})));
                }
                if lang_of(&entry.program) != lang {
                    return Err(Failure::new("language-changed", json!({"input": input, "entry": entry.title, "now": lang_of(&entry.program), "was": lang})));
                }
            }
        }
    }

    // ---- all at once, in memory, without save/load
    let input = json!({"input": input0, "history": log});
    let mut once: Blueprint = serde_json::from_str(&original_text).map_err(|e| Failure::new("load-of-saved-blueprint-fails", json!({"input": input, "error": e.to_string()})))?;
    for (mi, d) in &accepted_apps {
        no_panic(|| once.apply_parameter(None, Some(models[*mi].name), &d.to_plutus())).map_err(|p| panic_failure("apply_parameter", p, input.clone()))?.map_err(|e| Failure::new("conforming-parameter-rejected", json!({"input": input, "error": format!("{e:?}").chars().take(300).collect::<String>(), "when": "all at once"})))?;
    }
    if serde_json::to_string_pretty(&once).unwrap_or_default() != serde_json::to_string_pretty(&bp).unwrap_or_default() {
        return Err(Failure::new("one-by-one-through-files-differs-from-all-at-once", json!({"input": input})));
    }

    // ---- the published JSON, re-derived from the original JSON
    let final_text = serde_json::to_string_pretty(&bp).map_err(|e| Failure::new("save-fails", json!({"input": input, "error": e.to_string()})))?;
    let fin: Value = serde_json::from_str(&final_text).unwrap();
    if fin["preamble"] != original["preamble"] || fin["definitions"] != original["definitions"] {
        return Err(Failure::new("preamble-or-definitions-changed", json!({"input": input})));
    }
    let mut verdicts = std::collections::BTreeSet::new();
    for m in &models {
        let args: Vec<PlutusData> = m.applied.iter().map(|d| d.to_plutus()).collect();
        let fe = entries_of(&fin, m.name);
        let oe = entries_of(&original, m.name);
        for (f, o) in fe.iter().zip(&oe) {
            let title = f["title"].as_str().unwrap_or("").to_string();
            if f["title"] != o["title"] || f["redeemer"] != o["redeemer"] || f["datum"] != o["datum"] {
                return Err(Failure::new("entry-interface-changed", json!({"input": input, "entry": title})));
            }
            let orig_hex = o["compiledCode"].as_str().unwrap_or("");
            let orig_prog = decode(orig_hex).map_err(|e| Failure::new("original-code-undecodable", json!({"input": input, "error": e})))?;
            let want_hex = apply_by_hand(&orig_prog, &args).to_hex().map_err(|e| Failure::new("expected-code-not-encodable", json!({"input": input, "error": format!("{e:?}")})))?;
            let got_hex = f["compiledCode"].as_str().unwrap_or("");
            if got_hex != want_hex {
                return Err(Failure::new("published-code-is-not-original-applied-to-accepted-values", json!({"input": input, "entry": title})));
            }
            // hash and address of the new code
            let code_bytes = hex::decode(got_hex).unwrap_or_default();
            let mut pre = vec![lang];
            pre.extend_from_slice(&code_bytes);
            let want_hash = hex::encode(blake2b_224(&pre));
            if f["hash"].as_str() != Some(&want_hash) {
                return Err(Failure::new("published-hash-is-not-the-hash-of-the-published-code", json!({"input": input, "entry": title, "published": f["hash"], "recomputed": want_hash, "hash_of_original_code": o["hash"]})));
            }
            let entry = bp.validators.iter().find(|v| v.title == title).unwrap();
            for (net, id) in [(Network::Testnet, 0u8), (Network::Mainnet, 1u8)] {
                let plv = match lang {
                    1 => PlutusVersion::V1,
                    2 => PlutusVersion::V2,
                    _ => PlutusVersion::V3,
                };
                let addr = entry.program.inner().address(net, ShelleyDelegationPart::Null, &plv.into());
                let mut want = vec![0x70 | id];
                want.extend_from_slice(&hex::decode(&want_hash).unwrap());
                if addr.to_vec() != want {
                    return Err(Failure::new("address-is-not-that-of-the-published-code", json!({"input": input, "entry": title, "address": hex::encode(addr.to_vec()), "expected": hex::encode(want)})));
                }
            }
            // apply_params_to_script (the library entry point other tools use) agrees
            let params_cbor = {
                let arr = PlutusData::Array(pallas_codec::utils::MaybeIndefArray::Indef(args.clone()));
                let mut buf = vec![];
                minicbor::encode(&arr, &mut buf).map_err(|e| Failure::new("params-not-encodable", json!({"input": input, "error": e.to_string()})))?;
                buf
            };
            let orig_bytes = hex::decode(orig_hex).unwrap_or_default();
            let via_lib = no_panic(|| uplc::tx::apply_params_to_script(&params_cbor, &orig_bytes)).map_err(|p| panic_failure("apply_params_to_script", p, input.clone()))?;
            match via_lib {
                Ok(bytes) if bytes == code_bytes => {}
                Ok(_) => return Err(Failure::new("apply_params_to_script-differs-from-blueprint-application", json!({"input": input, "entry": title}))),
                Err(e) => return Err(Failure::new("apply_params_to_script-fails", json!({"input": input, "entry": title, "error": format!("{e:?}")}))),
            }
            // behaviour: published code + remaining conforming parameters + context
            //        vs original code + all parameters + context
            let mi = if m.name == "v" { 0 } else { 1 };
            let mut all: Vec<D> = m.applied.clone();
            let mut rest: Vec<PlutusData> = vec![];
            for k in m.applied.len()..m.tys.len() {
                let d = it.to_data(&cands[offset(mi) + k][0], &m.tys[k]).unwrap_or(D::I(0.into()));
                rest.push(d.to_plutus());
                all.push(d);
            }
            let published = decode(got_hex).map_err(|e| Failure::new("published-code-undecodable", json!({"input": input, "error": e})))?;
            let fwd = D::L(all.clone());
            let bwd = D::L(all.iter().rev().cloned().collect());
            let other = D::L(vec![D::I(42.into())]);
            for (ctx, expect_true) in [(ctx_spend(&fwd), Some(true)), (ctx_spend(&other), Some(fwd == other)), (ctx_mint(&bwd), Some(m.name == "v")), (ctx_mint(&fwd), Some(m.name == "v" && fwd == bwd)), (D::I(0.into()).to_plutus(), Some(false))] {
                let mut a = rest.clone();
                a.push(ctx.clone());
                let lhs = run_ndb(&apply_by_hand(&published, &a));
                let mut b: Vec<PlutusData> = all.iter().map(|d| d.to_plutus()).collect();
                b.push(ctx.clone());
                let rhs = run_ndb(&apply_by_hand(&orig_prog, &b));
                st.evals(1);
                if lhs != rhs {
                    return Err(Failure::new("applied-validator-behaves-differently-from-original-applied-to-all", json!({"input": input, "entry": title, "published": format!("{lhs:?}"), "original": format!("{rhs:?}")})));
                }
                let ok = lhs.0.starts_with("value:");
                if let Some(want) = expect_true {
                    if ok != want {
                        return Err(Failure::new("applied-validator-verdict-unexpected", json!({"input": input, "entry": title, "context": D::from_plutus(&ctx).show(), "succeeds": ok, "expected": want, "outcome": lhs.0})));
                    }
                }
                verdicts.insert(ok);
            }
        }
    }
    let _ = Outcome::Error(String::new(), String::new());
    let two_accepted = models.iter().any(|m| m.applied.len() >= 2);
    st.class(&format!("accepted-applications:{}", accepted_apps.len().min(5)));
    st.class(&format!("save-loads:{}", roundtrips.min(3)));
    st.class(&format!("language:V{lang}"));
    if two_accepted && saveload_between && rejected >= 1 && verdicts.len() == 2 {
        st.nontrivial(&(source.as_str(), format!("{log:?}")));
        st.sample(|| json!({"validator_v_parameters": v_tys.iter().map(|t| show_ty(&module, t)).collect::<Vec<_>>(), "history": log, "language": lang}));
    }
    Ok(())
}

pub fn run(cx: &mut Cx) -> String {
    let tier = cx.tier;
    cx.shrink_iters = 400;
    cx.prop("application-histories", tier.of(20_000, 400_000), 900, judge);
    RULE.to_string()
}

//! C05 — execution budgets are exact.
//! Angles: (1) upstream golden budgets of the conformance corpus; (2) accounting identity on
//! builtin-free generated programs with independently counted machine steps; (3) metamorphic:
//! slippage independence, budget threshold, perturbation of single cost parameters.
use crate::engine::*;
use crate::gen_::uplc::{self as gu, GenCfg, T};
use crate::model::cek::{self, Stop, Variant};
use crate::props::c04;
use pallas_primitives::conway::Language;
use serde_json::json;
use std::path::PathBuf;
use uplc::{
    ast::{NamedDeBruijn, Program, Term},
    builtins::DefaultFunction as F,
    machine::{
        Machine,
        cost_model::{ExBudget, ParamName, initialize_cost_model_with_protocol},
    },
};

pub const ASSUMPTIONS: &[&str] = &[
    "golden budgets: the `.uplc.budget.expected` files of test_data/conformance/v3 were produced upstream with the PlutusV3 / protocol-version-11 parameter vector that the repository's own conformance test uses for results; the v2 folder's budget files correspond to no shipped parameter vector and are not used",
    "machine-step counts by kind come from the harness' reference evaluator (model/cek.rs)",
    "a parameter named `<Builtin>_cpu_arguments...` / `<Builtin>_memory_arguments...` is charged only by that builtin, in that dimension; intercept / constant parameters contribute 0 or exactly delta per call, slope parameters a non-negative multiple",
];

pub const RULE: &str = "(1) every conformance/v3 program with a numeric golden budget, evaluated as PlutusV3 at protocol 11; (2) generated typed programs without saturated builtin calls: cost = start-up + sum over step kinds of count x price, with counts from the reference evaluator; (3) generated typed programs (with builtins) run with slippage 1, 2, 3, 7, 199, 200, 201, 10^6, and with budgets exactly at, one below (per dimension) and above their unlimited-budget cost; (4) each of the 350 V3 cost parameters raised by 1000 against single-builtin applications and step-counted programs. Non-trivial = the program performs a builtin call or at least 201 machine steps (so a batch of step costs is flushed before the end), or crosses the threshold exactly; distinct by program text (+ parameter).";

fn conformance_costs() -> Option<Vec<i64>> {
    let s = std::fs::read_to_string("/repo/crates/uplc/tests/conformance.rs").ok()?;
    let start = s.find("const V3_PV11_COSTS: &[i64] = &[")?;
    let rest = &s[start + "const V3_PV11_COSTS: &[i64] = &[".len()..];
    let end = rest.find("];")?;
    let v: Vec<i64> = rest[..end].split(',').filter_map(|x| x.trim().parse().ok()).collect();
    (v.len() >= 300).then_some(v)
}

fn walk(dir: &std::path::Path, out: &mut Vec<PathBuf>) {
    let Ok(rd) = std::fs::read_dir(dir) else { return };
    let mut entries: Vec<_> = rd.filter_map(|e| e.ok()).map(|e| e.path()).collect();
    entries.sort();
    for p in entries {
        if p.is_dir() {
            walk(&p, out);
        } else if p.extension().and_then(|e| e.to_str()) == Some("uplc") {
            out.push(p);
        }
    }
}

fn parse_budget(s: &str) -> Option<(i64, i64)> {
    let cpu = s.split("cpu:").nth(1)?.split(|c: char| !c.is_ascii_digit() && c != ' ' && c != '-').next()?.trim().parse().ok()?;
    let mem = s.split("mem:").nth(1)?.split(|c: char| !c.is_ascii_digit() && c != ' ' && c != '-').next()?.trim().parse().ok()?;
    Some((cpu, mem))
}

/// Run with explicit cost vector / budget / slippage; returns (result ok?, printed result, spent).
fn run_with(term: &Term<NamedDeBruijn>, costs: &[i64], budget: ExBudget, slippage: u32) -> (Result<String, String>, ExBudget, ExBudget) {
    let lang = Language::PlutusV3;
    let mut m = Machine::new_with_protocol(lang.clone(), 11, initialize_cost_model_with_protocol(&lang, 11, costs), budget, slippage);
    let r = m.run(term.clone());
    let remaining = m.ex_budget;
    let spent = ExBudget { mem: budget.mem.saturating_sub(remaining.mem), cpu: budget.cpu.saturating_sub(remaining.cpu) };
    (
        match r {
            Ok(t) => Ok(T::from_ndb(&t).show()),
            Err(e) => Err(crate::aik::error_kind(&e)),
        },
        spent,
        remaining,
    )
}

const BIG: ExBudget = ExBudget { mem: 1_000_000_000_000, cpu: 1_000_000_000_000 };

fn norm(s: &str) -> String {
    s.chars().filter(|c| *c != '_').collect::<String>().to_lowercase()
}

/// (builtin named by the parameter, is_cpu, kind) for builtin parameters
fn param_builtin(p: ParamName, all: &[F]) -> Option<(F, bool, &'static str)> {
    let name = format!("{p:?}");
    let (prefix, is_cpu, rest) = if let Some(i) = name.find("_cpu_arguments") {
        (&name[..i], true, &name[i + "_cpu_arguments".len()..])
    } else if let Some(i) = name.find("_memory_arguments") {
        (&name[..i], false, &name[i + "_memory_arguments".len()..])
    } else {
        return None;
    };
    let f = *all.iter().find(|f| norm(&format!("{f:?}")) == norm(prefix))?;
    let kind = if rest.is_empty() {
        "constant"
    } else if rest.ends_with("slope") || rest.contains("slope") || rest.contains("coefficient") || rest.ends_with("_c0") || rest.ends_with("_c1") || rest.ends_with("_c2") || rest.contains("_c") {
        "slope"
    } else if rest.contains("minimum") {
        "minimum"
    } else {
        "intercept-like"
    };
    Some((f, is_cpu, kind))
}

fn step_param(p: ParamName) -> Option<(usize, bool)> {
    let name = format!("{p:?}");
    let is_cpu = name.ends_with("exBudgetCPU");
    let kind = match name.split('_').next()? {
        "CekConstCost" => cek::K_CONST,
        "CekVarCost" => cek::K_VAR,
        "CekLamCost" => cek::K_LAM,
        "CekApplyCost" => cek::K_APPLY,
        "CekDelayCost" => cek::K_DELAY,
        "CekForceCost" => cek::K_FORCE,
        "CekBuiltinCost" => cek::K_BUILTIN,
        "CekConstrCost" => cek::K_CONSTR,
        "CekCaseCost" => cek::K_CASE,
        _ => return None,
    };
    Some((kind, is_cpu))
}

pub fn run(cx: &mut Cx) -> String {
    let tier = cx.tier;
    let Some(costs) = conformance_costs() else {
        cx.note("cannot read the V3/PV11 parameter vector from /repo/crates/uplc/tests/conformance.rs");
        return RULE.to_string();
    };
    let names: Vec<ParamName> = ParamName::V3.to_vec();
    let price = |n: &str| -> i64 { names.iter().position(|p| format!("{p:?}") == n).and_then(|i| costs.get(i).copied()).unwrap_or(0) };
    let step_names = ["CekConstCost", "CekVarCost", "CekLamCost", "CekApplyCost", "CekDelayCost", "CekForceCost", "CekBuiltinCost", "CekConstrCost", "CekCaseCost"];
    let step_cpu: Vec<i64> = step_names.iter().map(|n| price(&format!("{n}_exBudgetCPU"))).collect();
    let step_mem: Vec<i64> = step_names.iter().map(|n| price(&format!("{n}_exBudgetMemory"))).collect();
    let (start_cpu, start_mem) = (price("CekStartupCost_exBudgetCPU"), price("CekStartupCost_exBudgetMemory"));

    // (1) golden budgets
    if !cx.is_replay() || cx.replay_input("golden-budget").is_some() {
        let replay = cx.replay_input("golden-budget");
        let mut files = vec![];
        walk(std::path::Path::new("/repo/crates/uplc/test_data/conformance/v3"), &mut files);
        for (k, f) in files.iter().enumerate() {
            let input = json!({"file": f.display().to_string()});
            if let Some(r) = &replay {
                if *r != input {
                    continue;
                }
            } else if !cx.mine(k as u64) {
                continue;
            }
            let budget_file = PathBuf::from(format!("{}.budget.expected", f.display()));
            let Some((want_cpu, want_mem)) = std::fs::read_to_string(&budget_file).ok().and_then(|s| parse_budget(&s)) else { continue };
            let Ok(code) = std::fs::read_to_string(f) else { continue };
            let costs = costs.clone();
            cx.direct("golden-budget", &input, |st| {
                st.eval();
                let Ok(p) = uplc::parser::program(&code) else {
                    st.class("golden:unparsed");
                    return Ok(());
                };
                let Ok(p) = Program::<NamedDeBruijn>::try_from(p) else {
                    st.class("golden:open-term");
                    return Ok(());
                };
                let r = p.eval_as_with_protocol(&Language::PlutusV3, 11, &costs, Some(&BIG));
                let cost = r.cost();
                if (cost.cpu, cost.mem) != (want_cpu, want_mem) {
                    return Err(Failure::new("golden-budget-differs", json!({"input": input, "expected": {"cpu": want_cpu, "mem": want_mem}, "actual": {"cpu": cost.cpu, "mem": cost.mem}})));
                }
                st.class("golden:match");
                st.nontrivial(&code);
                st.sample(|| json!({"file": input["file"], "cpu": cost.cpu, "mem": cost.mem}));
                Ok(())
            });
        }
    }

    let cfg = GenCfg::default();
    let gen_program = |src: &mut Src| -> T {
        let n = src.below(3);
        let arg_tys: Vec<gu::Ty> = (0..n).map(|_| gu::gen_ty(src, 2)).collect();
        let res_ty = gu::gen_ty(src, 2);
        let mut env = arg_tys.clone();
        let depth = 2 + src.below(5);
        let mut body = gu::gen_term(src, &cfg, &res_ty, &mut env, depth);
        for _ in 0..n {
            body = body.lam();
        }
        let mut t = body;
        for ty in &arg_tys {
            let a = gu::gen_term(src, &cfg, ty, &mut vec![], 2);
            t = t.app(a);
        }
        // make some programs long: iterate an identity application
        let reps = *src.pick(&[0usize, 0, 0, 30, 120, 250]);
        for _ in 0..reps {
            t = T::Var(1).lam().app(t);
        }
        t
    };

    // (2) accounting identity + (3a) slippage + (3b) threshold
    let costs2 = costs.clone();
    cx.prop("accounting-slippage-threshold", tier.of(120_000, 3_000_000), 400, |src, st| {
        st.eval();
        let t = gen_program(src);
        let input = json!({"term": t.show().chars().take(1500).collect::<String>()});
        let term = t.to_ndb();
        let (r200, spent, _) = no_panic(|| run_with(&term, &costs2, BIG, 200)).map_err(|p| panic_failure("run", p, input.clone()))?;
        if spent.cpu > 500_000_000_000 {
            return Ok(());
        }
        // reference step counts
        let mut m = cek::Machine::new(Variant::E);
        m.record_calls = true;
        let reference = m.run(&t);
        let steps = m.counters.steps;
        let total_steps: u64 = steps.iter().sum();
        let no_calls = m.counters.calls.is_empty();
        if matches!(reference, Ok(_) | Err(Stop::Fail(_))) && no_calls && matches!(reference, Ok(_)) == r200.is_ok() && r200.is_ok() {
            let want_cpu = start_cpu + steps.iter().zip(&step_cpu).map(|(n, c)| *n as i64 * c).sum::<i64>();
            let want_mem = start_mem + steps.iter().zip(&step_mem).map(|(n, c)| *n as i64 * c).sum::<i64>();
            if (spent.cpu, spent.mem) != (want_cpu, want_mem) {
                return Err(Failure::new("accounting-identity-fails", json!({"input": input, "steps_by_kind": steps, "expected": {"cpu": want_cpu, "mem": want_mem}, "actual": {"cpu": spent.cpu, "mem": spent.mem}})));
            }
            st.class("accounting:builtin-free-program-matches");
        }
        // slippage independence (of successful evaluations: the cost model defines no figure for a
        // failing one, and pending step costs are deliberately not flushed on failure)
        for s in [1u32, 2, 3, 7, 199, 201, 1_000_000] {
            if r200.is_err() {
                break;
            }
            let (r, sp, _) = no_panic(|| run_with(&term, &costs2, BIG, s)).map_err(|p| panic_failure("run", p, input.clone()))?;
            if r != r200 || (sp.cpu, sp.mem) != (spent.cpu, spent.mem) {
                return Err(Failure::new("cost-depends-on-slippage", json!({"input": input, "slippage": s, "at_200": {"result": r200, "cpu": spent.cpu, "mem": spent.mem}, "at_s": {"result": r, "cpu": sp.cpu, "mem": sp.mem}})));
            }
        }
        // threshold (only meaningful when the unlimited run does not fail for another reason)
        if r200.is_ok() {
            let slippage = *src.pick(&[1u32, 200, 200, 7]);
            let exact = ExBudget { mem: spent.mem, cpu: spent.cpu };
            let cases = [(exact, true, "exact"), (ExBudget { mem: spent.mem - 1, cpu: spent.cpu }, false, "mem-1"), (ExBudget { mem: spent.mem, cpu: spent.cpu - 1 }, false, "cpu-1"), (ExBudget { mem: spent.mem + 5, cpu: spent.cpu + 7 }, true, "above")];
            for (b, should_succeed, what) in cases {
                let (r, sp, remaining) = no_panic(|| run_with(&term, &costs2, b, slippage)).map_err(|p| panic_failure("run", p, input.clone()))?;
                let ok = r.is_ok();
                if ok != should_succeed {
                    return Err(Failure::new(format!("budget-threshold-wrong:{what}"), json!({"input": input, "unlimited_cost": {"cpu": spent.cpu, "mem": spent.mem}, "budget": {"cpu": b.cpu, "mem": b.mem}, "slippage": slippage, "succeeded": ok, "error": r.err()})));
                }
                if ok && (remaining.cpu < 0 || remaining.mem < 0) {
                    return Err(Failure::new("success-with-negative-remaining-budget", json!({"input": input, "remaining": {"cpu": remaining.cpu, "mem": remaining.mem}})));
                }
                if ok && (sp.cpu, sp.mem) != (spent.cpu, spent.mem) {
                    return Err(Failure::new("cost-depends-on-budget", json!({"input": input, "budget": what})));
                }
                if !ok && r != Err("OutOfExError".to_string()) {
                    return Err(Failure::new("insufficient-budget-gives-another-error", json!({"input": input, "budget": what, "error": r.err()})));
                }
            }
            st.class("threshold:exact");
        }
        if !no_calls || total_steps >= 201 {
            st.nontrivial(&t.show());
            st.class(if total_steps >= 201 { "program:>=201-steps" } else { "program:builtin-call" });
            st.sample(|| json!({"term": t.show().chars().take(300).collect::<String>(), "cpu": spent.cpu, "mem": spent.mem, "steps": total_steps, "builtin_calls": m.counters.calls.len()}));
        }
        Ok(())
    });

    // (2b) size measures of constants against the specification's `memoryUsage`
    cx.prop("size-measures", tier.of(200_000, 4_000_000), 80, |src, st| {
        st.eval();
        use crate::model::mconst::D;
        use num_bigint::BigInt;
        use num_traits::{Signed, Zero};
        fn int_words(i: &BigInt) -> i64 {
            if i.is_zero() { 1 } else { ((i.abs().bits() - 1) / 64 + 1) as i64 }
        }
        fn bytes_words(n: usize) -> i64 {
            if n == 0 { 1 } else { ((n - 1) / 8 + 1) as i64 }
        }
        fn data_words(d: &D) -> i64 {
            4 + match d {
                D::I(i) => int_words(i),
                D::B(b) => bytes_words(b.len()),
                D::L(xs) | D::C(_, xs) => xs.iter().map(data_words).sum(),
                D::M(kvs) => kvs.iter().map(|(k, v)| data_words(k) + data_words(v)).sum(),
            }
        }
        // boundary integers: exact powers of 2^64 and their neighbours, both signs
        let boundary = |src: &mut Src| -> BigInt {
            let k = 1 + src.below(4) as u32;
            let base = BigInt::from(1) << (64 * k);
            let v = base + src.range(-1, 1);
            if src.bool() { v } else { -v }
        };
        let variant = *src.pick(&[Variant::B, Variant::C, Variant::D, Variant::E]);
        let (lang, pv) = crate::props::c03::lang_pv(variant);
        let sem = uplc::machine::runtime::BuiltinSemantics::for_language_and_protocol(&lang, pv);
        let (value, want, shown): (uplc::machine::value::Value, i64, String) = match src.below(4) {
            0 => {
                let i = if src.bool() { boundary(src) } else { crate::gen_::consts::gen_int(src, true) };
                (uplc::machine::value::Value::integer(i.clone()), int_words(&i), format!("integer {i}"))
            }
            1 => {
                let b = crate::gen_::consts::gen_bytes(src, true);
                (uplc::machine::value::Value::byte_string(b.clone()), bytes_words(b.len()), format!("bytestring of {} bytes", b.len()))
            }
            _ => {
                // Data with boundary integers inside, in canonical and in non-canonical forms
                let exotic = src.bool();
                let mut pd = crate::gen_::consts::gen_data_with(src, 3, true, exotic);
                if src.chance(1, 2) {
                    let i = boundary(src);
                    let leaf = crate::gen_::consts::pd_int(&i);
                    pd = match src.below(3) {
                        0 => leaf,
                        1 => uplc::ast::Data::list(vec![pd, leaf]),
                        _ => uplc::ast::Data::constr(1, vec![leaf, pd]),
                    };
                }
                let d = D::from_pd(&pd);
                let shown = crate::gen_::consts::show_data(&pd).chars().take(300).collect::<String>();
                (uplc::machine::value::Value::data(pd), data_words(&d), format!("data {shown}"))
            }
        };
        let got = no_panic(|| value.to_ex_mem_with_semantics(sem)).map_err(|p| panic_failure("to_ex_mem", p, json!({"value": shown})))?;
        if got != want {
            return Err(Failure::new("size-measure-differs", json!({"input": {"value": shown, "variant": format!("{variant:?}")}, "expected_words": want, "actual_words": got})));
        }
        st.class("size:ok");
        st.nontrivial(&shown);
        st.sample(|| json!({"value": shown, "words": want}));
        Ok(())
    });

    // (4) parameter perturbation
    let all: Vec<F> = gu::all_builtins();
    let costs3 = costs.clone();
    let names3 = names.clone();
    cx.prop("parameter-perturbation", tier.of(60_000, 1_500_000), 200, |src, st| {
        st.eval();
        let i = src.below(names3.len().min(costs3.len()));
        let p = names3[i];
        let delta = 1000i64;
        let mut bumped = costs3.clone();
        bumped[i] += delta;
        if let Some((kind, is_cpu)) = step_param(p) {
            let t = gen_program(src);
            let input = json!({"parameter": format!("{p:?}"), "term": t.show().chars().take(1200).collect::<String>()});
            let term = t.to_ndb();
            let mut m = cek::Machine::new(Variant::E);
            let reference = m.run(&t);
            if !matches!(reference, Ok(_)) {
                return Ok(());
            }
            let (r0, c0, _) = no_panic(|| run_with(&term, &costs3, BIG, 200)).map_err(|pn| panic_failure("run", pn, input.clone()))?;
            let (r1, c1, _) = no_panic(|| run_with(&term, &bumped, BIG, 200)).map_err(|pn| panic_failure("run", pn, input.clone()))?;
            if r0.is_err() || r1.is_err() {
                return Ok(());
            }
            let want = delta * m.counters.steps[kind] as i64;
            let (dc, dm) = (c1.cpu - c0.cpu, c1.mem - c0.mem);
            let (got, other) = if is_cpu { (dc, dm) } else { (dm, dc) };
            if got != want || other != 0 {
                return Err(Failure::new("step-parameter-charged-wrongly", json!({"input": input, "steps_of_that_kind": m.counters.steps[kind], "expected_delta": want, "actual_delta": {"cpu": dc, "mem": dm}})));
            }
            st.class("perturb:step-parameter");
            if m.counters.steps[kind] > 0 {
                st.nontrivial(&(format!("{p:?}"), t.show()));
            }
            return Ok(());
        }
        if format!("{p:?}").starts_with("CekStartupCost") {
            return Ok(());
        }
        let Some((f, is_cpu, kind)) = param_builtin(p, &all) else {
            st.class("perturb:unmapped-parameter");
            return Ok(());
        };
        // a call of that builtin, or of another one
        let g = if src.chance(2, 3) { f } else { all[src.below(all.len())] };
        let (args, well_typed) = c04::gen_tuple_pub(src, g);
        if !well_typed {
            return Ok(());
        }
        let t = c04::apply(g, &args);
        let input = json!({"parameter": format!("{p:?}"), "term": t.show().chars().take(800).collect::<String>()});
        let term = t.to_ndb();
        let (r0, c0, _) = no_panic(|| run_with(&term, &costs3, BIG, 200)).map_err(|pn| panic_failure("run", pn, input.clone()))?;
        let (r1, c1, _) = no_panic(|| run_with(&term, &bumped, BIG, 200)).map_err(|pn| panic_failure("run", pn, input.clone()))?;
        // a higher price may exhaust even the large budget (builtins costed by value, such as
        // dropList with a huge count): running out of budget is then the expected outcome
        let out_of_budget = |r: &Result<String, String>| matches!(r, Err(e) if e.contains("OutOfEx"));
        if out_of_budget(&r0) || out_of_budget(&r1) {
            st.class("perturb:budget-exhausted(inconclusive)");
            return Ok(());
        }
        if r0 != r1 {
            return Err(Failure::new("result-depends-on-cost-parameter", json!({"input": input, "before": r0, "after": r1})));
        }
        if c0.cpu > 100_000_000_000 {
            return Ok(());
        }
        let (dc, dm) = (c1.cpu - c0.cpu, c1.mem - c0.mem);
        let (own, other) = if is_cpu { (dc, dm) } else { (dm, dc) };
        if g != f {
            if dc != 0 || dm != 0 {
                return Err(Failure::new("parameter-charged-to-another-builtin", json!({"input": input, "parameter_belongs_to": format!("{f:?}"), "called": format!("{g:?}"), "delta": {"cpu": dc, "mem": dm}})));
            }
            st.class("perturb:other-builtin-unaffected");
            return Ok(());
        }
        if other != 0 {
            return Err(Failure::new("parameter-charged-in-the-other-dimension", json!({"input": input, "delta": {"cpu": dc, "mem": dm}})));
        }
        let fine = match kind {
            "constant" => own == delta,
            "intercept-like" => own == 0 || own == delta,
            "minimum" => own >= 0 && own <= delta,
            _ => own >= 0,
        };
        if !fine {
            return Err(Failure::new(format!("own-parameter-delta-unexpected:{kind}"), json!({"input": input, "delta": {"cpu": dc, "mem": dm}, "expected": match kind { "constant" => "exactly 1000", "intercept-like" => "0 or 1000", "minimum" => "0..=1000", _ => ">= 0" }})));
        }
        st.class(&format!("perturb:own-builtin:{kind}:{}", if own == 0 { "no-effect" } else { "charged" }));
        if own != 0 {
            st.nontrivial(&(format!("{p:?}"), t.show()));
            st.sample(|| json!({"parameter": format!("{p:?}"), "term": t.show().chars().take(200).collect::<String>(), "delta": own}));
        }
        Ok(())
    });
    RULE.to_string()
}

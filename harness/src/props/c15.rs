//! C15 — UPLC text round-trips: parse(print(p)) = p, print(parse(print(p))) = print(p).
use crate::engine::*;
use crate::gen_::consts::{self, CTy};
use crate::gen_::uplc::{self as gu, T};
use crate::model::bind;
use crate::model::mconst::D;
use serde_json::json;
use std::rc::Rc;
use std::str::FromStr;
use uplc::{
    ast::{Constant, Name, Program, Term, Type},
    builtins::DefaultFunction as F,
    machine::runtime::Compressable,
};

pub const ASSUMPTIONS: &[&str] = &[
    "domain: Program<Name> whose binder texts are valid identifiers and where text <-> unique is a bijection (what the parser's interner and `uplc decode` produce); the printer prints texts only",
    "Bls12_381MlResult constants are outside the domain (the printer documents it cannot represent them)",
    "constants are compared by value: Data as abstract data, BLS points by their compressed bytes",
];

pub const RULE: &str = "programs over all term constructors, every DefaultFunction (iterated), every constant type and nesting incl. G1/G2 points, strings over all of Unicode (escapes, controls, non-ASCII), Data with every constructor-tag range. Oracle: parser::program(p.to_pretty()) is Ok, resolves (independently, by name) to the same de Bruijn structure with equal constants, and printing the parsed program reproduces the text. Non-trivial = the program contains a builtin, or a string with an escaped/non-ASCII character, or a nested list/pair/data constant; distinct by printed text.";

pub fn const_eq(a: &Constant, b: &Constant) -> bool {
    match (a, b) {
        (Constant::ProtoList(t1, x), Constant::ProtoList(t2, y)) => {
            t1 == t2 && x.len() == y.len() && x.iter().zip(y).all(|(p, q)| const_eq(p, q))
        }
        (Constant::ProtoPair(a1, b1, x1, y1), Constant::ProtoPair(a2, b2, x2, y2)) => {
            a1 == a2 && b1 == b2 && const_eq(x1, x2) && const_eq(y1, y2)
        }
        (Constant::Data(x), Constant::Data(y)) => D::from_pd(x) == D::from_pd(y),
        (Constant::Bls12_381G1Element(x), Constant::Bls12_381G1Element(y)) => x.compress() == y.compress(),
        (Constant::Bls12_381G2Element(x), Constant::Bls12_381G2Element(y)) => x.compress() == y.compress(),
        (Constant::Bls12_381MlResult(_), _) | (_, Constant::Bls12_381MlResult(_)) => false,
        (Constant::Bls12_381G1Element(_), _) | (Constant::Bls12_381G2Element(_), _) => false,
        (_, Constant::Bls12_381G1Element(_)) | (_, Constant::Bls12_381G2Element(_)) => false,
        _ => a == b,
    }
}

pub fn t_eq(a: &T, b: &T) -> bool {
    match (a, b) {
        (T::Var(i), T::Var(j)) => i == j,
        (T::Lam(x), T::Lam(y)) | (T::Delay(x), T::Delay(y)) | (T::Force(x), T::Force(y)) => t_eq(x, y),
        (T::App(f, x), T::App(g, y)) => t_eq(f, g) && t_eq(x, y),
        (T::Con(x), T::Con(y)) => const_eq(x, y),
        (T::Builtin(f), T::Builtin(g)) => f == g,
        (T::Error, T::Error) => true,
        (T::Constr(t1, f1), T::Constr(t2, f2)) => t1 == t2 && f1.len() == f2.len() && f1.iter().zip(f2).all(|(x, y)| t_eq(x, y)),
        (T::Case(s1, b1), T::Case(s2, b2)) => t_eq(s1, s2) && b1.len() == b2.len() && b1.iter().zip(b2).all(|(x, y)| t_eq(x, y)),
        _ => false,
    }
}

const G1_GEN: &str = "97f1d3a73197d7942695638c4fa9ac0fc3688c4f9774b905a14e3a3f171bac586c55e83ff97a1aeffb3af00adb22c6bb";
const G2_GEN: &str = "93e02b6052719f607dacd3a088274f65596bd0d09920b61ab5da61bbdc7f5049334cf11213945d57e5ac7d055d042b7e024aa2b2f08f0a91260805272dc51051c6e47ad4fa403b02b4510b647ae3d1770bac0326a805bbefd48056c8c121bdb8";

pub fn gen_g1(src: &mut Src) -> Constant {
    let mut p = blst::blst_p1::uncompress(&hex::decode(G1_GEN).unwrap()).unwrap();
    let k = src.below(6);
    let base = p;
    for _ in 0..k {
        let mut out = blst::blst_p1::default();
        unsafe { blst::blst_p1_add_or_double(&mut out, &p, &base) };
        p = out;
    }
    if k == 5 {
        // the point at infinity
        p = blst::blst_p1::uncompress(&{
            let mut z = vec![0u8; 48];
            z[0] = 0xc0;
            z
        })
        .unwrap();
    }
    Constant::Bls12_381G1Element(Box::new(p))
}

pub fn gen_g2(src: &mut Src) -> Constant {
    let mut p = blst::blst_p2::uncompress(&hex::decode(G2_GEN).unwrap()).unwrap();
    let k = src.below(5);
    let base = p;
    for _ in 0..k {
        let mut out = blst::blst_p2::default();
        unsafe { blst::blst_p2_add_or_double(&mut out, &p, &base) };
        p = out;
    }
    Constant::Bls12_381G2Element(Box::new(p))
}

/// A constant of any printable type (incl. BLS points nested in lists/pairs).
pub fn gen_any_const(src: &mut Src, depth: usize, bls: bool) -> Constant {
    let w: &[u32] = if depth == 0 { &[3, 2, 4, 1, 1, 3, if bls { 1 } else { 0 }, if bls { 1 } else { 0 }] } else { &[3, 2, 4, 1, 1, 3, if bls { 1 } else { 0 }, if bls { 1 } else { 0 }, 3, 3] };
    match src.weighted(w) {
        0 => Constant::Integer(consts::gen_int(src, true)),
        1 => Constant::ByteString(consts::gen_bytes(src, true)),
        2 => Constant::String(consts::gen_string(src)),
        3 => Constant::Unit,
        4 => Constant::Bool(src.bool()),
        5 => Constant::Data(consts::gen_data(src, 3, true)),
        6 => gen_g1(src),
        7 => gen_g2(src),
        8 => {
            // homogeneous list: generate the element type by generating a first element
            let first = gen_any_const(src, depth - 1, bls);
            let ty = type_of(&first);
            let n = src.below(4);
            let mut items = vec![];
            if n > 0 {
                items.push(first);
            }
            for _ in 1..n {
                items.push(gen_const_of(src, &ty, depth - 1));
            }
            Constant::ProtoList(ty, items)
        }
        _ => {
            let a = gen_any_const(src, depth - 1, bls);
            let b = gen_any_const(src, depth - 1, bls);
            Constant::ProtoPair(type_of(&a), type_of(&b), Rc::new(a), Rc::new(b))
        }
    }
}

pub fn type_of(c: &Constant) -> Type {
    Type::from(c)
}

pub fn gen_const_of(src: &mut Src, ty: &Type, depth: usize) -> Constant {
    match ty {
        Type::Integer => Constant::Integer(consts::gen_int(src, true)),
        Type::ByteString => Constant::ByteString(consts::gen_bytes(src, false)),
        Type::String => Constant::String(consts::gen_string(src)),
        Type::Unit => Constant::Unit,
        Type::Bool => Constant::Bool(src.bool()),
        Type::Data => Constant::Data(consts::gen_data(src, 2, false)),
        Type::Bls12_381G1Element => gen_g1(src),
        Type::Bls12_381G2Element => gen_g2(src),
        Type::Bls12_381MlResult => unreachable!(),
        Type::List(t) => {
            let n = src.below(3);
            Constant::ProtoList((**t).clone(), (0..n).map(|_| gen_const_of(src, t, depth.saturating_sub(1))).collect())
        }
        Type::Pair(a, b) => Constant::ProtoPair(
            (**a).clone(),
            (**b).clone(),
            Rc::new(gen_const_of(src, a, depth.saturating_sub(1))),
            Rc::new(gen_const_of(src, b, depth.saturating_sub(1))),
        ),
    }
}

/// Replace some constants of a chaotic term by richer ones, and builtins by arbitrary builtins.
pub fn enrich(src: &mut Src, t: &T, bls: bool) -> T {
    match t {
        T::Con(_) if src.chance(2, 3) => T::Con(Rc::new(gen_any_const(src, 2, bls))),
        T::Lam(b) => T::Lam(Rc::new(enrich(src, b, bls))),
        T::Delay(b) => T::Delay(Rc::new(enrich(src, b, bls))),
        T::Force(b) => T::Force(Rc::new(enrich(src, b, bls))),
        T::App(f, a) => T::App(Rc::new(enrich(src, f, bls)), Rc::new(enrich(src, a, bls))),
        T::Constr(tag, fs) => T::Constr(*tag, fs.iter().map(|f| enrich(src, f, bls)).collect()),
        T::Case(s, bs) => T::Case(Rc::new(enrich(src, s, bls)), bs.iter().map(|f| enrich(src, f, bls)).collect()),
        other => other.clone(),
    }
}

fn has_interesting(t: &T) -> bool {
    match t {
        T::Builtin(_) => true,
        T::Con(c) => match &**c {
            Constant::String(s) => s.chars().any(|c| !c.is_ascii_graphic() && c != ' '),
            Constant::ProtoList(..) | Constant::ProtoPair(..) | Constant::Data(_) => true,
            _ => false,
        },
        T::Lam(b) | T::Delay(b) | T::Force(b) => has_interesting(b),
        T::App(f, a) => has_interesting(f) || has_interesting(a),
        T::Constr(_, fs) => fs.iter().any(has_interesting),
        T::Case(s, bs) => has_interesting(s) || bs.iter().any(has_interesting),
        _ => false,
    }
}

pub fn judge(t: &T, version: (usize, usize, usize), st: &mut Stats) -> CheckResult {
    st.eval();
    let named = t.to_named();
    let p = Program { version, term: named };
    let input = json!({"term": t.show(), "version": format!("{version:?}")});
    let text = no_panic(|| p.to_pretty()).map_err(|pn| panic_failure("to_pretty", pn, input.clone()))?;
    let input = json!({"term": t.show(), "printed": text});
    let parsed = no_panic(|| uplc::parser::program(&text)).map_err(|pn| panic_failure("parser::program", pn, input.clone()))?;
    let q = match parsed {
        Ok(q) => q,
        Err(e) => {
            return Err(Failure::new(
                "printed-text-rejected",
                json!({"input": input, "error": e.to_string()}),
            ));
        }
    };
    if q.version != version {
        return Err(Failure::new("version-differs", json!({"input": input, "actual": format!("{:?}", q.version)})));
    }
    // binding structure: original resolved by unique, parsed by text (free names compared by text)
    let (want, _) = bind::resolve_by_unique(&p.term);
    let (got, _) = bind::resolve_by_text_keep_free(&q.term);
    if !t_eq(&want, &got) {
        let sig = first_difference(&want, &got);
        return Err(Failure::new(
            format!("reparsed-differs:{sig}"),
            json!({"input": input, "expected": want.show(), "actual": got.show()}),
        ));
    }
    let text2 = no_panic(|| q.to_pretty()).map_err(|pn| panic_failure("to_pretty(parsed)", pn, input.clone()))?;
    if text2 != text {
        return Err(Failure::new("print-parse-print-unstable", json!({"input": input, "second": text2})));
    }
    st.class("roundtrip-ok");
    if has_interesting(t) {
        st.nontrivial(&text);
        st.sample(|| json!({"printed": text.chars().take(400).collect::<String>()}));
    }
    Ok(())
}

fn const_difference(x: &Constant, y: &Constant) -> String {
    match (x, y) {
        (Constant::String(_), Constant::String(_)) => "string-content".into(),
        (Constant::ProtoList(t1, xs), Constant::ProtoList(t2, ys)) => {
            if t1 != t2 {
                return type_difference(t1, t2);
            }
            xs.iter()
                .zip(ys)
                .find(|(p, q)| !const_eq(p, q))
                .map(|(p, q)| const_difference(p, q))
                .unwrap_or_else(|| "list-length".into())
        }
        (Constant::ProtoPair(a1, b1, x1, y1), Constant::ProtoPair(a2, b2, x2, y2)) => {
            if a1 != a2 {
                type_difference(a1, a2)
            } else if b1 != b2 {
                type_difference(b1, b2)
            } else if !const_eq(x1, x2) {
                const_difference(x1, x2)
            } else {
                const_difference(y1, y2)
            }
        }
        (x, y) if type_of(x) != type_of(y) => type_difference(&type_of(x), &type_of(y)),
        (x, _) => format!("constant-value:{}", type_of(x)),
    }
}

fn type_difference(a: &Type, b: &Type) -> String {
    match (a, b) {
        (Type::List(x), Type::List(y)) => type_difference(x, y),
        (Type::Pair(x1, y1), Type::Pair(x2, y2)) => {
            if x1 != x2 {
                type_difference(x1, x2)
            } else {
                type_difference(y1, y2)
            }
        }
        _ => format!("type:{a}-read-as-{b}"),
    }
}

/// A coarse root-cause label for a structural difference.
fn first_difference(a: &T, b: &T) -> String {
    match (a, b) {
        (T::Con(x), T::Con(y)) => const_difference(x, y),
        (T::Builtin(f), T::Builtin(_)) => format!("builtin:{f:?}"),
        (T::Lam(x), T::Lam(y)) | (T::Delay(x), T::Delay(y)) | (T::Force(x), T::Force(y)) => first_difference(x, y),
        (T::App(f, x), T::App(g, y)) => {
            if !t_eq(f, g) {
                first_difference(f, g)
            } else {
                first_difference(x, y)
            }
        }
        (T::Constr(_, f1), T::Constr(_, f2)) if f1.len() == f2.len() => f1
            .iter()
            .zip(f2)
            .find(|(x, y)| !t_eq(x, y))
            .map(|(x, y)| first_difference(x, y))
            .unwrap_or_else(|| "constr-tag".into()),
        (T::Case(s1, b1), T::Case(s2, b2)) if b1.len() == b2.len() => {
            if !t_eq(s1, s2) {
                first_difference(s1, s2)
            } else {
                b1.iter()
                    .zip(b2)
                    .find(|(x, y)| !t_eq(x, y))
                    .map(|(x, y)| first_difference(x, y))
                    .unwrap_or_else(|| "case".into())
            }
        }
        _ => "shape".into(),
    }
}

pub fn run(cx: &mut Cx) -> String {
    let tier = cx.tier;

    // enumerated: every builtin, by Display/FromStr and inside a program
    for f in gu::all_builtins() {
        let input = json!({"builtin": format!("{f:?}")});
        if cx.is_replay() && cx.replay_input("builtin-name").map(|i| i != input).unwrap_or(true) {
            continue;
        }
        if !cx.is_replay() && !cx.mine(f as u64) {
            continue;
        }
        cx.direct("builtin-name", &input, |st| {
            st.eval();
            let name = f.to_string();
            let back = no_panic(|| F::from_str(&name)).map_err(|p| panic_failure("DefaultFunction::from_str", p, json!({"name": name})))?;
            if back.as_ref().ok() != Some(&f) {
                return Err(Failure::new(
                    format!("builtin-name-not-parsed-back:{f:?}"),
                    json!({"printed": name, "parsed": format!("{back:?}")}),
                ));
            }
            judge(&T::Builtin(f).app(T::int(1)), (1, 1, 0), st)
        });
    }

    // enumerated: every type constructor, as the element type of empty and singleton lists / pairs
    if !cx.is_replay() || cx.replay_input("type-table").is_some() {
        let mut tys = vec![
            Type::Integer,
            Type::ByteString,
            Type::String,
            Type::Unit,
            Type::Bool,
            Type::Data,
            Type::Bls12_381G1Element,
            Type::Bls12_381G2Element,
        ];
        let base = tys.clone();
        for a in &base {
            tys.push(Type::List(Rc::new(a.clone())));
            for b in &base {
                tys.push(Type::Pair(Rc::new(a.clone()), Rc::new(b.clone())));
            }
        }
        let replay_ty = cx.replay_input("type-table").map(|i| i["type"].as_str().unwrap_or("").to_string());
        for (i, ty) in tys.iter().enumerate() {
            let input = json!({"type": format!("{ty}")});
            if let Some(r) = &replay_ty {
                if *r != format!("{ty}") {
                    continue;
                }
            } else if !cx.mine(i as u64) {
                continue;
            }
            let ty = ty.clone();
            cx.direct("type-table", &input, |st| {
                let empty = T::con(Constant::ProtoList(ty.clone(), vec![]));
                judge(&empty, (1, 0, 0), st)?;
                let nested = T::con(Constant::ProtoList(Type::List(Rc::new(ty.clone())), vec![Constant::ProtoList(ty.clone(), vec![])]));
                judge(&nested, (1, 1, 0), st)
            });
        }
    }

    cx.prop("program-roundtrip", tier.of(300_000, 6_000_000), 400, |src, st| {
        let mut fuel = 1 + src.below(30);
        let open = src.chance(1, 5);
        let base = gu::gen_chaotic(src, 0, &mut fuel, false);
        let t = enrich(src, &base, true);
        let _ = open;
        let version = *src.pick(&[(1, 1, 0), (1, 0, 0), (0, 0, 0), (2, 3, 4), (11, 22, 33)]);
        judge(&t, version, st)
    });

    cx.prop("constant-roundtrip", tier.of(300_000, 6_000_000), 300, |src, st| {
        let c = gen_any_const(src, 3, true);
        judge(&T::con(c), (1, 1, 0), st)
    });

    cx.prop("string-roundtrip", tier.of(200_000, 4_000_000), 100, |src, st| {
        let n = src.below(12);
        let s: String = (0..n).map(|_| consts::gen_char(src)).collect();
        let c = if src.bool() {
            Constant::String(s)
        } else {
            Constant::ProtoList(Type::String, vec![Constant::String(s)])
        };
        judge(&T::con(c), (1, 1, 0), st)
    });

    let _ = CTy::Int;
    RULE.to_string()
}

//! C10 — evaluation and compilation never crash.
//! Validity: every evaluation of any term under a finite budget returns a value or an error
//! (no panic, no arithmetic overflow — the harness is built with overflow checks —, no abort, no
//! hang); every compilation of a module the type checker accepts returns a program.
use crate::engine::*;
use crate::gen_::aiken_gen::AikCfg;
use crate::gen_::uplc::{self as gu, T};
use crate::props::c01::{self, CompileOutcome};
use crate::props::c03::lang_pv;
use crate::props::c15::enrich;
use aiken_lang::ast::{TraceLevel, Tracing};
use serde_json::json;
use uplc::{
    ast::{DeBruijn, NamedDeBruijn, Program},
    builtins::DefaultFunction as F,
    machine::cost_model::ExBudget,
};

pub const ASSUMPTIONS: &[&str] = &[
    "budgets are finite (0, 1, small, the default transaction budget): non-terminating terms must stop with an out-of-budget error",
    "a stack overflow kills the worker and is detected by the supervisor (re-confirmed in a fresh process); deep terms are bounded to 2000 nested applications, which the 8 MiB worker stack must survive",
    "a module the type checker rejects is out of domain; a compile-time diagnostic is as good as a program",
];

pub const RULE: &str = "(a) chaotic UPLC terms: arbitrary constructors, free de Bruijn indices (0, depth+1, huge), wrong force counts, every builtin applied to anything, huge integers, under budgets {0, 1, 10^4, default} and variants A-E; (b) random builtin applied to random constants with a random number of forces and arguments; (c) terms decoded from mutated flat bytes; (d) generated well-typed modules (see C01) and entry functions made of builtin calls on boundary literals that tempt the constant folder, compiled under every trace level. Non-trivial = the evaluation performs at least 3 machine steps before stopping, or the compilation folds/compiles a builtin call on literals; distinct by term / source.";

fn budgets() -> [ExBudget; 4] {
    [ExBudget { mem: 0, cpu: 0 }, ExBudget { mem: 1, cpu: 1 }, ExBudget { mem: 10_000, cpu: 10_000_000 }, ExBudget::default()]
}

fn eval_checked(p: &Program<NamedDeBruijn>, budget: ExBudget, variant: crate::model::cek::Variant, input: &serde_json::Value, st: &mut Stats) -> CheckResult {
    let (lang, pv) = lang_pv(variant);
    let r = no_panic(|| {
        let r = p.clone().eval_version_with_protocol(budget, &lang, pv);
        let cost = r.cost();
        let ok = r.result().is_ok();
        (cost, ok)
    })
    .map_err(|pn| panic_failure("eval", pn, input.clone()))?;
    let (cost, ok) = r;
    st.class(if ok { "eval:value" } else { "eval:error" });
    // at least 3 machine steps (16000 cpu each in the default model) besides the start-up cost
    if cost.cpu >= 48_100 {
        st.nontrivial(&input.to_string());
        st.sample(|| json!({"case": input, "cpu_spent": cost.cpu, "returned_value": ok}));
    }
    Ok(())
}

/// Aiken builtin calls on literals: (name, parameter kinds, result is castable to Data)
const FOLDABLE: &[(&str, &[char])] = &[
    ("replicate_byte", &['i', 'i']),
    ("slice_bytearray", &['i', 'i', 'b']),
    ("index_bytearray", &['b', 'i']),
    ("cons_bytearray", &['i', 'b']),
    ("integer_to_bytearray", &['t', 'i', 'i']),
    ("bytearray_to_integer", &['t', 'b']),
    ("divide_integer", &['i', 'i']),
    ("quotient_integer", &['i', 'i']),
    ("remainder_integer", &['i', 'i']),
    ("mod_integer", &['i', 'i']),
    ("shift_bytearray", &['b', 'i']),
    ("rotate_bytearray", &['b', 'i']),
    ("read_bit", &['b', 'i']),
    ("count_set_bits", &['b']),
    ("find_first_set_bit", &['b']),
    ("complement_bytearray", &['b']),
    ("and_bytearray", &['t', 'b', 'b']),
    ("xor_bytearray", &['t', 'b', 'b']),
    ("append_bytearray", &['b', 'b']),
    ("length_of_bytearray", &['b']),
    ("multiply_integer", &['i', 'i']),
    ("exp_mod_integer", &['i', 'i', 'i']),
    ("sha2_256", &['b']),
    ("blake2b_224", &['b']),
    ("less_than_bytearray", &['b', 'b']),
    ("equals_integer", &['i', 'i']),
];

fn literal(src: &mut Src, kind: char) -> String {
    match kind {
        'i' => {
            let i = match src.weighted(&[5, 4, 3, 2]) {
                0 => num_bigint::BigInt::from(*src.pick(&[-1i64, 0, 1, 2, 7, 8, 9, 255, 256])),
                1 => num_bigint::BigInt::from(*src.pick(&[8191i64, 8192, 8193, 10000, 65536, -8192])),
                2 => {
                    let e = *src.pick(&[62u32, 63, 64, 65, 127, 128]);
                    let v = crate::gen_::consts::pow2(e) + src.range(-1, 1);
                    if src.bool() { v } else { -v }
                }
                _ => crate::gen_::consts::gen_int(src, true),
            };
            if i < num_bigint::BigInt::from(0) { format!("({i})") } else { i.to_string() }
        }
        'b' => {
            let n = *src.pick(&[0usize, 1, 2, 3, 8, 32, 33]);
            format!("#\"{}\"", hex::encode(src.bytes(n)))
        }
        _ => if src.bool() { "True".into() } else { "False".into() },
    }
}

/// calls whose intermediate results are BLS12-381 elements (which have no serialised constant form)
const BLS_CHAINS: &[&str] = &[
    "builtin.bls12_381_g1_compress(builtin.bls12_381_g1_hash_to_group(B, B))",
    "builtin.bls12_381_g2_compress(builtin.bls12_381_g2_hash_to_group(B, B))",
    "builtin.bls12_381_g1_equal(builtin.bls12_381_g1_hash_to_group(B, B), builtin.bls12_381_g1_hash_to_group(B, B))",
    "builtin.bls12_381_g1_compress(builtin.bls12_381_g1_add(builtin.bls12_381_g1_hash_to_group(B, B), builtin.bls12_381_g1_hash_to_group(B, B)))",
    "builtin.bls12_381_g1_compress(builtin.bls12_381_g1_scalar_mul(I, builtin.bls12_381_g1_hash_to_group(B, B)))",
    "builtin.bls12_381_g1_compress(builtin.bls12_381_g1_neg(builtin.bls12_381_g1_hash_to_group(B, B)))",
    "builtin.bls12_381_g2_compress(builtin.bls12_381_g2_neg(builtin.bls12_381_g2_hash_to_group(B, B)))",
    "builtin.bls12_381_final_verify(builtin.bls12_381_miller_loop(builtin.bls12_381_g1_hash_to_group(B, B), builtin.bls12_381_g2_hash_to_group(B, B)), builtin.bls12_381_miller_loop(builtin.bls12_381_g1_hash_to_group(B, B), builtin.bls12_381_g2_hash_to_group(B, B)))",
];

fn folder_source(src: &mut Src) -> String {
    let call = if src.chance(1, 6) {
        let mut text = String::new();
        for ch in src.pick(BLS_CHAINS).chars() {
            match ch {
                'B' => text.push_str(&literal(src, 'b')),
                'I' => text.push_str(&literal(src, 'i')),
                c => text.push(c),
            }
        }
        text
    } else {
        let (name, kinds) = *src.pick(FOLDABLE);
        let args: Vec<String> = kinds.iter().map(|k| literal(src, *k)).collect();
        format!("builtin.{name}({})", args.join(", "))
    };
    match src.below(3) {
        // in a function body
        0 => format!("use aiken/builtin\n\npub fn entry(a: Int) -> Data {{\n  let r = {call}\n  let d: Data = r\n  d\n}}\n"),
        // behind a condition that is false at run time
        1 => format!("use aiken/builtin\n\npub fn entry(a: Int) -> Data {{\n  if a == 12345 {{\n    let r = {call}\n    let d: Data = r\n    d\n  }} else {{\n    let d: Data = a\n    d\n  }}\n}}\n"),
        // in a module constant
        _ => format!("use aiken/builtin\n\nconst k = {call}\n\npub fn entry(a: Int) -> Data {{\n  let d: Data = k\n  d\n}}\n"),
    }
}

/// A compiled program must have a serialised form (it is what ends up in the blueprint).
fn encodable(program: &Program<NamedDeBruijn>, input: &serde_json::Value) -> CheckResult {
    let db: Program<uplc::ast::DeBruijn> = program.clone().into();
    match no_panic(|| db.to_cbor()).map_err(|pn| panic_failure("to_cbor(compiled)", pn, input.clone()))? {
        Ok(_) => Ok(()),
        Err(e) => Err(Failure::new("compiled-program-not-encodable", json!({"input": input, "error": format!("{e:?}").chars().take(200).collect::<String>()}))),
    }
}

/// (builtin, parameter types, result type, sample arguments in terms of `a: Int`)
const FIRST_CLASS: &[(&str, &[&str], &str, &[&str])] = &[
    ("add_integer", &["Int", "Int"], "Int", &["a", "3"]),
    ("subtract_integer", &["Int", "Int"], "Int", &["a", "3"]),
    ("multiply_integer", &["Int", "Int"], "Int", &["a", "3"]),
    ("divide_integer", &["Int", "Int"], "Int", &["7", "a"]),
    ("mod_integer", &["Int", "Int"], "Int", &["7", "a"]),
    ("equals_integer", &["Int", "Int"], "Bool", &["a", "1"]),
    ("less_than_integer", &["Int", "Int"], "Bool", &["a", "1"]),
    ("append_bytearray", &["ByteArray", "ByteArray"], "ByteArray", &["#\"00\"", "#\"ff\""]),
    ("cons_bytearray", &["Int", "ByteArray"], "ByteArray", &["a", "#\"ff\""]),
    ("index_bytearray", &["ByteArray", "Int"], "Int", &["#\"0102\"", "a"]),
    ("length_of_bytearray", &["ByteArray"], "Int", &["#\"0102\""]),
    ("equals_bytearray", &["ByteArray", "ByteArray"], "Bool", &["#\"00\"", "#\"00\""]),
    ("sha2_256", &["ByteArray"], "ByteArray", &["#\"00\""]),
    ("cons_list", &["Int", "List<Int>"], "List<Int>", &["a", "[1, 2]"]),
    ("head_list", &["List<Int>"], "Int", &["[a, 2]"]),
    ("tail_list", &["List<Int>"], "List<Int>", &["[a, 2]"]),
    ("null_list", &["List<Int>"], "Bool", &["[a]"]),
    ("i_data", &["Int"], "Data", &["a"]),
    ("un_i_data", &["Data"], "Int", &["builtin.i_data(a)"]),
    ("b_data", &["ByteArray"], "Data", &["#\"00\""]),
    ("un_b_data", &["Data"], "ByteArray", &["builtin.b_data(#\"00\")"]),
    ("list_data", &["List<Data>"], "Data", &["[builtin.i_data(a)]"]),
    ("un_list_data", &["Data"], "List<Data>", &["builtin.list_data([])"]),
    ("constr_data", &["Int", "List<Data>"], "Data", &["a", "[]"]),
    ("un_constr_data", &["Data"], "Pair<Int, List<Data>>", &["builtin.constr_data(a, [])"]),
    ("equals_data", &["Data", "Data"], "Bool", &["builtin.i_data(a)", "builtin.i_data(1)"]),
    ("serialise_data", &["Data"], "ByteArray", &["builtin.i_data(a)"]),
    ("new_pair", &["Data", "Data"], "Pair<Data, Data>", &["builtin.i_data(a)", "builtin.i_data(1)"]),
    ("fst_pair", &["Pair<Int, Int>"], "Int", &["Pair(a, 2)"]),
    ("snd_pair", &["Pair<Int, Int>"], "Int", &["Pair(a, 2)"]),
    ("if_then_else", &["Bool", "Int", "Int"], "Int", &["a == 1", "a", "3"]),
    ("debug", &["String", "Int"], "Int", &["@\"t\"", "a"]),
    ("choose_list", &["List<Int>", "Int", "Int"], "Int", &["[a]", "1", "2"]),
    ("append_string", &["String", "String"], "String", &["@\"a\"", "@\"b\""]),
    ("encode_utf8", &["String"], "ByteArray", &["@\"a\""]),
    ("decode_utf8", &["ByteArray"], "String", &["#\"61\""]),
];

fn to_data_tail(ret: &str, v: &str) -> String {
    match ret {
        "String" => format!("  let d: Data = builtin.encode_utf8({v})\n  d\n"),
        "Pair<Int, List<Data>>" => format!("  let d: Data = {v}.1st\n  d\n"),
        "Pair<Data, Data>" => format!("  {v}.1st\n"),
        "Data" => format!("  {v}\n"),
        _ => format!("  let d: Data = {v}\n  d\n"),
    }
}

fn function_value_source(src: &mut Src) -> String {
    match src.weighted(&[5, 3, 2, 2, 2]) {
        // shapes the checker may accept or reject, but the compiler must survive: alternative
        // patterns with repeated / missing variables, record updates on opaque types
        4 => {
            match src.below(4) {
                0 => {
                    let second = *src.pick(&["B(x, x)", "B(x, y)", "B(y, x)", "B(x, _)", "B(_, x)"]);
                    format!("pub type T {{\n  A(Int, Int)\n  B(Int, Int)\n}}\n\npub fn entry(a: Int) -> Data {{\n  let t = if a > 0 {{\n    A(a, 2)\n  }} else {{\n    B(a, 3)\n  }}\n  let r = when t is {{\n    A(x, y) | {second} -> x + y\n  }}\n  let d: Data = r\n  d\n}}\n")
                }
                1 => {
                    let fields = *src.pick(&["inner: Int", "inner: Int, other: Int", "inner: List<Int>"]);
                    let update = if fields.contains("List") { "inner: [a]" } else { "inner: 2" };
                    let init = if fields.contains("other") { "Thing { inner: a, other: 1 }" } else if fields.contains("List") { "Thing { inner: [] }" } else { "Thing { inner: a }" };
                    let opaque = if src.chance(2, 3) { "opaque " } else { "" };
                    let tail = if fields.contains("List") { "  let d: Data = u.inner\n  d\n" } else { "  let d: Data = u.inner\n  d\n" };
                    format!("pub {opaque}type Thing {{\n  {}\n}}\n\npub fn entry(a: Int) -> Data {{\n  let t = {init}\n  let u = Thing {{ ..t, {update} }}\n{tail}}}\n", fields.replace(", ", ",\n  "))
                }
                2 => "pub opaque type W {\n  W(Int)\n}\n\npub fn entry(a: Int) -> Data {\n  let w = W(a)\n  let W(n) = w\n  let d: Data = n\n  d\n}\n".to_string(),
                _ => "pub type P {\n  P { x: Int, y: Int }\n}\n\npub fn entry(a: Int) -> Data {\n  let p = P { x: a, y: 1 }\n  let q = P { ..p, y: 2 }\n  let P { x, y } = q\n  let d: Data = x + y\n  d\n}\n".to_string(),
            }
        }
        // a builtin handed to a higher-order helper (or bound first, or partially wrapped)
        0 => {
            let (name, params, ret, args) = *src.pick(FIRST_CLASS);
            let ps: Vec<String> = params.iter().enumerate().map(|(i, t)| format!("x{i}: {t}")).collect();
            let xs: Vec<String> = (0..params.len()).map(|i| format!("x{i}")).collect();
            let sig = format!("fn({}) -> {ret}", params.join(", "));
            let helper = format!("fn ap(h: {sig}, {}) -> {ret} {{\n  h({})\n}}\n", ps.join(", "), xs.join(", "));
            let call = match src.below(3) {
                0 => format!("  let r = ap(builtin.{name}, {})\n", args.join(", ")),
                1 => format!("  let h: {sig} = builtin.{name}\n  let r = ap(h, {})\n", args.join(", ")),
                _ => format!("  let h = if a == 99 {{\n    builtin.{name}\n  }} else {{\n    builtin.{name}\n  }}\n  let r = h({})\n", args.join(", ")),
            };
            format!("use aiken/builtin\n\n{helper}\npub fn entry(a: Int) -> Data {{\n{call}{}}}\n", to_data_tail(ret, "r"))
        }
        // functions chosen by a conditional and called at once
        1 => {
            let n = src.below(3);
            let params: Vec<String> = (0..n).map(|i| format!("p{i}: Int")).collect();
            let body = |k: usize| if n == 0 { format!("{k}") } else { format!("{k} + {}", (0..n).map(|i| format!("p{i}")).collect::<Vec<_>>().join(" + ")) };
            let args: Vec<String> = (0..n).map(|i| if i == 0 { "a".to_string() } else { i.to_string() }).collect();
            let chooser = match src.below(3) {
                0 => "if a > 0 {\n    f\n  } else {\n    g\n  }".to_string(),
                1 => "when a is {\n    0 -> f\n    _ -> g\n  }".to_string(),
                _ => "{\n    let h = if a > 0 {\n      f\n    } else {\n      g\n    }\n    h\n  }".to_string(),
            };
            format!(
                "fn f({ps}) -> Int {{\n  {}\n}}\n\nfn g({ps}) -> Int {{\n  {}\n}}\n\npub fn entry(a: Int) -> Data {{\n  let r = ({chooser})({})\n  let d: Data = r\n  d\n}}\n",
                body(1),
                body(2),
                args.join(", "),
                ps = params.join(", ")
            )
        }
        // a function returned from a function, called at once or after being bound
        2 => {
            let call = *src.pick(&["pick(a)(a)", "{\n    let h = pick(a)\n    h(a)\n  }", "{\n    let h = pick(a)\n    if a == 7 {\n      0\n    } else {\n      h(a) + h(1)\n    }\n  }"]);
            format!("fn f(x: Int) -> Int {{\n  x + 1\n}}\n\nfn g(x: Int) -> Int {{\n  x * 2\n}}\n\nfn pick(n: Int) -> fn(Int) -> Int {{\n  if n > 0 {{\n    f\n  }} else {{\n    g\n  }}\n}}\n\npub fn entry(a: Int) -> Data {{\n  let r = {call}\n  let d: Data = r\n  d\n}}\n")
        }
        // anonymous functions without arguments
        _ => {
            let call = *src.pick(&["(fn() { a + 1 })()", "{\n    let k = fn() { a + 1 }\n    k()\n  }", "(if a > 0 {\n    fn() { 1 }\n  } else {\n    fn() { 2 }\n  })()"]);
            format!("pub fn entry(a: Int) -> Data {{\n  let r = {call}\n  let d: Data = r\n  d\n}}\n")
        }
    }
}

pub fn run(cx: &mut Cx) -> String {
    let tier = cx.tier;
    cx.crashy = true;
    let variants = crate::props::c03::VARIANTS;

    // (a) chaotic terms
    cx.prop("chaotic-terms", tier.of(500_000, 30_000_000), 300, |src, st| {
        st.eval();
        let mut fuel = 1 + src.below(40);
        let base = gu::gen_chaotic(src, 0, &mut fuel, true);
        let t = if src.chance(1, 3) { enrich(src, &base, false) } else { base };
        let budget = *src.pick(&budgets());
        let variant = *src.pick(&variants);
        let input = json!({"term": t.show().chars().take(2000).collect::<String>(), "budget": [budget.mem, budget.cpu], "variant": format!("{variant:?}")});
        let p = Program { version: (1, 1, 0), term: t.to_ndb() };
        eval_checked(&p, budget, variant, &input, st)
    });

    // (b) builtin chaos: wrong arity, wrong forces, arbitrary constants
    let all: Vec<F> = gu::all_builtins();
    cx.prop("builtin-chaos", tier.of(300_000, 12_000_000), 120, |src, st| {
        st.eval();
        let f = all[src.below(all.len())];
        let mut t = T::Builtin(f);
        let forces = src.below(4);
        for _ in 0..forces {
            t = t.force();
        }
        let n = src.below(8);
        for _ in 0..n {
            let bls = src.chance(1, 8);
            let a = if src.chance(1, 8) { T::Var(1).lam() } else { T::con(crate::props::c15::gen_any_const(src, 2, bls)) };
            t = t.app(a);
            if src.chance(1, 10) {
                t = t.force();
            }
        }
        let variant = *src.pick(&variants);
        let input = json!({"term": t.show().chars().take(2000).collect::<String>(), "variant": format!("{variant:?}")});
        let p = Program { version: (1, 1, 0), term: t.to_ndb() };
        eval_checked(&p, ExBudget::default(), variant, &input, st)
    });

    // (c) decoded from mutated bytes
    cx.prop("decoded-bytes", tier.of(200_000, 8_000_000), 300, |src, st| {
        st.eval();
        let mk = |src: &mut Src| {
            let mut fuel = 1 + src.below(25);
            let base = gu::gen_chaotic(src, 0, &mut fuel, true);
            let t = enrich(src, &base, false);
            Program { version: (1, 1, 0), term: t.to_db() }.to_flat().unwrap_or_default()
        };
        let a = mk(src);
        let b = mk(src);
        let m = crate::props::c20::mutate(src, &a, &b);
        let input = json!({"hex": hex::encode(&m)});
        let decoded = no_panic(|| Program::<DeBruijn>::from_flat(&m)).map_err(|pn| panic_failure("from_flat", pn, input.clone()))?;
        let Ok(p) = decoded else {
            st.class("decode:rejected");
            return Ok(());
        };
        st.class("decode:accepted");
        let p: Program<NamedDeBruijn> = p.into();
        eval_checked(&p, ExBudget { mem: 100_000, cpu: 100_000_000 }, crate::model::cek::Variant::E, &input, st)
    });

    // (d) deep terms built iteratively
    if !cx.is_replay() || cx.replay_input("deep-term").is_some() {
        let replay = cx.replay_input("deep-term");
        let mut k = 0u64;
        for depth in [200usize, 1000, 2000] {
            for shape in ["apply-identity", "delay-force", "lambda", "constr-nesting"] {
                k += 1;
                let input = json!({"shape": shape, "depth": depth});
                if let Some(r) = &replay {
                    if *r != input {
                        continue;
                    }
                } else if !cx.mine(k) {
                    continue;
                }
                cx.direct("deep-term", &input, |st| {
                    st.eval();
                    let mut t = T::int(1);
                    for _ in 0..depth {
                        t = match shape {
                            "apply-identity" => T::Var(1).lam().app(t),
                            "delay-force" => t.delay().force(),
                            "lambda" => t.lam(),
                            _ => T::Constr(0, vec![t]),
                        };
                    }
                    let p = Program { version: (1, 1, 0), term: t.to_ndb() };
                    eval_checked(&p, ExBudget::default(), crate::model::cek::Variant::E, &input, st)
                });
            }
        }
    }

    // (e) compilation of generated well-typed modules
    cx.shrink_iters = 0;
    let cfg = AikCfg::default();
    cx.prop("compile-generated-modules", tier.of(6_000, 150_000), 3000, |src, st| {
        st.eval();
        let case = c01::gen_case(src, &cfg, 1);
        let tracing = *src.pick(&[Tracing::All(TraceLevel::Silent), Tracing::All(TraceLevel::Compact), Tracing::All(TraceLevel::Verbose)]);
        match c01::compile_entry(&case.source, tracing) {
            CompileOutcome::Panic((msg, loc)) => Err(Failure::new(panic_signature("compile", &msg, &loc), json!({"panic": msg, "at": loc, "input": {"source": case.source, "tracing": format!("{tracing:?}")}}))),
            CompileOutcome::Rejected(_) => {
                st.class("generator:rejected-by-checker");
                Ok(())
            }
            _ => {
                st.class("compile:ok");
                st.nontrivial(&case.source);
                Ok(())
            }
        }
    });

    // (f) constant-folder temptation
    cx.prop("compile-builtin-calls-on-literals", tier.of(12_000, 300_000), 60, |src, st| {
        st.eval();
        let source = folder_source(src);
        let tracing = *src.pick(&[Tracing::All(TraceLevel::Silent), Tracing::All(TraceLevel::Verbose)]);
        let input = json!({"source": source, "tracing": format!("{tracing:?}")});
        match c01::compile_entry(&source, tracing) {
            CompileOutcome::Panic((msg, loc)) => Err(Failure::new(panic_signature("compile", &msg, &loc), json!({"panic": msg, "at": loc, "input": input}))),
            CompileOutcome::Rejected(e) => {
                st.class("compile:diagnostic");
                if std::env::var("VERIF_SHOW_REJECTS").is_ok() {
                    eprintln!("{source}\n{e:?}");
                }
                Ok(())
            }
            CompileOutcome::FreeUnique(e) => Err(Failure::new("compiled-program-has-free-variable", json!({"error": e, "input": input}))),
            CompileOutcome::Ok(c) => {
                st.class("compile:ok");
                // running the program must not crash either
                for a in [0i64, 12345] {
                    let args = vec![uplc::ast::Data::integer(a.into())];
                    let _ = no_panic(|| crate::aik::eval_with_args(&c.program, &args)).map_err(|pn| panic_failure("eval(compiled)", pn, input.clone()))?;
                }
                encodable(&c.program, &input)?;
                st.nontrivial(&source);
                st.sample(|| input.clone());
                Ok(())
            }
        }
    });

    // (g) functions as values: builtins passed to higher-order helpers, functions picked by a
    // conditional and then called, functions kept in tuples
    cx.prop("compile-function-values", tier.of(12_000, 300_000), 60, |src, st| {
        st.eval();
        let source = function_value_source(src);
        let tracing = *src.pick(&[Tracing::All(TraceLevel::Silent), Tracing::All(TraceLevel::Verbose)]);
        let input = json!({"source": source, "tracing": format!("{tracing:?}")});
        match c01::compile_entry(&source, tracing) {
            CompileOutcome::Panic((msg, loc)) => Err(Failure::new(panic_signature("compile", &msg, &loc), json!({"panic": msg, "at": loc, "input": input}))),
            CompileOutcome::Rejected(e) => {
                st.class("function-values:rejected-by-checker");
                if std::env::var("VERIF_SHOW_REJECTS").is_ok() {
                    eprintln!("{source}\n{e:?}");
                }
                Ok(())
            }
            CompileOutcome::FreeUnique(e) => Err(Failure::new("compiled-program-has-free-variable", json!({"error": e, "input": input}))),
            CompileOutcome::Ok(c) => {
                st.class("function-values:compiled");
                for a in [0i64, 1, 7] {
                    let args = vec![uplc::ast::Data::integer(a.into())];
                    let post = no_panic(|| crate::aik::eval_with_args(&c.program, &args)).map_err(|pn| panic_failure("eval(compiled)", pn, input.clone()))?;
                    // the optimiser must not change the outcome either (kept here because these
                    // shapes are not produced by the typed generator of C02)
                    if let Some(pre) = &c.pre {
                        let pre = no_panic(|| crate::aik::eval_with_args(pre, &args)).map_err(|pn| panic_failure("eval(pre-optimisation)", pn, input.clone()))?;
                        let show = |o: &crate::aik::Outcome| match o {
                            crate::aik::Outcome::Value(t) => format!("value {}", t.to_pretty()),
                            crate::aik::Outcome::Error(k, _) => format!("error {k}"),
                        };
                        if show(&pre.0) != show(&post.0) && !matches!((&pre.0, &post.0), (crate::aik::Outcome::Error(..), crate::aik::Outcome::Error(..))) {
                            return Err(Failure::new("function-values:optimiser-changes-outcome", json!({"input": input, "argument": a, "pre_optimisation": show(&pre.0), "post_optimisation": show(&post.0)})));
                        }
                    }
                }
                encodable(&c.program, &input)?;
                st.nontrivial(&source);
                st.sample(|| input.clone());
                Ok(())
            }
        }
    });

    cx.crashy = false;
    RULE.to_string()
}

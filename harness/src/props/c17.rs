//! C17 — parallel test runs are isolated and schedule-independent.
//! (1) Isolation invariant, decided structurally through hook H2 on the exact `Vec<Test>` handed
//!     to rayon: no `Rc` allocation of a test's programs is reachable from another test, none is
//!     also held by something outside the test (constant cache, module AST, generator), and no
//!     unit test still carries its assertion.
//! (2) Schedule independence: the rendered results of `Project::check` are the same, in the same
//!     order, for every pool size, and equal to running the tests one at a time.
use crate::engine::*;
use aiken_lang::ast::{TraceLevel, Tracing};
use aiken_lang::test_framework::{Test, TestResult};
use aiken_project::telemetry::{CoverageMode, Event, EventListener};
use serde_json::json;
use std::cell::RefCell;
use std::collections::{BTreeMap, HashMap};
use std::path::{Path, PathBuf};
use std::rc::Rc;
use uplc::ast::{Constant, Name, Program, Term, Type};

pub const ASSUMPTIONS: &[&str] = &[
    "a non-atomic reference-count race needs a particular interleaving and cannot be provoked by running more tests; what is decided per generated project is the structural fact the property states: whether an Rc allocation that a running test reads, clones or drops is reachable from anywhere else",
    "what `Test::run` touches on the worker thread was established by reading UnitTest::run, PropertyTest::run / run_n_times / run_once / eval, Prng::sample and Benchmark::run: `program`, `fuzzer.program`, `sampler.program` (every Rc<Term>, Rc<Name>, Rc<Constant>, and inside constants ProtoPair's Rc<Constant> and the Rc<Type> of list / pair types); `Fuzzer.type_info` / `stripped_type_info` are shared with the checked modules by design and are not touched before results are back on the calling thread, so they are not part of the audited graph",
    "results are compared on module, name, verdict, budget, logs, iterations, labels, counterexample and assertion (Debug renderings), not on the embedded programs",
    "the order of results is compared within each module; across modules the collection order follows the iteration order of a std HashMap keyed by module name, which `aiken check` re-groups by module before display",
];

pub const RULE: &str = "generated on-disk projects of one or two library modules with 2-6 module constants of list / pairs / tuple / option / bytearray / nested types, shared generic helpers (two of them with an `expect` pattern, whose failure message is generated code shared by every caller) and a shared fuzzer library, and 4-14 unit and property tests (passing, failing, `fail`, duplicates of one body) each referring to 1-3 of the constants; `Project::check` on rayon pools of 1 and of two other sizes out of {2, 3, 4, 8, 16}, plus three tests run alone by exact match. Non-trivial = at least two tests refer to the same constant, the audited graph has at least 100 Rc nodes, and at least one test fails (so that the assertion path after the parallel section runs); distinct by project source.";

// ------------------------------------------------------------------ the audit (hook H2)

#[derive(Default, Clone)]
struct AuditReport {
    tests: usize,
    nodes: usize,
    max_strong: usize,
    problems: Vec<String>,
}

thread_local! {
    static REPORT: RefCell<Option<AuditReport>> = const { RefCell::new(None) };
}

#[derive(Default)]
struct Graph {
    /// allocation address -> (strong count, references found inside this test, kind)
    nodes: HashMap<usize, (usize, usize, &'static str)>,
}

impl Graph {
    /// returns true the first time the allocation is seen
    fn see<T>(&mut self, rc: &Rc<T>, kind: &'static str) -> bool {
        let e = self.nodes.entry(Rc::as_ptr(rc) as *const u8 as usize).or_insert((Rc::strong_count(rc), 0, kind));
        e.1 += 1;
        e.1 == 1
    }

    fn ty(&mut self, t: &Type) {
        match t {
            Type::List(inner) => {
                if self.see(inner, "Rc<Type>") {
                    self.ty(inner);
                }
            }
            Type::Pair(a, b) => {
                for x in [a, b] {
                    if self.see(x, "Rc<Type>") {
                        self.ty(x);
                    }
                }
            }
            _ => {}
        }
    }

    fn constant(&mut self, c: &Constant) {
        match c {
            Constant::ProtoList(t, items) => {
                self.ty(t);
                for i in items {
                    self.constant(i);
                }
            }
            Constant::ProtoPair(ta, tb, a, b) => {
                self.ty(ta);
                self.ty(tb);
                for x in [a, b] {
                    if self.see(x, "Rc<Constant>") {
                        self.constant(x);
                    }
                }
            }
            _ => {}
        }
    }

    fn program(&mut self, p: &Program<Name>) {
        let mut stack: Vec<&Term<Name>> = vec![&p.term];
        while let Some(t) = stack.pop() {
            match t {
                Term::Var(n) => {
                    self.see(n, "Rc<Name>");
                }
                Term::Delay(b) | Term::Force(b) => {
                    if self.see(b, "Rc<Term>") {
                        stack.push(b);
                    }
                }
                Term::Lambda { parameter_name, body } => {
                    self.see(parameter_name, "Rc<Name>");
                    if self.see(body, "Rc<Term>") {
                        stack.push(body);
                    }
                }
                Term::Apply { function, argument } => {
                    for x in [function, argument] {
                        if self.see(x, "Rc<Term>") {
                            stack.push(x);
                        }
                    }
                }
                Term::Constant(c) => {
                    if self.see(c, "Rc<Constant>") {
                        self.constant(c);
                    }
                }
                Term::Constr { fields, .. } => stack.extend(fields.iter()),
                Term::Case { constr, branches } => {
                    if self.see(constr, "Rc<Term>") {
                        stack.push(constr);
                    }
                    stack.extend(branches.iter());
                }
                Term::Error | Term::Builtin(_) => {}
            }
        }
    }
}

fn audit(tests: &[Test]) {
    let mut report = AuditReport { tests: tests.len(), ..AuditReport::default() };
    let mut owner: HashMap<usize, usize> = HashMap::new();
    for (i, t) in tests.iter().enumerate() {
        let mut g = Graph::default();
        let name = match t {
            Test::UnitTest(u) => {
                if u.assertion.is_some() {
                    report.problems.push(format!("unit-test-still-carries-its-assertion:{}", u.name));
                }
                g.program(&u.program);
                u.name.clone()
            }
            Test::PropertyTest(p) => {
                g.program(&p.program);
                g.program(&p.fuzzer.program);
                p.name.clone()
            }
            Test::Benchmark(b) => {
                g.program(&b.program);
                g.program(&b.sampler.program);
                b.name.clone()
            }
        };
        for (addr, (strong, inside, kind)) in &g.nodes {
            report.nodes += 1;
            report.max_strong = report.max_strong.max(*strong);
            if let Some(j) = owner.get(addr) {
                report.problems.push(format!("rc-shared-between-tests:{kind}:{}:and-test-#{j}", name));
            } else {
                owner.insert(*addr, i);
                if strong > inside {
                    report.problems.push(format!("rc-held-outside-the-test:{kind}:{name}:strong={strong}:inside={inside}"));
                }
            }
        }
    }
    report.problems.sort();
    report.problems.dedup();
    REPORT.with(|r| *r.borrow_mut() = Some(report));
}

// ------------------------------------------------------------------ running a project

struct Listener(Rc<RefCell<Vec<(String, String)>>>);

fn render(t: &TestResult<aiken_lang::expr::UntypedExpr, aiken_lang::expr::UntypedExpr>) -> (String, String) {
    match t {
        TestResult::UnitTestResult(u) => (u.test.module.clone(), format!("unit {}.{} success={} budget={:?} logs={:?} assertion={:?}", u.test.module, u.test.name, u.success, u.spent_budget, u.logs, u.assertion)),
        TestResult::PropertyTestResult(p) => (p.test.module.clone(), format!("property {}.{} success={} iterations={} labels={:?} counterexample={:?} logs={:?}", p.test.module, p.test.name, t.is_success(), p.iterations, p.labels, p.counterexample.as_ref().map_err(|e| format!("{e:?}")), p.logs)),
        TestResult::BenchmarkResult(b) => (b.bench.module.clone(), format!("bench {}.{}", b.bench.module, b.bench.name)),
    }
}

impl EventListener for Listener {
    fn handle_event(&self, event: Event) {
        if let Event::FinishedTests { tests, .. } = event {
            self.0.borrow_mut().extend(tests.iter().map(render));
        }
    }
}

struct RunOut {
    results: Vec<(String, String)>,
    audit: Option<AuditReport>,
    error: Option<String>,
}

fn run_project(root: &Path, threads: usize, matching: Option<Vec<String>>, seed: u32, tracing: Tracing) -> RunOut {
    let root: PathBuf = root.to_path_buf();
    let pool = rayon::ThreadPoolBuilder::new().num_threads(threads).build().expect("rayon pool");
    pool.install(move || {
        REPORT.with(|r| *r.borrow_mut() = None);
        aiken_project::verif_hooks::set_audit(Some(Box::new(audit)));
        let sink = Rc::new(RefCell::new(vec![]));
        let out = match aiken_project::Project::new(root, Listener(sink.clone())) {
            Err(e) => RunOut { results: vec![], audit: None, error: Some(format!("Project::new: {e:?}").chars().take(400).collect()) },
            Ok(mut project) => {
                let exact = matching.is_some();
                let r = project.check(false, matching, false, exact, seed, 10, CoverageMode::default(), tracing, false, None);
                // test failures are reported as errors too; only keep errors that are not test failures
                let error = match r {
                    Ok(()) => None,
                    Err(errs) => {
                        let other: Vec<String> = errs.iter().filter(|e| !matches!(e, aiken_project::error::Error::TestFailure { .. })).map(|e| format!("{e:?}").chars().take(1500).collect()).collect();
                        if other.is_empty() { None } else { Some(other.join("; ")) }
                    }
                };
                let results = sink.borrow().clone();
                RunOut { results, audit: REPORT.with(|r| r.borrow_mut().take()), error }
            }
        };
        aiken_project::verif_hooks::set_audit(None);
        out
    })
}

// ------------------------------------------------------------------ project generation

const FUZZ_LIB: &str = r#"
pub fn rand(prng: PRNG) -> Option<(PRNG, Int)> {
  when prng is {
    Seeded { seed, choices } -> {
      let choice = builtin.index_bytearray(seed, 0)
      Some(
        (
          Seeded {
            seed: builtin.blake2b_256(seed),
            choices: builtin.cons_bytearray(choice, choices),
          },
          choice,
        ),
      )
    }
    Replayed { cursor, choices } ->
      if cursor >= 1 {
        let cursor = cursor - 1
        Some((Replayed { cursor, choices }, builtin.index_bytearray(choices, cursor)))
      } else {
        None
      }
  }
}

pub fn small() -> Fuzzer<Int> {
  fn(s0) {
    when rand(s0) is {
      Some((s1, c)) -> Some((s1, c % 10))
      None -> None
    }
  }
}

pub fn pair_of_small() -> Fuzzer<(Int, Int)> {
  fn(s0) {
    when rand(s0) is {
      Some((s1, a)) ->
        when rand(s1) is {
          Some((s2, b)) -> Some((s2, (a % 5, b % 5)))
          None -> None
        }
      None -> None
    }
  }
}

pub fn first(xs: List<Int>) -> Int {
  expect [head, ..] = xs
  head
}

pub fn unwrap(o: Option<Int>) -> Int {
  expect Some(n) = o
  n
}

pub fn sum(xs: List<Int>) -> Int {
  when xs is {
    [] -> 0
    [x, ..r] -> x + sum(r)
  }
}

pub fn len(xs: List<a>) -> Int {
  when xs is {
    [] -> 0
    [_, ..r] -> 1 + len(r)
  }
}
"#;

struct K {
    name: String,
    ty: &'static str,
    literal: String,
    /// an Int-valued expression over the constant, and its value
    uses: Vec<(String, i64)>,
}

fn gen_constant(src: &mut Src, i: usize) -> K {
    let name = format!("k{i}");
    let small = |src: &mut Src| src.below(9) as i64 + 1;
    if src.chance(1, 5) {
        // empty collections of compound element types
        let ty = *src.pick(&["Pairs<Int, Int>", "Pairs<ByteArray, List<Int>>", "List<(Int, List<Int>)>", "List<List<Int>>", "List<Int>", "List<Pair<Int, ByteArray>>"]);
        return K { uses: vec![(format!("len({name})"), 0)], name, ty, literal: "[]".to_string() };
    }
    match src.below(7) {
        0 => {
            let xs: Vec<i64> = (0..1 + src.below(5)).map(|_| small(src)).collect();
            let lit = format!("[{}]", xs.iter().map(|x| x.to_string()).collect::<Vec<_>>().join(", "));
            K { uses: vec![(format!("sum({name})"), xs.iter().sum()), (format!("len({name})"), xs.len() as i64), (format!("first({name})"), xs[0])], name, ty: "List<Int>", literal: lit }
        }
        1 => {
            let xs: Vec<(i64, u8)> = (0..1 + src.below(4)).map(|_| (small(src), src.below(256) as u8)).collect();
            let lit = format!("[{}]", xs.iter().map(|(a, b)| format!("Pair({a}, #\"{b:02x}\")")).collect::<Vec<_>>().join(", "));
            K { uses: vec![(format!("len({name})"), xs.len() as i64), (format!("when {name} is {{\n      [Pair(a, _), ..] -> a\n      [] -> 0\n    }}"), xs[0].0)], name, ty: "Pairs<Int, ByteArray>", literal: lit }
        }
        2 => {
            let (a, b) = (small(src), src.below(256));
            K { uses: vec![(format!("{name}.1st"), a), (format!("builtin.length_of_bytearray({name}.2nd)"), 1)], name, ty: "(Int, ByteArray)", literal: format!("({a}, #\"{b:02x}\")") }
        }
        3 => {
            let xs: Vec<(i64, Vec<i64>)> = (0..1 + src.below(3)).map(|_| (small(src), (0..src.below(3)).map(|_| small(src)).collect())).collect();
            let lit = format!("[{}]", xs.iter().map(|(a, ys)| format!("({a}, [{}])", ys.iter().map(|y| y.to_string()).collect::<Vec<_>>().join(", "))).collect::<Vec<_>>().join(", "));
            K { uses: vec![(format!("len({name})"), xs.len() as i64), (format!("when {name} is {{\n      [(a, ys), ..] -> a + sum(ys)\n      [] -> 0\n    }}"), xs[0].0 + xs[0].1.iter().sum::<i64>())], name, ty: "List<(Int, List<Int>)>", literal: lit }
        }
        4 => {
            let n = 1 + src.below(6);
            K { uses: vec![(format!("builtin.length_of_bytearray({name})"), n as i64)], name, ty: "ByteArray", literal: format!("#\"{}\"", "ab".repeat(n)) }
        }
        5 => {
            let a = small(src);
            K { uses: vec![(format!("when {name} is {{\n      Some(n) -> n\n      None -> 0\n    }}"), a), (format!("unwrap({name})"), a)], name, ty: "Option<Int>", literal: format!("Some({a})") }
        }
        _ => {
            let xs: Vec<(Vec<u8>, i64)> = (0..1 + src.below(3)).map(|_| (vec![src.below(256) as u8; 1 + src.below(3)], small(src))).collect();
            let lit = format!("[{}]", xs.iter().map(|(b, a)| format!("Pair(#\"{}\", [{a}, {a}])", hex::encode(b))).collect::<Vec<_>>().join(", "));
            K { uses: vec![(format!("len({name})"), xs.len() as i64), (format!("when {name} is {{\n      [Pair(_, ys), ..] -> sum(ys)\n      [] -> 0\n    }}"), 2 * xs[0].1)], name, ty: "Pairs<ByteArray, List<Int>>", literal: lit }
        }
    }
}

struct Generated {
    files: Vec<(String, String)>,
    test_names: Vec<(String, String)>,
    shared_constant: bool,
    expected_failures: usize,
}

fn gen_project(src: &mut Src) -> Generated {
    let nk = 2 + src.below(5);
    let ks: Vec<K> = (0..nk).map(|i| gen_constant(src, i)).collect();
    let two_modules = src.chance(1, 2);
    let mut a = String::from("use aiken/builtin\n");
    a.push_str(FUZZ_LIB);
    for k in &ks {
        a.push_str(&format!("\npub const {}: {} = {}\n", k.name, k.ty, k.literal));
    }
    let mut b = format!("use aiken/builtin\nuse a.{{{}, first, len, pair_of_small, small, sum, unwrap}}\n", ks.iter().map(|k| k.name.clone()).collect::<Vec<_>>().join(", "));
    let nt = 4 + src.below(11);
    let mut used = vec![0usize; nk];
    let mut test_names = vec![];
    let mut expected_failures = 0;
    let mut bodies: Vec<String> = vec![];
    for t in 0..nt {
        let in_b = two_modules && src.chance(1, 2);
        let (modname, out) = if in_b { ("b", &mut b) } else { ("a", &mut a) };
        let name = format!("t{t}");
        test_names.push((modname.to_string(), name.clone()));
        // a duplicate of an earlier body
        if !bodies.is_empty() && src.chance(1, 6) {
            let body = bodies[src.below(bodies.len())].clone();
            out.push_str(&format!("\ntest {name}{body}"));
            if body.contains("// F") {
                expected_failures += 1;
            }
            continue;
        }
        let nuse = 1 + src.below(3);
        let mut terms = vec![];
        let mut total = 0i64;
        for _ in 0..nuse {
            let ki = src.below(nk);
            used[ki] += 1;
            let (e, v) = &ks[ki].uses[src.below(ks[ki].uses.len())];
            terms.push(if e.starts_with("when") { format!("(\n    {e}\n  )") } else { e.clone() });
            total += v;
        }
        let lhs = terms.join(" + ");
        let body = match src.weighted(&[4, 2, 1, 3, 1]) {
            0 => format!("() {{\n  {lhs} == {total}\n}}\n"),
            1 => {
                expected_failures += 1;
                format!("() {{\n  // F\n  {lhs} == {}\n}}\n", total + 1)
            }
            2 => format!("() fail {{\n  {lhs} == {}\n}}\n", total + 1),
            3 => format!("(x via small()) {{\n  {lhs} + x >= {total}\n}}\n"),
            _ => {
                expected_failures += 1;
                format!("(x via pair_of_small()) {{\n  // F\n  {lhs} + x.1st + x.2nd < {total}\n}}\n")
            }
        };
        out.push_str(&format!("\ntest {name}{body}"));
        bodies.push(body);
    }
    let mut files = vec![("aiken.toml".to_string(), "name = \"test/project\"\nversion = \"0.0.0\"\nplutus = \"v3\"\ndescription = \"\"\n".to_string()), ("lib/a.ak".to_string(), a)];
    if two_modules {
        files.push(("lib/b.ak".to_string(), b));
    }
    Generated { files, test_names, shared_constant: used.iter().any(|u| *u >= 2), expected_failures }
}

// ------------------------------------------------------------------ the check

fn judge(workdir: &Path, src: &mut Src, st: &mut Stats) -> CheckResult {
    st.eval();
    let generated = gen_project(src);
    let seed = src.below(1 << 20) as u32;
    let tracing = if src.chance(2, 3) { Tracing::All(TraceLevel::Verbose) } else { Tracing::All(TraceLevel::Silent) };
    let mut sizes = vec![1usize];
    for _ in 0..2 {
        sizes.push(*src.pick(&[2usize, 3, 4, 8, 16]));
    }
    let alone: Vec<usize> = (0..3).map(|_| src.below(generated.test_names.len())).collect();
    static COUNTER: std::sync::atomic::AtomicU64 = std::sync::atomic::AtomicU64::new(0);
    let root = workdir.join(format!("c17-{}-{}", std::process::id(), COUNTER.fetch_add(1, std::sync::atomic::Ordering::Relaxed)));
    let _ = std::fs::remove_dir_all(&root);
    for (path, text) in &generated.files {
        let p = root.join(path);
        std::fs::create_dir_all(p.parent().unwrap()).map_err(|e| Failure::new("harness-io", json!({"error": e.to_string()})))?;
        std::fs::write(&p, text).map_err(|e| Failure::new("harness-io", json!({"error": e.to_string()})))?;
    }
    let input = json!({"files": generated.files.iter().filter(|(p, _)| p.ends_with(".ak")).map(|(p, t)| (p.clone(), if p == "lib/a.ak" { t.replace(FUZZ_LIB, "\n/* fuzz lib */\n") } else { t.clone() })).collect::<BTreeMap<_, _>>(), "seed": seed, "pool_sizes": sizes, "tracing": format!("{tracing:?}")});
    let result = (|| -> CheckResult {
        let mut reference: Option<Vec<(String, String)>> = None;
        let mut audited_nodes = 0;
        for &threads in &sizes {
            let out = no_panic(|| run_project(&root, threads, None, seed, tracing)).map_err(|p| panic_failure(&format!("Project::check(threads={threads})"), p, input.clone()))?;
            st.evals(1);
            if let Some(e) = out.error {
                if reference.is_none() {
                    st.class(&format!("skipped:{}", e.chars().take(60).collect::<String>()));
                    if std::env::var("VERIF_SHOW_REJECTS").is_ok() {
                        eprintln!("---- {e}\n{}", generated.files[1].1.replace(FUZZ_LIB, ""));
                    }
                    return Ok(());
                }
                return Err(Failure::new("project-error-depends-on-pool-size", json!({"input": input, "threads": threads, "error": e})));
            }
            // (1) isolation
            let Some(audit) = out.audit else {
                return Err(Failure::new("harness-audit-hook-did-not-fire", json!({"input": input})));
            };
            if let Some(p) = audit.problems.first() {
                let kind: String = p.split(':').take(2).collect::<Vec<_>>().join(":");
                return Err(Failure::new(format!("isolation:{kind}"), json!({"input": input, "threads": threads, "problems": audit.problems.iter().take(8).collect::<Vec<_>>(), "rc_nodes_audited": audit.nodes})));
            }
            if audit.tests != generated.test_names.len() {
                return Err(Failure::new("tests-lost-or-invented", json!({"input": input, "audited": audit.tests, "declared": generated.test_names.len()})));
            }
            audited_nodes = audit.nodes;
            // (2) schedule independence
            let by_module = |rs: &[(String, String)]| {
                let mut m: BTreeMap<String, Vec<String>> = BTreeMap::new();
                for (k, v) in rs {
                    m.entry(k.clone()).or_default().push(v.clone());
                }
                m
            };
            match &reference {
                None => {
                    // order within a module is declaration order
                    for (module, rs) in by_module(&out.results) {
                        let want: Vec<String> = generated.test_names.iter().filter(|(m, _)| *m == module).map(|(m, n)| format!("{m}.{n} ")).collect();
                        let got: Vec<String> = rs.iter().map(|r| r.split(' ').nth(1).unwrap_or("").to_string() + " ").collect();
                        if want != got {
                            return Err(Failure::new("results-not-in-declaration-order", json!({"input": input, "module": module, "declared": want, "reported": got})));
                        }
                    }
                    let failures = out.results.iter().filter(|(_, r)| r.contains("success=false")).count();
                    if failures != generated.expected_failures {
                        return Err(Failure::new("number-of-failing-tests-unexpected", json!({"input": input, "expected": generated.expected_failures, "reported": failures, "results": out.results.iter().map(|r| r.1.chars().take(120).collect::<String>()).collect::<Vec<_>>()})));
                    }
                    reference = Some(out.results);
                }
                Some(r) => {
                    if by_module(r) != by_module(&out.results) {
                        let (a, b) = (by_module(r), by_module(&out.results));
                        let diff: Vec<_> = a.values().flatten().zip(b.values().flatten()).filter(|(x, y)| x != y).take(2).map(|(x, y)| json!({"one_thread": x.chars().take(400).collect::<String>(), "this_pool": y.chars().take(400).collect::<String>()})).collect();
                        return Err(Failure::new("results-depend-on-pool-size", json!({"input": input, "threads": threads, "first_differences": diff})));
                    }
                }
            }
        }
        // one at a time
        let reference = reference.unwrap();
        for &i in &alone {
            let (m, n) = &generated.test_names[i];
            let out = no_panic(|| run_project(&root, 2, Some(vec![format!("{m}.{{{n}}}")]), seed, tracing)).map_err(|p| panic_failure("Project::check(one test)", p, input.clone()))?;
            st.evals(1);
            let want: Vec<&String> = reference.iter().filter(|(_, r)| r.split(' ').nth(1) == Some(&format!("{m}.{n}"))).map(|(_, r)| r).collect();
            let got: Vec<&String> = out.results.iter().map(|(_, r)| r).collect();
            if let Some(a) = out.audit {
                if let Some(p) = a.problems.first() {
                    let kind: String = p.split(':').take(2).collect::<Vec<_>>().join(":");
                    return Err(Failure::new(format!("isolation:{kind}"), json!({"input": input, "alone": format!("{m}.{n}"), "problems": a.problems.iter().take(8).collect::<Vec<_>>()})));
                }
            }
            if want != got {
                return Err(Failure::new("result-differs-when-the-test-runs-alone", json!({"input": input, "test": format!("{m}.{n}"), "with_the_others": want.iter().map(|s| s.chars().take(400).collect::<String>()).collect::<Vec<_>>(), "alone": got.iter().map(|s| s.chars().take(400).collect::<String>()).collect::<Vec<_>>()})));
            }
        }
        st.class(&format!("tests:{}", (generated.test_names.len() / 4) * 4));
        st.class(&format!("rc-nodes:{}", if audited_nodes >= 1000 { ">=1000" } else if audited_nodes >= 100 { "100-999" } else { "<100" }));
        st.class(&format!("modules:{}", generated.files.len() - 1));
        if generated.shared_constant && audited_nodes >= 100 && generated.expected_failures >= 1 {
            st.nontrivial(&generated.files[1].1);
            st.sample(|| json!({"tests": generated.test_names.len(), "rc_nodes_audited": audited_nodes, "pool_sizes": sizes, "failing_tests": generated.expected_failures, "modules": generated.files.len() - 1}));
        }
        Ok(())
    })();
    let _ = std::fs::remove_dir_all(&root);
    result
}

pub fn run(cx: &mut Cx) -> String {
    let tier = cx.tier;
    if std::env::var("VERIF_BACKTRACE").is_err() && std::env::var("VERIF_SHOW_REJECTS").is_err() {
        unsafe {
            let devnull = libc::open(c"/dev/null".as_ptr(), libc::O_WRONLY);
            if devnull >= 0 {
                libc::dup2(devnull, 2);
            }
        }
    }
    let workdir = cx.workdir.clone();
    cx.shrink_iters = 60;
    cx.prop("generated-projects", tier.of(480, 12_000), 400, move |src, st| judge(&workdir, src, st));
    RULE.to_string()
}

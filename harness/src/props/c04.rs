//! C04 — every builtin computes its specified function on its whole domain.
//! One saturated, correctly forced application per case, evaluated through the public
//! `eval_version_with_protocol` path under each semantics variant, judged against the harness'
//! own denotations (model::builtins + model::bext), Python hashlib for the hash functions,
//! algebraic laws for BLS, and "same arguments, same answer; never a panic" for everything.
use crate::engine::*;
use crate::gen_::consts::{self, CTy};
use crate::gen_::uplc::T;
use crate::model::bext::{self, Ext};
use crate::model::builtins::{self as mb, BRes};
use crate::model::cek::{self, V, Variant};
use crate::model::mconst::{D, MC};
use crate::props::c03::{VARIANTS, lang_pv};
use num_bigint::BigInt;
use num_traits::Zero;
use serde_json::{Value as J, json};
use std::rc::Rc;
use uplc::{ast::Constant, builtins::DefaultFunction as F, machine::cost_model::ExBudget};

pub const ASSUMPTIONS: &[&str] = &[
    "the denotations in harness/src/model/builtins.rs and model/bext.rs transcribe the Plutus builtin specification (batches 1-6, CIP-121/122/123/109)",
    "where an Int-typed parameter does not fit a machine word the specification's total formula and the reference implementation's failure are both accepted (EITHER); a panic or any third value is a violation",
    "hash builtins are judged against Python's hashlib (sha2_256, sha3_256, blake2b-256/224, ripemd160) and an own Keccak-256; signature verification is only judged on its length checks, determinism and on never answering True for random garbage; BLS only through algebraic laws (no second implementation is available offline)",
    "error kinds are not compared: the specification has one failure",
];

pub const RULE: &str = "for every DefaultFunction (iterated, not sampled): argument tuples of the declared types with boundary-biased values (0, +-1, 2^63+-1, 2^64+-1, 2^128.., indices -1/0/len-1/len, sizes 8191-8193, shifts of +-8*len+-1, modulus 1, non-invertible bases, empty/one-byte/64-65-byte strings, every Data kind) plus ~15% ill-typed tuples, applied with the right number of forces under variants A-E. Non-trivial = the model answers with a value or a domain failure (not a type failure) and at least one argument is a boundary value or a composite constant; distinct by (builtin, variant, arguments).";

#[derive(Clone, Copy, Debug, PartialEq)]
pub enum K {
    Int,
    Bytes,
    Str,
    Bool,
    Unit,
    Data,
    ListData,
    ListPairData,
    ListInt,
    ListAny,
    PairAny,
    Any,
    G1,
    G2,
    Ml,
    ListG1,
    ListG2,
}

pub fn kinds(f: F) -> Vec<K> {
    use F::*;
    use K::*;
    match f {
        AddInteger | SubtractInteger | MultiplyInteger | DivideInteger | QuotientInteger | RemainderInteger | ModInteger | EqualsInteger | LessThanInteger | LessThanEqualsInteger => vec![Int, Int],
        AppendByteString | EqualsByteString | LessThanByteString | LessThanEqualsByteString => vec![Bytes, Bytes],
        ConsByteString => vec![Int, Bytes],
        SliceByteString => vec![Int, Int, Bytes],
        LengthOfByteString | Sha2_256 | Sha3_256 | Blake2b_256 | Blake2b_224 | Keccak_256 | Ripemd_160 | DecodeUtf8 | ComplementByteString | CountSetBits | FindFirstSetBit => vec![Bytes],
        IndexByteString | ReadBit | ShiftByteString | RotateByteString => vec![Bytes, Int],
        VerifyEd25519Signature | VerifyEcdsaSecp256k1Signature | VerifySchnorrSecp256k1Signature => vec![Bytes, Bytes, Bytes],
        AppendString | EqualsString => vec![Str, Str],
        EncodeUtf8 => vec![Str],
        IfThenElse => vec![Bool, Any, Any],
        ChooseUnit => vec![Unit, Any],
        Trace => vec![Str, Any],
        FstPair | SndPair => vec![PairAny],
        ChooseList => vec![ListAny, Any, Any],
        MkCons => vec![Any, ListAny],
        HeadList | TailList | NullList => vec![ListAny],
        ChooseData => vec![Data, Any, Any, Any, Any, Any],
        ConstrData => vec![Int, K::ListData],
        F::MapData => vec![ListPairData],
        F::ListData => vec![K::ListData],
        IData => vec![Int],
        BData => vec![Bytes],
        UnConstrData | UnMapData | UnListData | UnIData | UnBData | SerialiseData => vec![Data],
        EqualsData | MkPairData => vec![Data, Data],
        MkNilData | MkNilPairData => vec![Unit],
        Bls12_381_G1_Add | Bls12_381_G1_Equal => vec![G1, G1],
        Bls12_381_G1_Neg | Bls12_381_G1_Compress => vec![G1],
        Bls12_381_G1_ScalarMul => vec![Int, G1],
        Bls12_381_G1_Uncompress | Bls12_381_G2_Uncompress => vec![Bytes],
        Bls12_381_G1_HashToGroup | Bls12_381_G2_HashToGroup => vec![Bytes, Bytes],
        Bls12_381_G2_Add | Bls12_381_G2_Equal => vec![G2, G2],
        Bls12_381_G2_Neg | Bls12_381_G2_Compress => vec![G2],
        Bls12_381_G2_ScalarMul => vec![Int, G2],
        Bls12_381_MillerLoop => vec![G1, G2],
        Bls12_381_MulMlResult | Bls12_381_FinalVerify => vec![Ml, Ml],
        Bls12_381_G1_MultiScalarMul => vec![ListInt, ListG1],
        Bls12_381_G2_MultiScalarMul => vec![ListInt, ListG2],
        IntegerToByteString => vec![Bool, Int, Int],
        ByteStringToInteger => vec![Bool, Bytes],
        AndByteString | OrByteString | XorByteString => vec![Bool, Bytes, Bytes],
        WriteBits => vec![Bytes, ListInt, Bool],
        ReplicateByte => vec![Int, Int],
        ExpModInteger => vec![Int, Int, Int],
        DropList => vec![Int, ListAny],
    }
}

/// Boundary integers relative to a length.
fn boundary_int(src: &mut Src, len: usize) -> BigInt {
    let l = len as i64;
    match src.weighted(&[6, 6, 3, 3, 2]) {
        0 => BigInt::from(*src.pick(&[-1i64, 0, 1, 2, 7, 8, 255, 256, -256])),
        1 => BigInt::from(*src.pick(&[l - 1, l, l + 1, 8 * l - 1, 8 * l, 8 * l + 1, -(8 * l), -(8 * l) - 1, -(8 * l) + 1, -l])),
        2 => BigInt::from(*src.pick(&[8191i64, 8192, 8193, 65535, 65536])),
        3 => {
            let e = *src.pick(&[31u32, 32, 62, 63, 64, 65, 127, 128, 129]);
            let v = consts::pow2(e) + src.range(-1, 1);
            if src.bool() { v } else { -v }
        }
        _ => consts::gen_int(src, true),
    }
}

fn boundary_bytes(src: &mut Src) -> Vec<u8> {
    match src.weighted(&[4, 3, 2, 1]) {
        0 => {
            let n = src.below(5);
            src.bytes(n)
        }
        1 => {
            let n = *src.pick(&[0usize, 1, 2, 8, 28, 31, 32, 33, 48, 63, 64, 65, 96]);
            match src.below(3) {
                0 => vec![0u8; n],
                1 => vec![0xffu8; n],
                _ => src.bytes(n),
            }
        }
        2 => {
            // a single set bit somewhere
            let n = 1 + src.below(6);
            let mut b = vec![0u8; n];
            let i = src.below(n * 8);
            b[n - 1 - i / 8] |= 1 << (i % 8);
            b
        }
        _ => consts::gen_bytes(src, true),
    }
}

#[derive(Clone, Debug)]
pub enum Arg {
    Con(Constant),
    /// a non-constant value (a lambda)
    Lam,
}

fn any_const(src: &mut Src) -> Constant {
    crate::props::c15::gen_any_const(src, 2, false)
}

fn gen_arg(src: &mut Src, k: K, f: F, prev_len: usize) -> Arg {
    use K::*;
    Arg::Con(match k {
        Int => {
            let i = match f {
                F::DivideInteger | F::QuotientInteger | F::RemainderInteger | F::ModInteger | F::ExpModInteger if src.chance(1, 4) => BigInt::from(*src.pick(&[0i64, 1, -1, 2, 4, 6, 7, 12])),
                F::ConsByteString | F::ReplicateByte if src.chance(1, 2) => BigInt::from(*src.pick(&[-1i64, 0, 1, 127, 128, 255, 256, 257, 511, -255, -256])),
                _ => boundary_int(src, prev_len),
            };
            Constant::Integer(i)
        }
        Bytes => Constant::ByteString(boundary_bytes(src)),
        Str => Constant::String(consts::gen_string(src)),
        Bool => Constant::Bool(src.bool()),
        Unit => Constant::Unit,
        Data => {
            let exotic = src.bool();
            Constant::Data(consts::gen_data_with(src, 3, true, exotic))
        }
        ListData => {
            let n = src.below(4);
            Constant::ProtoList(uplc::ast::Type::Data, (0..n).map(|_| Constant::Data(consts::gen_data(src, 2, true))).collect())
        }
        ListPairData => {
            let n = src.below(4);
            let t = uplc::ast::Type::Pair(Rc::new(uplc::ast::Type::Data), Rc::new(uplc::ast::Type::Data));
            Constant::ProtoList(
                t,
                (0..n)
                    .map(|_| Constant::ProtoPair(uplc::ast::Type::Data, uplc::ast::Type::Data, Rc::new(Constant::Data(consts::gen_data(src, 2, true))), Rc::new(Constant::Data(consts::gen_data(src, 2, true)))))
                    .collect(),
            )
        }
        ListInt => {
            let n = src.below(5);
            Constant::ProtoList(uplc::ast::Type::Integer, (0..n).map(|_| Constant::Integer(boundary_int(src, prev_len))).collect())
        }
        ListAny => {
            let first = any_const(src);
            let ty = crate::props::c15::type_of(&first);
            let n = src.below(4);
            let mut items = vec![];
            if n > 0 {
                items.push(first);
            }
            for _ in 1..n {
                items.push(crate::props::c15::gen_const_of(src, &ty, 1));
            }
            Constant::ProtoList(ty, items)
        }
        PairAny => {
            let a = any_const(src);
            let b = any_const(src);
            Constant::ProtoPair(crate::props::c15::type_of(&a), crate::props::c15::type_of(&b), Rc::new(a), Rc::new(b))
        }
        Any => {
            if src.chance(1, 6) {
                return Arg::Lam;
            }
            any_const(src)
        }
        G1 => crate::props::c15::gen_g1(src),
        G2 => crate::props::c15::gen_g2(src),
        ListG1 => {
            let n = src.below(4);
            Constant::ProtoList(uplc::ast::Type::Bls12_381G1Element, (0..n).map(|_| crate::props::c15::gen_g1(src)).collect())
        }
        ListG2 => {
            let n = src.below(4);
            Constant::ProtoList(uplc::ast::Type::Bls12_381G2Element, (0..n).map(|_| crate::props::c15::gen_g2(src)).collect())
        }
        Ml => return Arg::Lam, // built separately
    })
}

fn arg_term(a: &Arg) -> T {
    match a {
        Arg::Con(c) => T::con(c.clone()),
        Arg::Lam => T::Var(1).lam(),
    }
}

fn arg_len(a: &Arg) -> usize {
    match a {
        Arg::Con(Constant::ByteString(b)) => b.len(),
        Arg::Con(Constant::ProtoList(_, xs)) => xs.len(),
        _ => 0,
    }
}

fn show_args(args: &[Arg]) -> Vec<String> {
    args.iter()
        .map(|a| match a {
            Arg::Con(c) => consts::show_const(c).chars().take(400).collect(),
            Arg::Lam => "(lam x x)".to_string(),
        })
        .collect()
}

pub fn apply(f: F, args: &[Arg]) -> T {
    let (forces, _) = mb::signature(f).unwrap_or((0, args.len()));
    let mut t = T::Builtin(f);
    for _ in 0..forces {
        t = t.force();
    }
    for a in args {
        t = t.app(arg_term(a));
    }
    t
}

#[derive(Debug, Clone, PartialEq)]
pub enum Expect {
    Value(MC),
    /// a non-constant result (one of the `Any` arguments, which is a lambda)
    Lambda,
    Fail,
    Either(MC),
    Unknown,
}

pub fn expected(f: F, args: &[Arg], variant: Variant) -> Expect {
    // model constants; BLS constants have no model form
    let mcs: Option<Vec<Option<MC>>> = Some(
        args.iter()
            .map(|a| match a {
                Arg::Con(c) => MC::from_constant(c),
                Arg::Lam => None,
            })
            .collect(),
    );
    let mcs = mcs.unwrap();
    // 1. extension model on all-constant arguments
    if mcs.iter().all(|m| m.is_some()) {
        let flat: Vec<MC> = mcs.iter().map(|m| m.clone().unwrap()).collect();
        match bext::call_ext(f, &flat) {
            Ext::Ok(v) => return Expect::Value(v),
            Ext::Fail(_) => return Expect::Fail,
            Ext::Either(v) => return Expect::Either(v),
            Ext::Unknown => {}
        }
    }
    if !mb::modelled(f) {
        return Expect::Unknown;
    }
    // 2. base model on machine values
    let vs: Vec<V> = args
        .iter()
        .zip(&mcs)
        .map(|(a, m)| match (a, m) {
            (_, Some(m)) => Some(V::Con(Rc::new(m.clone()))),
            (Arg::Lam, _) => Some(V::Lam(Rc::new(T::Var(1)), cek::Env::Nil)),
            _ => None,
        })
        .collect::<Option<Vec<_>>>()
        .unwrap_or_default();
    if vs.len() != args.len() {
        return Expect::Unknown;
    }
    let mut logs = vec![];
    match mb::call(f, &vs, variant, &mut logs) {
        BRes::Ok(V::Con(c)) => Expect::Value((*c).clone()),
        BRes::Ok(_) => Expect::Lambda,
        BRes::Fail(_) => Expect::Fail,
        BRes::Unsupported => Expect::Unknown,
    }
}

fn has_boundary(args: &[Arg]) -> bool {
    args.iter().any(|a| match a {
        Arg::Con(Constant::Integer(i)) => i.is_zero() || i.bits() >= 7,
        Arg::Con(Constant::ByteString(b)) => b.is_empty() || b.len() >= 28,
        Arg::Con(Constant::ProtoList(..) | Constant::ProtoPair(..) | Constant::Data(_)) => true,
        _ => false,
    })
}

pub fn run_term(t: &T, variant: Variant) -> Result<Result<uplc::ast::Term<uplc::ast::NamedDeBruijn>, String>, (String, String)> {
    let (lang, pv) = lang_pv(variant);
    let program = t.program_ndb();
    no_panic(|| program.eval_version_with_protocol(ExBudget::max(), &lang, pv).result().map_err(|e| format!("{e:?}").chars().take(200).collect::<String>()))
}

pub fn judge(f: F, args: &[Arg], variant: Variant, well_typed: bool, st: &mut Stats) -> CheckResult {
    st.eval();
    let t = apply(f, args);
    let input = json!({"builtin": format!("{f:?}"), "args": show_args(args), "variant": format!("{variant:?}")});
    let got = run_term(&t, variant).map_err(|p| panic_failure("eval", p, input.clone()))?;
    // equal arguments, equal answers
    let again = run_term(&t, variant).map_err(|p| panic_failure("eval", p, input.clone()))?;
    let render = |r: &Result<uplc::ast::Term<uplc::ast::NamedDeBruijn>, String>| match r {
        Ok(t) => format!("ok {}", T::from_ndb(t).show()),
        Err(e) => format!("failure ({})", e.chars().take(80).collect::<String>()),
    };
    // budget exhaustion (some builtins are costed by the value of an integer argument) is not
    // the builtin's answer
    if matches!(&got, Err(e) if e.starts_with("OutOfExError")) {
        st.class("inconclusive:budget");
        return Ok(());
    }
    if render(&got) != render(&again) {
        return Err(Failure::new(format!("nondeterministic:{f:?}"), json!({"input": input, "first": render(&got), "second": render(&again)})));
    }
    // an argument of a monomorphic parameter replaced by a value of another type: type failure
    let exp = if well_typed { expected(f, args, variant) } else { Expect::Fail };
    let got_mc = match &got {
        Ok(uplc::ast::Term::Constant(c)) => MC::from_constant(c),
        _ => None,
    };
    let mismatch = |what: &str, want: String| Err(Failure::new(format!("{what}:{f:?}"), json!({"input": input, "expected": want, "actual": render(&got)})));
    match &exp {
        Expect::Value(v) => match (&got, &got_mc) {
            (Ok(_), Some(g)) if g == v => {}
            (Ok(_), _) => return mismatch("wrong-value", consts::show_const(&v.to_constant())),
            (Err(_), _) => return mismatch("fails-where-specified", consts::show_const(&v.to_constant())),
        },
        Expect::Lambda => {
            if !matches!(&got, Ok(t) if !matches!(t, uplc::ast::Term::Constant(_))) {
                return mismatch("wrong-value", "(the lambda argument)".into());
            }
        }
        Expect::Fail => {
            if got.is_ok() {
                return mismatch("succeeds-where-failure-specified", "failure".into());
            }
        }
        Expect::Either(v) => match (&got, &got_mc) {
            (Err(_), _) => st.class("either:failed"),
            (Ok(_), Some(g)) if g == v => st.class("either:formula-value"),
            _ => return mismatch("wrong-value", format!("failure or {}", consts::show_const(&v.to_constant()))),
        },
        Expect::Unknown => {
            st.class("unmodelled(no-panic,deterministic)");
            // signature verification on random garbage must not say True
            if matches!(f, F::VerifyEd25519Signature | F::VerifyEcdsaSecp256k1Signature | F::VerifySchnorrSecp256k1Signature) && matches!(&got_mc, Some(MC::Bool(true))) {
                return mismatch("verifies-garbage", "False or failure".into());
            }
            return Ok(());
        }
    }
    st.class(&format!("{}:{}", if well_typed { "typed" } else { "ill-typed" }, match &exp { Expect::Fail => "failure", Expect::Either(_) => "either", _ => "value" }));
    if well_typed && has_boundary(args) {
        st.nontrivial(&(format!("{f:?}"), variant as u8, show_args(args)));
        st.class(&format!("builtin:{f:?}"));
        st.sample(|| json!({"builtin": format!("{f:?}"), "args": show_args(args), "variant": format!("{variant:?}"), "result": render(&got)}));
    }
    Ok(())
}

pub fn gen_tuple_pub(src: &mut Src, f: F) -> (Vec<Arg>, bool) {
    gen_tuple(src, f)
}

fn gen_tuple(src: &mut Src, f: F) -> (Vec<Arg>, bool) {
    let ks = kinds(f);
    let mut args: Vec<Arg> = vec![];
    let mut prev_len = 0usize;
    // the byte string / list argument often comes last: generate lengths first
    let lens: Vec<usize> = ks.iter().map(|_| 0).collect();
    let _ = lens;
    // two passes so that integer arguments can refer to the length of a later bytes argument
    let mut fixed: Vec<Option<Arg>> = ks.iter().map(|_| None).collect();
    for (i, k) in ks.iter().enumerate() {
        if matches!(k, K::Bytes | K::ListAny | K::ListInt) {
            let a = gen_arg(src, *k, f, 0);
            prev_len = prev_len.max(arg_len(&a));
            fixed[i] = Some(a);
        }
    }
    for (i, k) in ks.iter().enumerate() {
        args.push(match fixed[i].take() {
            Some(a) => a,
            None => gen_arg(src, *k, f, prev_len),
        });
    }
    let mut well_typed = true;
    if src.chance(3, 20) && !args.is_empty() {
        // ill-typed: replace one argument by a constant of another type, a lambda, or a list of
        // the wrong element type
        let i = src.below(args.len());
        let repl = match src.below(3) {
            0 => Arg::Lam,
            1 => Arg::Con(any_const(src)),
            _ => Arg::Con(Constant::ProtoList(uplc::ast::Type::Bool, vec![Constant::Bool(true)])),
        };
        let same_type = match (&args[i], &repl) {
            (Arg::Con(a), Arg::Con(b)) => crate::props::c15::type_of(a) == crate::props::c15::type_of(b),
            _ => false,
        };
        if !same_type && !matches!(ks[i], K::Any | K::ListAny | K::PairAny | K::Ml) {
            args[i] = repl;
            well_typed = false;
        }
    }
    (args, well_typed)
}

// ------------------------------------------------------------------------------------------------
// hashes against Python's hashlib (one batch per worker)

fn keccak_f(st: &mut [u64; 25]) {
    const RC: [u64; 24] = [
        0x0000000000000001, 0x0000000000008082, 0x800000000000808a, 0x8000000080008000, 0x000000000000808b, 0x0000000080000001, 0x8000000080008081, 0x8000000000008009, 0x000000000000008a, 0x0000000000000088, 0x0000000080008009, 0x000000008000000a,
        0x000000008000808b, 0x800000000000008b, 0x8000000000008089, 0x8000000000008003, 0x8000000000008002, 0x8000000000000080, 0x000000000000800a, 0x800000008000000a, 0x8000000080008081, 0x8000000000008080, 0x0000000080000001, 0x8000000080008008,
    ];
    const ROT: [u32; 25] = [0, 1, 62, 28, 27, 36, 44, 6, 55, 20, 3, 10, 43, 25, 39, 41, 45, 15, 21, 8, 18, 2, 61, 56, 14];
    for rc in RC {
        let mut c = [0u64; 5];
        for x in 0..5 {
            c[x] = st[x] ^ st[x + 5] ^ st[x + 10] ^ st[x + 15] ^ st[x + 20];
        }
        for x in 0..5 {
            let d = c[(x + 4) % 5] ^ c[(x + 1) % 5].rotate_left(1);
            for y in 0..5 {
                st[x + 5 * y] ^= d;
            }
        }
        let mut b = [0u64; 25];
        for x in 0..5 {
            for y in 0..5 {
                b[y + 5 * ((2 * x + 3 * y) % 5)] = st[x + 5 * y].rotate_left(ROT[x + 5 * y]);
            }
        }
        for x in 0..5 {
            for y in 0..5 {
                st[x + 5 * y] = b[x + 5 * y] ^ (!b[(x + 1) % 5 + 5 * y] & b[(x + 2) % 5 + 5 * y]);
            }
        }
        st[0] ^= rc;
    }
}

/// Keccak with rate 136 and the given domain-separation byte (0x01 = Keccak-256, 0x06 = SHA3-256).
pub fn keccak256(input: &[u8], pad: u8) -> Vec<u8> {
    let rate = 136;
    let mut st = [0u64; 25];
    let mut msg = input.to_vec();
    msg.push(pad);
    while msg.len() % rate != 0 {
        msg.push(0);
    }
    let n = msg.len();
    msg[n - 1] |= 0x80;
    for block in msg.chunks(rate) {
        for i in 0..rate / 8 {
            st[i] ^= u64::from_le_bytes(block[8 * i..8 * i + 8].try_into().unwrap());
        }
        keccak_f(&mut st);
    }
    st.iter().take(4).flat_map(|w| w.to_le_bytes()).collect()
}

fn python_hashes(inputs: &[(&'static str, Vec<u8>)]) -> Option<Vec<String>> {
    use std::io::Write;
    let script = "import sys,hashlib\nfor line in sys.stdin:\n    a,h=line.split()\n    b=bytes.fromhex(h if h!='-' else '')\n    if a=='sha2_256': d=hashlib.sha256(b).hexdigest()\n    elif a=='sha3_256': d=hashlib.sha3_256(b).hexdigest()\n    elif a=='blake2b_256': d=hashlib.blake2b(b,digest_size=32).hexdigest()\n    elif a=='blake2b_224': d=hashlib.blake2b(b,digest_size=28).hexdigest()\n    elif a=='ripemd160': d=hashlib.new('ripemd160',b).hexdigest()\n    else: d='?'\n    print(d)\n";
    let mut child = std::process::Command::new("python3").arg("-c").arg(script).stdin(std::process::Stdio::piped()).stdout(std::process::Stdio::piped()).stderr(std::process::Stdio::null()).spawn().ok()?;
    {
        let mut stdin = child.stdin.take()?;
        for (a, b) in inputs {
            let _ = writeln!(stdin, "{a} {}", if b.is_empty() { "-".to_string() } else { hex::encode(b) });
        }
    }
    let out = child.wait_with_output().ok()?;
    if !out.status.success() {
        return None;
    }
    Some(String::from_utf8_lossy(&out.stdout).lines().map(|s| s.to_string()).collect())
}

fn hash_checks(cx: &mut Cx) {
    // deterministic inputs derived from the seed through the engine's hash (no RNG of our own)
    let mut inputs: Vec<(&'static str, Vec<u8>)> = vec![];
    let algos: [(&'static str, F); 5] = [("sha2_256", F::Sha2_256), ("sha3_256", F::Sha3_256), ("blake2b_256", F::Blake2b_256), ("blake2b_224", F::Blake2b_224), ("ripemd160", F::Ripemd_160)];
    let lens = [0usize, 1, 3, 31, 32, 55, 56, 63, 64, 65, 111, 112, 119, 120, 127, 128, 129, 135, 136, 137, 200, 255, 256, 1000];
    let mut k = 0u64;
    for (name, _) in algos {
        for len in lens {
            for rep in 0..2u64 {
                k += 1;
                if !cx.mine(k) {
                    continue;
                }
                let bytes: Vec<u8> = (0..len).map(|i| (hash_of(&(cx.seed, name, len, rep, i as u64)) >> 17) as u8).collect();
                inputs.push((name, bytes));
            }
        }
    }
    let Some(digests) = python_hashes(&inputs) else {
        cx.note("python3/hashlib oracle unavailable: hash builtins judged on determinism only");
        return;
    };
    for ((name, bytes), want) in inputs.iter().zip(digests) {
        let f = algos.iter().find(|a| a.0 == *name).unwrap().1;
        let input = json!({"builtin": format!("{f:?}"), "input": hex::encode(bytes)});
        cx.direct("hash-vs-hashlib", &input, |st| {
            st.eval();
            if want == "?" || want.is_empty() {
                st.class("hash:oracle-lacks-algorithm");
                return Ok(());
            }
            for v in [Variant::B, Variant::E] {
                let t = apply(f, &[Arg::Con(Constant::ByteString(bytes.clone()))]);
                let got = run_term(&t, v).map_err(|p| panic_failure("eval", p, input.clone()))?;
                let got_hex = match &got {
                    Ok(uplc::ast::Term::Constant(c)) => match &**c {
                        Constant::ByteString(b) => hex::encode(b),
                        _ => "non-bytes".into(),
                    },
                    _ => "failure".into(),
                };
                if got_hex != want {
                    return Err(Failure::new(format!("wrong-hash:{f:?}"), json!({"input": input, "expected": want, "actual": got_hex})));
                }
            }
            st.class(&format!("builtin:{f:?}"));
            st.nontrivial(&(name, bytes));
            Ok(())
        });
    }
    // Keccak-256 and SHA3-256 against the harness' own sponge (cross-checked: the SHA3 instance
    // of the same code agrees with hashlib above)
    for len in lens {
        let bytes: Vec<u8> = (0..len).map(|i| (hash_of(&(cx.seed, "keccak", len, i as u64)) >> 9) as u8).collect();
        let input = json!({"builtin": "Keccak_256", "input": hex::encode(&bytes)});
        cx.direct("keccak-vs-own-sponge", &input, |st| {
            st.eval();
            for (f, pad) in [(F::Keccak_256, 0x01u8), (F::Sha3_256, 0x06)] {
                let want = hex::encode(keccak256(&bytes, pad));
                let t = apply(f, &[Arg::Con(Constant::ByteString(bytes.clone()))]);
                let got = run_term(&t, Variant::E).map_err(|p| panic_failure("eval", p, input.clone()))?;
                let got_hex = match &got {
                    Ok(uplc::ast::Term::Constant(c)) => match &**c {
                        Constant::ByteString(b) => hex::encode(b),
                        _ => "non-bytes".into(),
                    },
                    _ => "failure".into(),
                };
                if got_hex != want {
                    return Err(Failure::new(format!("wrong-hash:{f:?}"), json!({"input": input, "expected": want, "actual": got_hex})));
                }
            }
            st.class("builtin:Keccak_256");
            st.nontrivial(&("keccak", &bytes));
            Ok(())
        });
    }
}

// ------------------------------------------------------------------------------------------------
// BLS: algebraic laws

fn bls_laws(src: &mut Src, st: &mut Stats) -> CheckResult {
    st.eval();
    let v = *src.pick(&[Variant::C, Variant::E]);
    let g2 = src.bool();
    let pt = |src: &mut Src| if g2 { crate::props::c15::gen_g2(src) } else { crate::props::c15::gen_g1(src) };
    let (add, neg, mul, eq, comp, uncomp) = if g2 {
        (F::Bls12_381_G2_Add, F::Bls12_381_G2_Neg, F::Bls12_381_G2_ScalarMul, F::Bls12_381_G2_Equal, F::Bls12_381_G2_Compress, F::Bls12_381_G2_Uncompress)
    } else {
        (F::Bls12_381_G1_Add, F::Bls12_381_G1_Neg, F::Bls12_381_G1_ScalarMul, F::Bls12_381_G1_Equal, F::Bls12_381_G1_Compress, F::Bls12_381_G1_Uncompress)
    };
    let p = T::con(pt(src));
    let q = T::con(pt(src));
    let r = T::con(pt(src));
    let a = consts::gen_int(src, true);
    let b = consts::gen_int(src, true);
    let app = |f: F, xs: Vec<T>| xs.into_iter().fold(T::Builtin(f), |t, x| t.app(x));
    let int = |i: &BigInt| T::con(Constant::Integer(i.clone()));
    let laws: Vec<(&str, T)> = vec![
        ("add-commutative", app(eq, vec![app(add, vec![p.clone(), q.clone()]), app(add, vec![q.clone(), p.clone()])])),
        ("add-associative", app(eq, vec![app(add, vec![app(add, vec![p.clone(), q.clone()]), r.clone()]), app(add, vec![p.clone(), app(add, vec![q.clone(), r.clone()])])])),
        ("neg-involutive", app(eq, vec![app(neg, vec![app(neg, vec![p.clone()])]), p.clone()])),
        ("scalar-distributes", app(eq, vec![app(mul, vec![int(&(&a + &b)), p.clone()]), app(add, vec![app(mul, vec![int(&a), p.clone()]), app(mul, vec![int(&b), p.clone()])])])),
        ("scalar-composes", app(eq, vec![app(mul, vec![int(&(&a * &b)), p.clone()]), app(mul, vec![int(&a), app(mul, vec![int(&b), p.clone()])])])),
        ("compress-uncompress", app(eq, vec![app(uncomp, vec![app(comp, vec![p.clone()])]), p.clone()])),
        ("p-plus-neg-p-is-zero-multiple", app(eq, vec![app(add, vec![p.clone(), app(neg, vec![p.clone()])]), app(mul, vec![int(&BigInt::zero()), q.clone()])])),
        // multiScalarMul is the fold of scalarMul / add over the zipped lists (shorter list wins)
        ("msm-is-fold", {
            let msm = if g2 { F::Bls12_381_G2_MultiScalarMul } else { F::Bls12_381_G1_MultiScalarMul };
            let small = |i: &BigInt| i % (BigInt::from(1) << 200u32);
            let (a, b) = (small(&a), small(&b));
            let pty = if g2 { uplc::ast::Type::Bls12_381G2Element } else { uplc::ast::Type::Bls12_381G1Element };
            let as_const = |t: &T| match t {
                T::Con(c) => (**c).clone(),
                _ => unreachable!(),
            };
            let scalars = T::con(Constant::ProtoList(uplc::ast::Type::Integer, vec![Constant::Integer(a.clone()), Constant::Integer(b.clone()), Constant::Integer(BigInt::from(7))]));
            let points = T::con(Constant::ProtoList(pty, vec![as_const(&p), as_const(&q)]));
            app(eq, vec![app(msm, vec![scalars, points]), app(add, vec![app(mul, vec![int(&a), p.clone()]), app(mul, vec![int(&b), q.clone()])])])
        }),
        ("msm-empty-is-zero", {
            let msm = if g2 { F::Bls12_381_G2_MultiScalarMul } else { F::Bls12_381_G1_MultiScalarMul };
            let pty = if g2 { uplc::ast::Type::Bls12_381G2Element } else { uplc::ast::Type::Bls12_381G1Element };
            let scalars = T::con(Constant::ProtoList(uplc::ast::Type::Integer, vec![]));
            let points = T::con(Constant::ProtoList(pty, vec![]));
            app(eq, vec![app(msm, vec![scalars, points]), app(mul, vec![int(&BigInt::zero()), p.clone()])])
        }),
    ];
    for (name, t) in laws {
        let input = json!({"law": name, "group": if g2 { "G2" } else { "G1" }, "term": t.show().chars().take(600).collect::<String>(), "variant": format!("{v:?}")});
        let got = run_term(&t, v).map_err(|p| panic_failure("eval", p, input.clone()))?;
        match &got {
            Ok(uplc::ast::Term::Constant(c)) if matches!(&**c, Constant::Bool(true)) => {}
            other => return Err(Failure::new(format!("bls-law-fails:{name}"), json!({"input": input, "actual": format!("{other:?}").chars().take(300).collect::<String>()}))),
        }
        st.class(&format!("bls-law:{name}"));
    }
    // uncompress rejects byte strings of the wrong length
    let n = *src.pick(&[0usize, 1, 47, 49, 95, 97, 48, 96]);
    let wrong = if g2 { n != 96 } else { n != 48 };
    if wrong {
        let t = app(uncomp, vec![T::con(Constant::ByteString(src.bytes(n)))]);
        let input = json!({"law": "uncompress-length", "len": n});
        let got = run_term(&t, v).map_err(|p| panic_failure("eval", p, input.clone()))?;
        if got.is_ok() {
            return Err(Failure::new("bls-uncompress-accepts-wrong-length", json!({"input": input})));
        }
    }
    st.nontrivial(&(p.show(), q.show(), a.to_string()));
    st.sample(|| json!({"group": if g2 { "G2" } else { "G1" }, "scalars": [a.to_string(), b.to_string()], "laws": 7}));
    Ok(())
}

pub fn run(cx: &mut Cx) -> String {
    let tier = cx.tier;
    let all: Vec<F> = crate::gen_::uplc::all_builtins();
    if !cx.is_replay() {
        hash_checks(cx);
    }
    // every builtin gets the same share: the builtin is chosen by the case index, not at random
    let per_builtin = tier.of(4_000u64, 120_000);
    let total = per_builtin * all.len() as u64;
    cx.prop("saturated-application", total, 120, |src, st| {
        let f = all[src.below(all.len())];
        let variant = *src.pick(&[Variant::E, Variant::E, Variant::D, Variant::C, Variant::B, Variant::A]);
        let (args, well_typed) = gen_tuple(src, f);
        judge(f, &args, variant, well_typed, st)
    });
    // exhaustive small grid for the index/size/shift parameters
    if !cx.is_replay() {
        let mut k = 0u64;
        let byte_strings: Vec<Vec<u8>> = vec![vec![], vec![0x80], vec![0x01], vec![0xf0, 0x0f], vec![1, 2, 3], vec![0xff; 4]];
        let ints: Vec<i64> = vec![-33, -32, -31, -25, -24, -17, -16, -9, -8, -7, -1, 0, 1, 2, 7, 8, 9, 15, 16, 17, 23, 24, 25, 31, 32, 33];
        for bs in &byte_strings {
            for i in &ints {
                for f in [F::ShiftByteString, F::RotateByteString, F::ReadBit, F::IndexByteString] {
                    k += 1;
                    if !cx.mine(k) {
                        continue;
                    }
                    let args = vec![Arg::Con(Constant::ByteString(bs.clone())), Arg::Con(Constant::Integer(BigInt::from(*i)))];
                    let input = json!({"builtin": format!("{f:?}"), "args": show_args(&args)});
                    cx.direct("grid", &input, |st| judge(f, &args, Variant::E, true, st));
                }
                for j in &[-1i64, 0, 1, 2, 3, 5] {
                    k += 1;
                    if !cx.mine(k) {
                        continue;
                    }
                    let args = vec![Arg::Con(Constant::Integer(BigInt::from(*i))), Arg::Con(Constant::Integer(BigInt::from(*j))), Arg::Con(Constant::ByteString(bs.clone()))];
                    let input = json!({"builtin": "SliceByteString", "args": show_args(&args)});
                    cx.direct("grid", &input, |st| judge(F::SliceByteString, &args, Variant::E, true, st));
                }
            }
        }
    }
    cx.prop("bls-laws", tier.of(300, 6_000), 60, bls_laws);
    RULE.to_string()
}

#[allow(dead_code)]
fn _unused(_: D, _: CTy, _: J) {}

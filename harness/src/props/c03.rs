//! C03 — the evaluator implements UPLC's operational semantics.
//! Oracle: R-CEK (model::cek) vs `Program::eval_version_with_protocol(..).result()`; results are
//! compared as fully discharged closed terms; logs are compared too.
use crate::engine::*;
use crate::gen_::uplc::{self as gu, GenCfg, T, Ty};
use crate::model::cek::{self, Stop, Variant};
use pallas_primitives::conway::Language;
use serde_json::json;
use std::rc::Rc;
use uplc::{ast::Constant, builtins::DefaultFunction as F, machine::cost_model::ExBudget};

pub const ASSUMPTIONS: &[&str] = &[
    "the reference evaluator (harness/src/model/cek.rs, model/builtins.rs) transcribes the Plutus Core specification correctly",
    "error kinds are not compared: the specification has a single failure",
    "case-on-constant is only expected to succeed under variant E (PlutusV3, protocol >= 11)",
    "terms using builtins outside the reference table (hashing, signatures, BLS, bitwise) or exceeding the reference's fuel are skipped and counted",
];

pub const RULE: &str = "closed UPLC terms: (a) all closed terms up to N nodes over a reduced alphabet, enumerated exhaustively; (b) type-directed random terms over all ten term constructors and the ~48 modelled builtins; (c) chaotic closed terms. Each is evaluated by the reference evaluator and by the crate under semantics variants A-E. Non-trivial = the reference takes >= 6 machine steps, the result is a value, and the run exercises at least two of {variable lookup at distance >= 2, partially applied builtin value, forced builtin, constr+case, case on constant}; distinct by the term text + variant.";

pub fn lang_pv(v: Variant) -> (Language, u16) {
    match v {
        Variant::A => (Language::PlutusV2, 8),
        Variant::B => (Language::PlutusV2, 10),
        Variant::C => (Language::PlutusV3, 10),
        Variant::D => (Language::PlutusV1, 11),
        Variant::E => (Language::PlutusV3, 11),
    }
}

pub const VARIANTS: [Variant; 5] = [Variant::A, Variant::B, Variant::C, Variant::D, Variant::E];

fn err_kind(e: &uplc::machine::Error) -> String {
    let s = format!("{e:?}");
    s.split(['(', ' ', '{']).next().unwrap_or("").to_string()
}

/// Judge one closed term under one variant.
pub fn judge(t: &T, variant: Variant, stats: &mut Stats) -> CheckResult {
    stats.eval();
    let mut m = cek::Machine::new(variant);
    let expected = m.run(t);
    match &expected {
        Err(Stop::Fuel) => {
            stats.class("skipped:reference-fuel");
            return Ok(());
        }
        Err(Stop::Unsupported) => {
            stats.class("skipped:unmodelled-builtin");
            return Ok(());
        }
        _ => {}
    }
    let (lang, pv) = lang_pv(variant);
    let program = t.program_ndb();
    let input = json!({"term": t.show(), "variant": format!("{variant:?}")});
    let res = no_panic(|| {
        let r = program.eval_version_with_protocol(ExBudget::max(), &lang, pv);
        // traces whose text starts with NUL are reported by the crate as "labels" (an Aiken
        // convention used by property tests); they are still traces, in order.
        let traces: Vec<String> = r
            .traces()
            .into_iter()
            .map(|t| match t {
                uplc::machine::Trace::Log(s) => s,
                uplc::machine::Trace::Label(s) => format!("\0{s}"),
            })
            .collect();
        (r.result(), traces)
    })
    .map_err(|p| panic_failure("eval", p, input.clone()))?;
    let (actual, logs) = res;

    match (&expected, &actual) {
        (Ok(v), Ok(term)) => {
            let want = cek::discharge(v);
            let got = T::from_ndb(term);
            if !cek::term_eq(&want, &got) {
                let sig = if want.is_closed() && !got.is_closed() {
                    "result-not-closed".to_string()
                } else {
                    "result-differs".to_string()
                };
                return Err(Failure::new(
                    sig,
                    json!({"input": input, "expected": want.show(), "actual": got.show()}),
                ));
            }
            if logs != m.counters.logs {
                return Err(Failure::new(
                    "logs-differ",
                    json!({"input": input, "expected": m.counters.logs, "actual": logs}),
                ));
            }
            stats.class("agree:value");
            let c = &m.counters;
            let features = [
                c.max_env_distance >= 2,
                c.partial_builtin_values > 0,
                c.forced_builtin > 0,
                c.constr_case > 0,
                c.case_on_const > 0,
            ];
            for (name, on) in ["var-distance>=2", "partial-builtin", "forced-builtin", "constr-case", "case-on-const"]
                .iter()
                .zip(features)
            {
                if on {
                    stats.class(&format!("feature:{name}"));
                }
            }
            if c.total_steps() >= 6 && features.iter().filter(|b| **b).count() >= 2 {
                stats.nontrivial(&(t.show(), variant as u8));
                stats.sample(|| json!({"term": t.show(), "variant": format!("{variant:?}"), "result": want.show(), "steps": c.total_steps()}));
            }
            Ok(())
        }
        (Err(Stop::Fail(_)), Err(e)) => {
            if matches!(e, uplc::machine::Error::OutOfExError(_)) {
                stats.class("skipped:impl-out-of-budget");
            } else {
                stats.class("agree:failure");
            }
            Ok(())
        }
        (Ok(v), Err(e)) => {
            if matches!(e, uplc::machine::Error::OutOfExError(_)) {
                stats.class("skipped:impl-out-of-budget");
                return Ok(());
            }
            Err(Failure::new(
                format!("impl-fails:{}", err_kind(e)),
                json!({"input": input, "expected": cek::discharge(v).show(), "actual_error": format!("{e:?}").chars().take(300).collect::<String>()}),
            ))
        }
        (Err(Stop::Fail(why)), Ok(term)) => Err(Failure::new(
            "impl-succeeds-where-spec-fails",
            json!({"input": input, "expected_failure": why, "actual": T::from_ndb(term).show()}),
        )),
        _ => unreachable!(),
    }
}

// ------------------------------------------------------------------------------------------------
// exhaustive enumeration of small closed terms over a reduced alphabet

fn leaves(binders: usize) -> Vec<T> {
    let mut v: Vec<T> = (1..=binders).map(T::Var).collect();
    v.push(T::int(1));
    v.push(T::con(Constant::Bool(true)));
    v.push(T::con(Constant::ProtoList(uplc::ast::Type::Integer, vec![Constant::Integer(7.into())])));
    v.push(T::Builtin(F::AddInteger));
    v.push(T::Builtin(F::IfThenElse));
    v.push(T::Builtin(F::HeadList));
    v.push(T::Error);
    v.push(T::Constr(0, vec![]));
    v.push(T::Constr(1, vec![]));
    v
}

/// All terms with exactly `size` nodes under `binders` binders (memoised per (size, binders)).
fn terms(size: usize, binders: usize, memo: &mut std::collections::HashMap<(usize, usize), Rc<Vec<T>>>) -> Rc<Vec<T>> {
    if let Some(v) = memo.get(&(size, binders)) {
        return v.clone();
    }
    let mut out = vec![];
    if size == 1 {
        out = leaves(binders);
    } else if size >= 2 {
        for b in terms(size - 1, binders + 1, memo).iter() {
            out.push(b.clone().lam());
        }
        for b in terms(size - 1, binders, memo).iter() {
            out.push(b.clone().delay());
            out.push(b.clone().force());
            // constr with one field, case with no branches
            out.push(T::Constr(0, vec![b.clone()]));
            out.push(T::Case(Rc::new(b.clone()), vec![]));
        }
        // binary: apply, constr with two fields, case with one branch
        for l in 1..size - 1 {
            let r = size - 1 - l;
            let ls = terms(l, binders, memo);
            let rs = terms(r, binders, memo);
            for a in ls.iter() {
                for b in rs.iter() {
                    out.push(a.clone().app(b.clone()));
                    out.push(T::Constr(1, vec![a.clone(), b.clone()]));
                    out.push(T::Case(Rc::new(a.clone()), vec![b.clone()]));
                }
            }
        }
        // case with two branches
        if size >= 4 {
            for l in 1..size - 2 {
                for mid in 1..size - 1 - l {
                    let r = size - 1 - l - mid;
                    if r == 0 {
                        continue;
                    }
                    let ss = terms(l, binders, memo);
                    let b1 = terms(mid, binders, memo);
                    let b2 = terms(r, binders, memo);
                    for s in ss.iter() {
                        for x in b1.iter() {
                            for y in b2.iter() {
                                out.push(T::Case(Rc::new(s.clone()), vec![x.clone(), y.clone()]));
                            }
                        }
                    }
                }
            }
        }
    }
    let rc = Rc::new(out);
    memo.insert((size, binders), rc.clone());
    rc
}

pub fn run(cx: &mut Cx) -> String {
    let tier = cx.tier;

    // (a) exhaustive
    if !cx.is_replay() {
        let max_size = tier.of(5, 6);
        let mut memo = std::collections::HashMap::new();
        let mut idx = 0u64;
        let mut complete = true;
        for size in 1..=max_size {
            let ts = terms(size, 0, &mut memo);
            for t in ts.iter() {
                idx += 1;
                if !cx.mine(idx) {
                    continue;
                }
                // small terms: variants C and E differ from each other only by case-on-constant,
                // A/B/D only by consByteString (not in this alphabet): run E and one of the others.
                for v in [Variant::E, VARIANTS[(idx % 4) as usize]] {
                    let input = json!({"term": t.show(), "variant": format!("{v:?}")});
                    let before = cx.violations.len();
                    cx.direct("exhaustive-small", &input, |st| judge(t, v, st));
                    if cx.violations.len() > before + 20 {
                        complete = false;
                    }
                }
            }
        }
        cx.stats.exhaustive = Some(complete);
        cx.stats.class_n("exhaustive:max-nodes", 0);
        cx.note(format!("exhaustive family: all closed terms up to {max_size} nodes over the reduced alphabet ({idx} terms, shared between workers)"));
    } else if let Some(input) = cx.replay_input("exhaustive-small") {
        // replay of an enumerated case: re-parse our own rendering is not available, so the
        // enumeration is re-walked until the rendering matches.
        let want = input["term"].as_str().unwrap_or("").to_string();
        let vname = input["variant"].as_str().unwrap_or("E").to_string();
        let v = VARIANTS.iter().copied().find(|v| format!("{v:?}") == vname).unwrap_or(Variant::E);
        let mut memo = std::collections::HashMap::new();
        'outer: for size in 1..=6 {
            for t in terms(size, 0, &mut memo).iter() {
                if t.show() == want {
                    let t = t.clone();
                    cx.direct("exhaustive-small", &input, |st| judge(&t, v, st));
                    break 'outer;
                }
            }
        }
    }

    // (b) typed random terms
    let cfg = GenCfg::default();
    cx.prop("typed-random", tier.of(4_000_000, 60_000_000), 400, |src, st| {
        let variant = *src.pick(&[Variant::E, Variant::E, Variant::C, Variant::D, Variant::B, Variant::A]);
        let ty = gu::gen_ty(src, 2);
        let depth = 2 + src.below(cfg.max_depth - 1);
        let t = gu::gen_term(src, &cfg, &ty, &mut vec![], depth);
        judge(&t, variant, st)
    });

    // (c) typed program applied to arguments: (\x y -> body) a b, exercising closures over >= 2 binders
    cx.prop("typed-applied", tier.of(3_000_000, 40_000_000), 400, |src, st| {
        let variant = *src.pick(&[Variant::E, Variant::C, Variant::D]);
        let n = 1 + src.below(3);
        let arg_tys: Vec<Ty> = (0..n).map(|_| gu::gen_ty(src, 2)).collect();
        let res_ty = gu::gen_ty(src, 2);
        let mut env = arg_tys.clone();
        let depth = 2 + src.below(5);
        let mut body = gu::gen_term(src, &cfg, &res_ty, &mut env, depth);
        for _ in 0..n {
            body = body.lam();
        }
        let mut t = body;
        for ty in &arg_tys {
            let a = gu::gen_term(src, &cfg, ty, &mut vec![], 2);
            t = t.app(a);
        }
        judge(&t, variant, st)
    });

    // (d) chaotic closed terms
    cx.prop("chaotic-closed", tier.of(2_000_000, 30_000_000), 300, |src, st| {
        let variant = *src.pick(&VARIANTS);
        let mut fuel = 2 + src.below(40);
        let t = gu::gen_chaotic(src, 0, &mut fuel, false);
        judge(&t, variant, st)
    });

    RULE.to_string()
}

//! C12 — blueprint schemas describe exactly what validators accept.
//! Three-way agreement on every Data value d for a redeemer type T:
//!   A = `Parameter::validate` against the schema the blueprint publishes for T,
//!   B = the compiled `expect x: T = d` succeeds,
//!   C = M-SHAPE: d has the shape the documented Data encoding of T prescribes.
use crate::aik::{self, Outcome, Proj};
use crate::engine::*;
use crate::gen_::aiken_ast::*;
use crate::gen_::aiken_gen::{AikCfg, Gen};
use crate::gen_::consts;
use crate::model::interp::{D, Interp};
use aiken_lang::ast::{ModuleKind, TraceLevel, Tracing};
use aiken_lang::plutus_version::PlutusVersion;
use aiken_project::blueprint::validator::Validator;
use aiken_project::module::CheckedModules;
use num_bigint::BigInt;
use serde_json::json;
use uplc::ast::Constant;

pub const ASSUMPTIONS: &[&str] = &[
    "M-SHAPE is the reference interpreter's `from_data` (the Data encoding table of the language reference): constructors by declaration index with exactly their fields, Bool as Constr 0/1 [], Void as Constr 0 [], tuples as lists of exact length, List<Pair<k, v>> as a map, Option as Constr 0 [x] / Constr 1 [], Data as anything",
    "types for which blueprint generation reports an error (e.g. not representable in a validator interface) are skipped and counted",
    "standalone Pair types are not generated: the blueprint only knows pairs as map entries",
];

pub const RULE: &str = "redeemer types from the typed generator's serialisable fragment (user data types with several constructors and fields incl. records, generic instantiations and recursive ones, Option, lists, tuples, lists of pairs, Bool, Int, ByteArray, Void, Data, nested to depth 3); for each type 40 Data values: encodings of generated values of the type, the same values with constructor indices spelt in the general CBOR form (tag 102), near misses obtained by one mutation (constructor tag changed incl. into another CBOR tag range, a field dropped / added / swapped, a leaf kind changed, list <-> map, constructor <-> list, one more or fewer tuple element) and arbitrary Data. Non-trivial = the type has at least two constructors or a nested container and the value is a near miss below the root, or a conforming value with at least 3 nodes; distinct by (type declarations, value).";

pub fn no_standalone_pair(t: &Ty, inside_list: bool) -> bool {
    match t {
        Ty::Pair(a, b) => inside_list && no_standalone_pair(a, false) && no_standalone_pair(b, false),
        Ty::List(e) => no_standalone_pair(e, true),
        Ty::Opt(e) => no_standalone_pair(e, false),
        Ty::Tuple(ts) | Ty::Adt(_, ts) => ts.iter().all(|t| no_standalone_pair(t, false)),
        Ty::Fn(..) | Ty::Var(_) => false,
        _ => true,
    }
}

/// Is parameter `k` of the data type only ever used as the element type of a list? Then
/// instantiating it with a Pair yields `List<Pair<..>>` fields, which the blueprint knows (as maps).
fn param_only_under_list(adt: &AdtDecl, k: usize) -> bool {
    fn ok(t: &Ty, k: usize, under_list: bool) -> bool {
        match t {
            Ty::Var(j) => *j != k || under_list,
            Ty::List(e) => ok(e, k, true),
            Ty::Opt(e) => ok(e, k, false),
            Ty::Pair(a, b) => ok(a, k, false) && ok(b, k, false),
            Ty::Tuple(ts) => ts.iter().all(|t| ok(t, k, false)),
            // nested instantiations: only when the parameter does not occur in them at all
            Ty::Adt(_, ts) => ts.iter().all(|t| !mentions(t, k)),
            Ty::Fn(a, r) => a.iter().all(|t| !mentions(t, k)) && !mentions(r, k),
            _ => true,
        }
    }
    fn mentions(t: &Ty, k: usize) -> bool {
        match t {
            Ty::Var(j) => *j == k,
            Ty::List(e) | Ty::Opt(e) => mentions(e, k),
            Ty::Pair(a, b) => mentions(a, k) || mentions(b, k),
            Ty::Tuple(ts) | Ty::Adt(_, ts) => ts.iter().any(|t| mentions(t, k)),
            Ty::Fn(a, r) => a.iter().any(|t| mentions(t, k)) || mentions(r, k),
            _ => false,
        }
    }
    adt.ctors.iter().all(|c| c.fields.iter().all(|(_, t)| ok(t, k, false)))
}

/// Like `no_standalone_pair`, but a Pair may also instantiate a type parameter that the data
/// type only uses as a list element (`type Bag<a> { items: List<a> }` at `Bag<Pair<Int, Int>>`).
pub fn interface_type_ok(m: &Module, t: &Ty, inside_list: bool) -> bool {
    match t {
        Ty::Pair(a, b) => inside_list && interface_type_ok(m, a, false) && interface_type_ok(m, b, false),
        Ty::List(e) => interface_type_ok(m, e, true),
        Ty::Opt(e) => interface_type_ok(m, e, false),
        Ty::Tuple(ts) => ts.iter().all(|t| interface_type_ok(m, t, false)),
        Ty::Adt(i, ts) => ts.iter().enumerate().all(|(k, t)| match t {
            Ty::Pair(a, b) => m.adts.get(*i).map(|adt| param_only_under_list(adt, k)).unwrap_or(false) && interface_type_ok(m, a, false) && interface_type_ok(m, b, false),
            t => interface_type_ok(m, t, false),
        }),
        Ty::Fn(..) | Ty::Var(_) => false,
        _ => true,
    }
}

pub fn adt_fields_ok(m: &Module) -> bool {
    // type parameters may occur anywhere in a field; what they are instantiated with is judged
    // where the instantiation happens
    fn field_ok(t: &Ty, inside_list: bool) -> bool {
        match t {
            Ty::Var(_) => true,
            Ty::Pair(a, b) => inside_list && field_ok(a, false) && field_ok(b, false),
            Ty::List(e) => field_ok(e, true),
            Ty::Opt(e) => field_ok(e, false),
            Ty::Tuple(ts) | Ty::Adt(_, ts) => ts.iter().all(|t| field_ok(t, false)),
            Ty::Fn(..) => false,
            _ => true,
        }
    }
    m.adts.iter().all(|a| a.ctors.iter().all(|c| c.fields.iter().all(|(_, t)| field_ok(t, false))))
}

/// One mutation somewhere in the tree.
pub fn mutate_data(src: &mut Src, d: &D, depth: usize) -> D {
    let descend = depth < 4 && src.chance(3, 5);
    match d {
        D::C(tag, fs) => {
            if descend && !fs.is_empty() {
                let k = src.below(fs.len());
                let mut fs2 = fs.clone();
                fs2[k] = mutate_data(src, &fs[k], depth + 1);
                return D::C(*tag, fs2);
            }
            match src.below(7) {
                0 => D::C(tag.wrapping_add(1), fs.clone()),
                1 => D::C(*src.pick(&[0u64, 1, 6, 7, 127, 128, 1000]), fs.clone()),
                2 if !fs.is_empty() => {
                    let mut f = fs.clone();
                    f.remove(src.below(fs.len()));
                    D::C(*tag, f)
                }
                3 => {
                    let mut f = fs.clone();
                    f.insert(src.below(fs.len() + 1), D::I(BigInt::from(7)));
                    D::C(*tag, f)
                }
                4 if fs.len() >= 2 => {
                    let mut f = fs.clone();
                    f.swap(0, fs.len() - 1);
                    D::C(*tag, f)
                }
                5 => D::L(fs.clone()),
                _ => D::C(tag.saturating_sub(1), fs.clone()),
            }
        }
        D::L(xs) => {
            if descend && !xs.is_empty() {
                let k = src.below(xs.len());
                let mut x2 = xs.clone();
                x2[k] = mutate_data(src, &xs[k], depth + 1);
                return D::L(x2);
            }
            match src.below(5) {
                0 if !xs.is_empty() => {
                    let mut x = xs.clone();
                    x.remove(src.below(xs.len()));
                    D::L(x)
                }
                1 => {
                    let mut x = xs.clone();
                    x.push(xs.first().cloned().unwrap_or(D::I(BigInt::from(0))));
                    D::L(x)
                }
                2 => D::C(0, xs.clone()),
                3 => D::M(xs.iter().map(|x| (x.clone(), x.clone())).collect()),
                _ => {
                    let mut x = xs.clone();
                    x.push(D::B(vec![1, 2]));
                    D::L(x)
                }
            }
        }
        D::M(kvs) => {
            if descend && !kvs.is_empty() {
                let k = src.below(kvs.len());
                let mut k2 = kvs.clone();
                if src.bool() {
                    k2[k].0 = mutate_data(src, &kvs[k].0, depth + 1);
                } else {
                    k2[k].1 = mutate_data(src, &kvs[k].1, depth + 1);
                }
                return D::M(k2);
            }
            match src.below(3) {
                0 => D::L(kvs.iter().map(|(k, v)| D::L(vec![k.clone(), v.clone()])).collect()),
                1 => D::L(vec![]),
                _ => D::C(0, vec![]),
            }
        }
        D::I(i) => match src.below(3) {
            0 => D::B(vec![]),
            1 => D::C(0, vec![]),
            _ => D::L(vec![D::I(i.clone())]),
        },
        D::B(b) => match src.below(3) {
            0 => D::I(BigInt::from(b.len())),
            1 => D::L(vec![]),
            _ => D::C(1, vec![]),
        },
    }
}

/// Re-spell some constructors with the general form `102 [index, fields]`: the same Data value.
fn general_form(src: &mut Src, d: &uplc::PlutusData) -> uplc::PlutusData {
    use pallas_primitives::alonzo::Constr;
    use uplc::PlutusData as P;
    match d {
        P::Constr(c) => {
            let fields: Vec<P> = c.fields.iter().map(|f| general_form(src, f)).collect();
            let index = uplc::machine::runtime::convert_tag_to_constr(c.tag).or(c.any_constructor);
            match index {
                Some(i) if src.chance(2, 3) => P::Constr(Constr { tag: 102, any_constructor: Some(i), fields: pallas_codec::utils::MaybeIndefArray::Indef(fields) }),
                _ => P::Constr(Constr { tag: c.tag, any_constructor: c.any_constructor, fields: pallas_codec::utils::MaybeIndefArray::Indef(fields) }),
            }
        }
        P::Array(xs) => P::Array(pallas_codec::utils::MaybeIndefArray::Indef(xs.iter().map(|x| general_form(src, x)).collect())),
        P::Map(kvs) => P::Map(pallas_codec::utils::KeyValuePairs::from(kvs.iter().map(|(k, v)| (general_form(src, k), general_form(src, v))).collect::<Vec<_>>())),
        other => other.clone(),
    }
}

struct Built {
    program: uplc::ast::Program<uplc::ast::NamedDeBruijn>,
    validator: Validator<uplc::ast::SerializableProgram>,
}

fn build(source: &str, tracing: Tracing) -> Result<Built, String> {
    let mut proj = Proj::new();
    proj.add_module("m", ModuleKind::Validator, source, tracing).map_err(|e| format!("rejected: {e:?}"))?;
    let checked = proj.checked_module(0);
    let modules = CheckedModules::singleton(checked.clone());
    let def = proj.validators(0).first().cloned().cloned().ok_or("no validator")?;
    let mut generator = proj.generator(PlutusVersion::V3, tracing);
    let validators = Validator::from_checked_module(&modules, &mut generator, &checked, &def, &PlutusVersion::V3).map_err(|e| format!("blueprint: {e:?}").chars().take(300).collect::<String>())?;
    let validator = validators.into_iter().find(|v| v.redeemer.is_some() && v.title.ends_with("spend")).ok_or("no spend handler in blueprint")?;
    let mut generator = proj.generator(PlutusVersion::V3, tracing);
    let program = aik::compile_fn(&proj, &mut generator, 0, "entry").ok_or("no entry")?;
    let program = aik::to_ndb(&program)?;
    Ok(Built { program, validator })
}

fn judge(src: &mut Src, st: &mut Stats) -> CheckResult {
    st.eval();
    let cfg = AikCfg { max_adts: 3, explicit_tags: true, ..AikCfg::default() };
    let mut g = Gen::new(src, cfg);
    g.gen_adts_pub();
    let mut t = g.ty(3);
    for _ in 0..4 {
        if interface_type_ok(&g.m, &t, false) {
            break;
        }
        t = g.ty(2);
    }
    // tuples whose elements are all Data: nothing but the arity is left to check
    if g.src.chance(1, 10) {
        let n = 2 + g.src.below(2);
        let tup = Ty::Tuple(vec![Ty::Data; n]);
        t = match g.src.below(3) {
            0 => tup,
            1 => Ty::list(tup),
            _ => Ty::opt(tup),
        };
    }
    // a generic data type whose parameter is only a list element, instantiated with a Pair
    if g.src.chance(1, 5) {
        let idx = g.m.adts.len();
        let name = format!("G{idx}");
        let elem = if g.src.chance(1, 4) { Ty::list(Ty::list(Ty::Var(0))) } else { Ty::list(Ty::Var(0)) };
        let ctors = match g.src.below(3) {
            0 => vec![Ctor { name: format!("{name}A"), fields: vec![(Some("items".to_string()), elem), (Some("n".to_string()), Ty::Int)] }],
            1 => vec![Ctor { name: format!("{name}A"), fields: vec![] }, Ctor { name: format!("{name}B"), fields: vec![(None, Ty::Int), (None, elem)] }],
            _ => vec![Ctor { name: format!("{name}A"), fields: vec![(None, elem.clone())] }, Ctor { name: format!("{name}B"), fields: vec![(None, Ty::opt(Ty::Int)), (None, elem)] }],
        };
        g.m.adts.push(AdtDecl { name, params: 1, ctors, opaque: false, public: true, tags: vec![] });
        let (a, b) = (g.ty(1), g.ty(1));
        let cand = Ty::Adt(idx, vec![Ty::pair(a, b)]);
        if interface_type_ok(&g.m, &cand, false) {
            t = cand;
        }
    }
    if !interface_type_ok(&g.m, &t, false) || !adt_fields_ok(&g.m) {
        st.class("skipped:standalone-pair");
        return Ok(());
    }
    if matches!(&t, Ty::Adt(_, ts) if ts.iter().any(|t| matches!(t, Ty::Pair(..)))) {
        st.class("type:generic-instantiated-with-a-pair");
    }
    // values of the type, before the module is taken out of the generator
    let nvals = 10;
    let values: Vec<crate::model::interp::V> = (0..nvals).map(|k| g.value(&t, if k == 0 { 1 } else { 3 })).collect();
    let module = std::mem::take(&mut g.m);
    let src: &mut Src = g.src;
    let ts = show_ty(&module, &t);
    let mut source = print_module(&module);
    source.push_str(&format!("validator v {{\n  spend(_d: Option<Data>, r: {ts}, _o: Data, _tx: Data) {{\n    expect _: {ts} = r\n    True\n  }}\n\n  else(_) {{\n    fail\n  }}\n}}\n\npub fn entry(d: Data) -> Bool {{\n  expect x: {ts} = d\n  True\n}}\n"));
    let tracing = if src.bool() { Tracing::All(TraceLevel::Silent) } else { Tracing::All(TraceLevel::Verbose) };
    let input0 = json!({"source": source, "type": ts});
    let built = match no_panic(|| build(&source, tracing)).map_err(|p| panic_failure("blueprint-generation", p, input0.clone()))? {
        Ok(b) => b,
        Err(e) => {
            st.class(&format!("skipped:{}", e.chars().take(40).collect::<String>()));
            if std::env::var("VERIF_SHOW_REJECTS").is_ok() {
                eprintln!("---- {e}\n{source}");
            }
            return Ok(());
        }
    };
    let param = built.validator.redeemer.clone().unwrap();
    let defs = built.validator.definitions.clone();
    let it = Interp::new(&module, 0);
    // the data values
    let mut cases: Vec<(D, &'static str)> = vec![];
    for v in &values {
        if let Ok(d) = it.to_data(v, &t) {
            cases.push((d.clone(), "conforming"));
            for _ in 0..2 {
                cases.push((mutate_data(src, &d, 0), "near-miss"));
            }
        }
    }
    for _ in 0..10 {
        cases.push((D::from_plutus(&consts::gen_data(src, 3, false)), "arbitrary"));
    }
    let complex_type = matches!(&t, Ty::Adt(i, _) if module.adts[*i].ctors.len() >= 2) || t.depth() >= 2;
    for (d, origin) in cases {
        let input = json!({"source": source, "type": ts, "data": d.show(), "origin": origin, "tracing": format!("{tracing:?}")});
        let c = it.from_data(&d, &t).is_some();
        // the same value may spell constructor indices in the general CBOR form (tag 102)
        let pd = if src.chance(1, 6) { general_form(src, &d.to_plutus()) } else { d.to_plutus() };
        let a = no_panic(|| param.validate(&defs, &Constant::Data(pd.clone())).is_ok()).map_err(|p| panic_failure("Parameter::validate", p, input.clone()))?;
        let (out, _, _) = no_panic(|| aik::eval_with_args(&built.program, &[pd.clone()])).map_err(|p| panic_failure("eval(expect)", p, input.clone()))?;
        let b = matches!(out, Outcome::Value(_));
        st.evals(1);
        if origin == "conforming" && !(a && b && c) {
            return Err(Failure::new(format!("conforming-value-rejected:schema={a}:expect={b}:model={c}"), json!({"input": input})));
        }
        if a != b || b != c {
            let alone = if a == b { "model-stands-alone" } else if a == c { "expect-stands-alone" } else { "schema-stands-alone" };
            return Err(Failure::new(format!("schema-expect-disagree:{alone}"), json!({"input": input, "schema_accepts": a, "compiled_expect_accepts": b, "shape_model_accepts": c})));
        }
        st.class(&format!("{origin}:{}", if a { "accepted" } else { "rejected" }));
        if complex_type && (origin == "near-miss" || (origin == "conforming" && d.nodes() >= 3)) {
            st.nontrivial(&(source.as_str(), d.show()));
            st.sample(|| json!({"type": ts, "data": d.show(), "origin": origin, "all_three": if a { "accept" } else { "reject" }}));
        }
    }
    Ok(())
}

pub fn run(cx: &mut Cx) -> String {
    let tier = cx.tier;
    cx.shrink_iters = 400;
    cx.prop("three-way-agreement", tier.of(6_000, 150_000), 600, judge);
    RULE.to_string()
}

//! C14 — trace settings never change what a program decides.
//! Metamorphic: the same module built under the 3 levels x 3 scopes must, on every input, agree
//! on success/failure and on the returned value.
use crate::aik::{self, Outcome};
use crate::engine::*;
use crate::gen_::aiken_gen::AikCfg;
use crate::props::c01::{self, Case, CompileOutcome, Expected, norm_result};
use aiken_lang::ast::{TraceLevel, Tracing};
use serde_json::json;

pub const ASSUMPTIONS: &[&str] = &[
    "the module is re-inferred for every setting, because the type checker takes the tracing setting too (it rewrites `?` and expect messages)",
    "only the decision (success / failure) and the returned value are compared; logs, cost and size may differ",
    "an evaluation that exhausts the (maximal) budget under some setting makes the case inconclusive, not a violation",
];

pub const RULE: &str = "generated modules as in C01 enriched with trace, `?`, expect (with and without messages through Data casts), fail/todo with messages; each compiled under Tracing::{All,UserDefined,CompilerGenerated} x {Silent,Compact,Verbose} and run on 6 argument tuples; all nine outcomes must agree (and, where the reference interpreter judges the run, agree with it). Non-trivial = the nine programs are not all identical and the reference run reaches a traced construct or a Data cast; distinct by (source, arguments).";

pub fn settings() -> Vec<Tracing> {
    let mut v = vec![];
    for lvl in [TraceLevel::Silent, TraceLevel::Compact, TraceLevel::Verbose] {
        v.push(Tracing::All(lvl));
        v.push(Tracing::UserDefined(lvl));
        v.push(Tracing::CompilerGenerated(lvl));
    }
    v
}

fn summary(o: &Outcome) -> String {
    match o {
        Outcome::Value(t) => match norm_result(t) {
            c01::Norm::Data(d) => format!("value {}", d.show()),
            c01::Norm::Other(s) => format!("value {s}"),
        },
        Outcome::Error(k, _) => format!("error {k}"),
    }
}

pub fn judge_case(case: &Case, st: &mut Stats) -> CheckResult {
    st.eval();
    let mut builds = vec![];
    for t in settings() {
        match c01::compile_entry(&case.source, t) {
            CompileOutcome::Ok(c) => builds.push((t, c)),
            CompileOutcome::Rejected(_) => {
                st.class("generator:rejected-by-checker");
                return Ok(());
            }
            CompileOutcome::Panic(_) => {
                st.class("skipped:compiler-panic(judged-by-C10)");
                return Ok(());
            }
            CompileOutcome::FreeUnique(_) => {
                st.class("skipped:free-unique(judged-by-C06)");
                return Ok(());
            }
        }
    }
    let texts: std::collections::HashSet<String> = builds.iter().map(|(_, c)| c.post_named.to_pretty()).collect();
    st.class(&format!("distinct-programs:{}", texts.len()));
    for (arg_index, args) in case.args.iter().enumerate() {
        let Some(data) = c01::args_to_data(&case.module, &case.entry, args) else { continue };
        let pd: Vec<uplc::PlutusData> = data.iter().map(|d| d.to_plutus()).collect();
        let input = json!({"source": case.source, "args": data.iter().map(|d| d.show()).collect::<Vec<_>>()});
        let mut outs = vec![];
        let mut inconclusive = false;
        for (t, c) in &builds {
            let (o, _, _) = no_panic(|| aik::eval_with_args(&c.program, &pd)).map_err(|p| panic_failure("eval", p, input.clone()))?;
            if matches!(&o, Outcome::Error(k, _) if k == "OutOfExError") {
                inconclusive = true;
            }
            outs.push((*t, o));
        }
        st.evals(9);
        if inconclusive {
            st.class("inconclusive:budget");
            continue;
        }
        let key = |o: &Outcome| match o {
            Outcome::Value(t) => format!("V:{:?}", norm_result(t)),
            Outcome::Error(..) => "E".to_string(),
        };
        let first = key(&outs[0].1);
        let (exp, feat) = c01::model_run(&case.module, &case.entry, args, c01::FUEL);
        if let Some((t, o)) = outs.iter().find(|(_, o)| key(o) != first) {
            // which settings succeed, which fail
            let table: Vec<String> = outs.iter().map(|(t, o)| format!("{t:?}: {}", summary(o))).collect();
            let mut sig = "decision-depends-on-trace-setting".to_string();
            // recorded known finding: builds whose compiler-generated traces are silent skip a
            // primitive-kind Data cast check that the optimiser cancels
            let quiet = |t: &Tracing| !matches!(t.trace_level(true), TraceLevel::Verbose);
            let silent_succeed_others_fail = outs.iter().all(|(t, o)| if quiet(t) { true } else { matches!(o, Outcome::Error(..)) }) && outs.iter().any(|(t, o)| quiet(t) && matches!(o, Outcome::Value(_)));
            if silent_succeed_others_fail && matches!(&exp, Expected::Abort(r) if *r == crate::model::interp::CAST_PRIM_KIND) {
                let all_pre_abort = builds.iter().zip(&outs).filter(|(_, (_, o))| matches!(o, Outcome::Value(_))).all(|((_, c), _)| c.pre.as_ref().is_some_and(|p| matches!(aik::eval_with_args(p, &pd).0, Outcome::Error(..))));
                if all_pre_abort {
                    sig = c01::KNOWN_CAST_ELISION.to_string();
                }
            }
            let _ = (t, o);
            return Err(Failure::new(sig, json!({"input": input, "arg_index": arg_index, "outcomes": table, "reference": format!("{exp:?}")})));
        }
        // free agreement check with the reference interpreter
        if let Err((sig, mut detail)) = c01::compare(&exp, &outs[0].1) {
            detail["input"] = input;
            detail["arg_index"] = json!(arg_index);
            return Err(Failure::new(format!("all-settings-agree-but-differ-from-reference:{sig}"), detail));
        }
        if texts.len() > 1 && (feat.traced > 0 || feat.data_cast > 0) && !matches!(exp, Expected::Skip(_)) {
            st.nontrivial(&(case.source.as_str(), format!("{data:?}")));
            st.class(if first == "E" { "agree:failure" } else { "agree:value" });
            st.sample(|| json!({"source": case.source, "args": data.iter().map(|d| d.show()).collect::<Vec<_>>(), "all_nine": summary(&outs[0].1), "distinct_programs": texts.len()}));
        } else {
            st.class("agree:trivial");
        }
    }
    Ok(())
}

pub fn run(cx: &mut Cx) -> String {
    let tier = cx.tier;
    cx.shrink_iters = 0;
    let cfg = AikCfg { trace_weight: 10, abort_weight: 5, cast_weight: 10, ..AikCfg::default() };
    cx.prop("nine-builds", tier.of(2_500, 60_000), 3000, |src, st| {
        let case = c01::gen_case(src, &cfg, 6);
        c01::judge_and_shrink(case, st, &|c, st| judge_case(c, st))
    });
    RULE.to_string()
}

//! C13 — the formatter preserves programs.
//! Oracle: parse(src) = (m, extra); out = pretty(m, extra, src); then (1) out parses,
//! (2) the syntax trees are equal after erasing positions and layout flags (imports compared as
//! sets), (3) comments / doc comments / module comments are kept in order, (4) formatting out
//! again changes nothing.
use crate::engine::*;
use crate::gen_::aiken_gen::AikCfg;
use crate::props::c01;
use aiken_lang::ast::{Definition, ModuleKind, UntypedModule};
use aiken_lang::parser::extra::ModuleExtra;
use serde_json::json;
use std::path::{Path, PathBuf};

pub const ASSUMPTIONS: &[&str] = &[
    "positions (`start..end` spans, `end_position`) and the pure layout flag `one_liner` are erased before comparing the `{:#?}` renderings of the definitions; `use` definitions are compared as a sorted set with sorted unqualified imports, because the formatter is documented to sort and merge imports",
    "comment equality is on the trimmed text of each comment, per category, in order",
    "a generated text the parser rejects is a generator defect: counted, never a violation",
];

pub const RULE: &str = "(a) the .ak files shipped under examples/ and benchmarks/; (b) modules printed from the typed generator (see C01: when/if/expect/records/pipes/captures/lambdas, literals in hex / underscore / byte-array notations); (c) an untyped expression grammar over all binary operators with parentheses placed at random (every precedence / associativity pairing with and without parentheses), unary operators, pipes, captures incl. record constructors with labelled holes, record construction / update / punning, field access / tuple index / call on parenthesised compound receivers, backpassing, integer literals in every `_` grouping the lexer accepts, leading zeros included, with signs (also in patterns; compared by the number denoted), tuples, lists with spread, if / when / and / or blocks, trace / todo / fail, strings with escapes; line, doc and module comments inserted at random line boundaries of (b) and (c). Non-trivial = the module contains a nested binary expression of depth >= 3 with mixed operators, or a comment, or a capture; distinct by source text.";

pub const KNOWN_TRAILING: &str = "formatter:trailing-comment-not-idempotent";

fn parse(src: &str) -> Option<(UntypedModule, ModuleExtra)> {
    aiken_lang::parser::module(src, ModuleKind::Lib).ok()
}

/// `{:#?}` with positions and layout flags removed.
fn erase(s: &str) -> String {
    let mut out = String::with_capacity(s.len());
    for line in s.lines() {
        let t = line.trim_start();
        if t.starts_with("end_position:") || t.starts_with("one_liner:") || t.starts_with("numeric_underscore:") {
            continue;
        }
        // an integer literal is compared by the number it denotes: `0_1` and `1` are the same tree
        if let Some(lit) = t.strip_prefix("value: \"").and_then(|r| r.strip_suffix("\",")) {
            // (a negative literal pattern keeps its sign inside `value`)
            let (sign, digits) = match lit.strip_prefix('-') {
                Some(d) => ("-", d),
                None => ("", lit),
            };
            if digits.len() > 1 && digits.bytes().all(|c| c.is_ascii_digit()) {
                let z = digits.trim_start_matches('0');
                out.push_str(&format!("value: \"{sign}{}\",\n", if z.is_empty() { "0" } else { z }));
                continue;
            }
        }
        // spans print as `start..end`
        let mut cleaned = String::with_capacity(line.len());
        let b = line.as_bytes();
        let mut i = 0;
        while i < b.len() {
            if b[i].is_ascii_digit() {
                let st = i;
                while i < b.len() && b[i].is_ascii_digit() {
                    i += 1;
                }
                if i + 1 < b.len() && b[i] == b'.' && b[i + 1] == b'.' && i + 2 < b.len() && b[i + 2].is_ascii_digit() {
                    i += 2;
                    while i < b.len() && b[i].is_ascii_digit() {
                        i += 1;
                    }
                    cleaned.push('_');
                } else {
                    cleaned.push_str(&line[st..i]);
                }
            } else {
                // copy one (possibly multi-byte) char
                let ch_len = line[i..].chars().next().map(|c| c.len_utf8()).unwrap_or(1);
                cleaned.push_str(&line[i..i + ch_len]);
                i += ch_len;
            }
        }
        out.push_str(cleaned.trim_start());
        out.push('\n');
    }
    out
}

fn tree_fingerprint(m: &UntypedModule) -> (Vec<String>, Vec<String>) {
    let mut defs = vec![];
    let mut imports = vec![];
    for d in m.definitions() {
        match d {
            Definition::Use(u) => {
                let mut names: Vec<String> = u.unqualified.1.iter().map(|x| format!("{}:{:?}", x.name, x.as_name)).collect();
                names.sort();
                imports.push(format!("{:?} as {:?} {{{}}}", u.module, u.as_name, names.join(",")));
            }
            other => defs.push(erase(&format!("{other:#?}"))),
        }
    }
    // the formatter merges imports of the same module: compare the union per (module, alias)
    let mut merged: std::collections::BTreeMap<String, std::collections::BTreeSet<String>> = Default::default();
    for i in imports {
        let (head, rest) = i.split_once('{').unwrap_or((&i, ""));
        let e = merged.entry(head.to_string()).or_default();
        for n in rest.trim_end_matches('}').split(',').filter(|x| !x.is_empty()) {
            e.insert(n.to_string());
        }
    }
    let imports = merged.into_iter().map(|(k, v)| format!("{k}{v:?}")).collect();
    (defs, imports)
}

fn comments(extra: &ModuleExtra, src: &str) -> [Vec<String>; 3] {
    let get = |spans: &Vec<aiken_lang::ast::Span>| spans.iter().map(|s| src.get(s.start..s.end).unwrap_or("").trim().to_string()).collect::<Vec<_>>();
    [get(&extra.comments), get(&extra.doc_comments), get(&extra.module_comments)]
}

pub fn roundtrip(src: &str, st: &mut Stats, origin: &str) -> CheckResult {
    st.eval();
    let input = json!({"source": src, "origin": origin});
    let Some((m, extra)) = no_panic(|| parse(src)).map_err(|p| panic_failure("parser::module", p, input.clone()))? else {
        st.class(&format!("{origin}:unparseable"));
        if std::env::var("VERIF_SHOW_REJECTS").is_ok() {
            eprintln!("---- unparseable ({origin}) ----\n{src}\n{:?}", aiken_lang::parser::module(src, ModuleKind::Lib).err().map(|e| format!("{e:?}").chars().take(300).collect::<String>()));
        }
        return Ok(());
    };
    let before = tree_fingerprint(&m);
    let before_comments = comments(&extra, src);
    let mut out = String::new();
    no_panic(|| aiken_lang::format::pretty(&mut out, m, extra, src)).map_err(|p| panic_failure("format::pretty", p, input.clone()))?;
    let Some((m2, extra2)) = no_panic(|| parse(&out)).map_err(|p| panic_failure("parser::module(formatted)", p, input.clone()))? else {
        let err = aiken_lang::parser::module(&out, ModuleKind::Lib).err().map(|e| format!("{e:?}").chars().take(400).collect::<String>());
        return Err(Failure::new("formatted-source-does-not-parse", json!({"input": input, "formatted": out, "error": err})));
    };
    let after = tree_fingerprint(&m2);
    if before.0.len() != after.0.len() {
        return Err(Failure::new("formatting-changes-the-number-of-definitions", json!({"input": input, "formatted": out})));
    }
    for (k, (a, b)) in before.0.iter().zip(&after.0).enumerate() {
        if a != b {
            let (la, lb): (Vec<&str>, Vec<&str>) = (a.lines().collect(), b.lines().collect());
            let first = la.iter().zip(&lb).position(|(x, y)| x != y).unwrap_or(la.len().min(lb.len()));
            let ctx = |l: &Vec<&str>| l[first.saturating_sub(4)..(first + 6).min(l.len())].join(" | ");
            return Err(Failure::new("formatting-changes-the-syntax-tree", json!({"input": input, "formatted": out, "definition": k, "tree_before": ctx(&la), "tree_after": ctx(&lb)})));
        }
    }
    if before.1 != after.1 {
        return Err(Failure::new("formatting-changes-imports", json!({"input": input, "formatted": out, "before": before.1, "after": after.1})));
    }
    let after_comments = comments(&extra2, &out);
    if before_comments != after_comments {
        return Err(Failure::new("formatting-loses-or-reorders-comments", json!({"input": input, "formatted": out, "before": before_comments, "after": after_comments})));
    }
    let mut out2 = String::new();
    no_panic(|| aiken_lang::format::pretty(&mut out2, m2, extra2, &out)).map_err(|p| panic_failure("format::pretty(second pass)", p, input.clone()))?;
    if out2 != out {
        let first = out.lines().zip(out2.lines()).position(|(a, b)| a != b).unwrap_or(0);
        return Err(Failure::new("formatting-not-idempotent", json!({"input": input, "first_pass_line": out.lines().nth(first), "second_pass_line": out2.lines().nth(first), "formatted": out})));
    }
    st.class(&format!("{origin}:ok"));
    let has_comment = before_comments.iter().any(|c| !c.is_empty());
    let deep = src.matches(['+', '*', '-', '/', '%', '<', '>', '&', '|']).count() >= 3;
    if has_comment || deep || src.contains("(_") || src.contains(", _") || src.contains(": _") {
        st.nontrivial(src);
        st.sample(|| json!({"origin": origin, "source": src.chars().take(400).collect::<String>(), "formatted": out.chars().take(400).collect::<String>()}));
    }
    Ok(())
}

// ------------------------------------------------------------------------------------------------
// untyped surface grammar

struct G<'s, 'd> {
    src: &'s mut Src<'d>,
    fresh: usize,
}

const BINOPS: &[&str] = &["+", "-", "*", "/", "%", "==", "!=", "<", "<=", ">", ">=", "&&", "||", "|>"];

impl G<'_, '_> {
    fn ident(&mut self) -> String {
        self.src.pick(&["a", "b", "c", "d", "xs", "foo", "bar_baz", "x1"]).to_string()
    }

    /// a decimal literal: mostly 1-9 digits with `_` at the thousands positions and no leading
    /// zero; one time in four any grouping the lexer accepts (groups of 1-3 digits, at least two
    /// groups, leading zeros allowed: `0_1`, `1_00`, `00_0`) - the formatter regroups those, and
    /// the oracle compares the integer denoted (see `erase`)
    fn grouped_int(&mut self) -> String {
        if self.src.chance(1, 4) {
            let groups = 2 + self.src.below(3);
            let mut out = String::new();
            for g in 0..groups {
                if g > 0 {
                    out.push('_');
                }
                for _ in 0..1 + self.src.below(3) {
                    out.push(char::from(b'0' + if self.src.chance(1, 3) { 0 } else { self.src.below(10) as u8 }));
                }
            }
            return out;
        }
        let n = 1 + self.src.below(9);
        let digits: String = (0..n).map(|i| if i == 0 { char::from(b'1' + self.src.below(9) as u8) } else { char::from(b'0' + self.src.below(10) as u8) }).collect();
        if n > 3 && self.src.chance(2, 3) {
            let mut out = String::new();
            for (i, c) in digits.chars().enumerate() {
                if i > 0 && (n - i) % 3 == 0 {
                    out.push('_');
                }
                out.push(c);
            }
            out
        } else {
            digits
        }
    }

    fn literal(&mut self) -> String {
        match self.src.below(14) {
            12 => self.grouped_int(),
            13 => format!("-{}", self.grouped_int()),
            0 => "0".into(),
            1 => format!("{}", self.src.below(1000)),
            2 => format!("0x{:x}", self.src.below(70000)),
            3 => "1_000_000".into(),
            4 => "True".into(),
            5 => "False".into(),
            6 => format!("#\"{}\"", hex::encode(self.src.bytes(2))),
            7 => "\"utf8 bytes\"".into(),
            8 => "#[1, 2, 255]".into(),
            9 => "@\"a \\\"quoted\\\" string\\n\"".into(),
            10 => "Void".into(),
            _ => "-5".into(),
        }
    }

    fn maybe_paren(&mut self, s: String) -> String {
        if self.src.chance(1, 2) { format!("({s})") } else { s }
    }

    fn expr(&mut self, depth: usize) -> String {
        if depth == 0 {
            return if self.src.bool() { self.ident() } else { self.literal() };
        }
        let d = depth - 1;
        match self.src.weighted(&[10, 2, 3, 2, 2, 2, 2, 2, 2, 2, 1, 2, 1, 1, 2]) {
            0 => {
                let op = *self.src.pick(BINOPS);
                let l = self.expr(d);
                let l = self.maybe_paren(l);
                let r = if op == "|>" { format!("{}({})", self.ident(), self.expr(d.min(1))) } else { self.expr(d) };
                let r = if op == "|>" { r } else { self.maybe_paren(r) };
                format!("{l} {op} {r}")
            }
            1 if self.src.chance(1, 3) => {
                // an access or a call applied to a parenthesised compound receiver
                let recv = match self.src.below(4) {
                    0 => format!("{} |> {}()", self.ident(), self.ident()),
                    1 => format!("{} + {}", self.ident(), self.literal()),
                    2 => format!("-{}", self.ident()),
                    _ => format!("{}?", self.ident()),
                };
                match self.src.below(3) {
                    0 => format!("({recv}).{}", self.src.pick(&["field", "i", "b"])),
                    1 => format!("({recv}).{}", self.src.pick(&["1st", "2nd", "3rd"])),
                    _ => format!("({recv})({})", self.expr(d.min(1))),
                }
            }
            1 => {
                let e = self.expr(d);
                let e = self.maybe_paren(e);
                if self.src.bool() { format!("!{e}") } else { format!("-{e}") }
            }
            2 => {
                let n = self.src.below(4);
                let args: Vec<String> = (0..n).map(|_| self.expr(d)).collect();
                format!("{}({})", self.ident(), args.join(", "))
            }
            3 => {
                // capture: one hole among the arguments, also in record constructors
                let n = 1 + self.src.below(3);
                let hole = self.src.below(n);
                match self.src.below(3) {
                    0 => {
                        let args: Vec<String> = (0..n).map(|i| if i == hole { "_".to_string() } else { self.expr(d.min(1)) }).collect();
                        format!("{}({})", self.ident(), args.join(", "))
                    }
                    1 => {
                        let args: Vec<String> = (0..n).map(|i| if i == hole { "_".to_string() } else { self.expr(d.min(1)) }).collect();
                        format!("Foo({})", args.join(", "))
                    }
                    _ => {
                        let labels = ["i", "b", "c"];
                        let args: Vec<String> = (0..n).map(|i| format!("{}: {}", labels[i], if i == hole { "_".to_string() } else { self.expr(d.min(1)) })).collect();
                        format!("Foo {{ {} }}", args.join(", "))
                    }
                }
            }
            4 => format!("if {} {{\n{}\n}} else {{\n{}\n}}", self.cond(d), self.expr(d), self.expr(d)),
            5 => {
                let n = 1 + self.src.below(3);
                let mut s = format!("when {} is {{\n", self.cond(d));
                for _ in 0..n {
                    s.push_str(&format!("{} -> {}\n", self.pattern(2), self.expr(d)));
                }
                s.push_str(&format!("_ -> {}\n}}", self.expr(d)));
                s
            }
            6 => {
                let n = 1 + self.src.below(3);
                let items: Vec<String> = (0..n).map(|_| self.expr(d)).collect();
                format!("{} {{\n{},\n}}", if self.src.bool() { "and" } else { "or" }, items.join(",\n"))
            }
            7 => {
                let n = self.src.below(4);
                let items: Vec<String> = (0..n).map(|_| self.expr(d)).collect();
                if n > 0 && self.src.chance(1, 3) { format!("[{}, ..{}]", items.join(", "), self.ident()) } else { format!("[{}]", items.join(", ")) }
            }
            8 => {
                let n = 2 + self.src.below(2);
                let items: Vec<String> = (0..n).map(|_| self.expr(d)).collect();
                format!("({})", items.join(", "))
            }
            9 => match self.src.below(4) {
                0 => format!("Foo {{ i: {}, b: {} }}", self.expr(d), self.expr(d)),
                1 => format!("Foo {{ ..{}, i: {} }}", self.ident(), self.expr(d)),
                2 => "Foo { i, b }".to_string(),
                _ => format!("Pair({}, {})", self.expr(d), self.expr(d)),
            },
            10 => match self.src.below(3) {
                0 => "todo @\"later\"".to_string(),
                1 => "fail @\"boom\"".to_string(),
                _ => format!("{}?", self.ident()),
            },
            11 => {
                let e = self.ident();
                match self.src.below(3) {
                    0 => format!("{e}.1st"),
                    1 => format!("{e}.field"),
                    _ => format!("{e}.2nd.inner"),
                }
            }
            12 => format!("fn({}: Int) {{\n{}\n}}", self.ident(), self.body(d)),
            13 => format!("{{\n{}\n}}", self.body(d)),
            _ => self.literal(),
        }
    }

    /// conditions / subjects: the parser stops at `{`, so keep them brace-free
    fn cond(&mut self, d: usize) -> String {
        let a = self.ident();
        match self.src.below(3) {
            0 => a,
            1 => format!("{a} {} {}", self.src.pick(&["==", "<", ">=", "&&", "||"]), self.ident()),
            _ => format!("({})", self.simple(d.min(2))),
        }
    }

    fn simple(&mut self, depth: usize) -> String {
        if depth == 0 {
            return self.ident();
        }
        let op = *self.src.pick(&["+", "-", "*", "==", "<", "&&", "||"]);
        let l = self.simple(depth - 1);
        let r = self.simple(depth - 1);
        format!("{} {op} {}", self.maybe_paren(l), self.maybe_paren(r))
    }

    /// the elements of a constructor / tuple / list pattern: on one line, or one per line with
    /// comments in front of some of them (which forces the broken layout), possibly with long
    /// names (which forces it through the line width)
    fn pattern_items(&mut self, depth: usize, n: usize, spread: Option<&str>) -> String {
        let long = self.src.chance(1, 4);
        let mut items: Vec<String> = (0..n)
            .map(|i| {
                if long && self.src.chance(2, 3) {
                    format!("a_rather_long_name_for_a_pattern_variable_{i}")
                } else {
                    self.pattern(depth.saturating_sub(1))
                }
            })
            .collect();
        if let Some(s) = spread {
            items.push(s.to_string());
        }
        if self.src.chance(1, 4) {
            let mut out = String::from("\n");
            for it in &items {
                if self.src.chance(1, 2) {
                    out.push_str("// about the next one\n");
                }
                out.push_str(it);
                out.push_str(",\n");
            }
            // the parser accepts a trailing comma everywhere but after a spread, where the
            // formatter itself emits one: keep what was written parseable either way
            if spread.is_some() && self.src.bool() {
                out.truncate(out.len() - 2);
                out.push('\n');
            }
            out
        } else {
            items.join(", ")
        }
    }

    fn pattern(&mut self, depth: usize) -> String {
        if depth == 0 {
            if self.src.chance(1, 6) {
                let lit = self.grouped_int();
                return if self.src.bool() { format!("-{lit}") } else { lit };
            }
            return self.src.pick(&["x", "_", "_ignored", "0", "True", "None"]).to_string();
        }
        match self.src.below(12) {
            8 => {
                let n = 1 + self.src.below(4);
                let spread = if self.src.chance(2, 3) { Some("..") } else { None };
                format!("Foo({})", self.pattern_items(depth, n, spread))
            }
            9 => {
                let n = 2 + self.src.below(3);
                format!("({})", self.pattern_items(depth, n, None))
            }
            10 => {
                let n = 1 + self.src.below(3);
                let spread = match self.src.below(3) {
                    0 => None,
                    1 => Some(".."),
                    _ => Some("..rest"),
                };
                format!("[{}]", self.pattern_items(depth, n, spread))
            }
            11 => {
                let labels = ["i", "b", "c"];
                let n = 1 + self.src.below(3);
                let mut fields: Vec<String> = (0..n).map(|i| if self.src.bool() { labels[i].to_string() } else { format!("{}: {}", labels[i], self.pattern(depth - 1)) }).collect();
                if self.src.chance(2, 3) {
                    fields.push("..".to_string());
                }
                format!("Foo {{ {} }}", fields.join(", "))
            }
            0 => format!("Some({})", self.pattern(depth - 1)),
            1 => format!("({}, {})", self.pattern(depth - 1), self.pattern(depth - 1)),
            2 => format!("[{}, ..rest]", self.pattern(depth - 1)),
            3 => "[]".to_string(),
            4 => format!("Foo {{ i: {}, .. }}", self.pattern(depth - 1)),
            5 => format!("Foo({}, ..)", self.pattern(depth - 1)),
            6 => format!("{} as whole", self.pattern(depth - 1)),
            _ => self.pattern(0),
        }
    }

    fn body(&mut self, depth: usize) -> String {
        let mut s = String::new();
        let n = self.src.below(3);
        for _ in 0..n {
            self.fresh += 1;
            let k = self.fresh;
            match self.src.below(4) {
                0 => {
                    let mut e = self.expr(depth);
                    // `let v = todo @"m" |> f()` parses as a pipeline whose head is the
                    // assignment; keep that parser quirk out by bracing a leading todo / fail
                    if e.starts_with("todo") || e.starts_with("fail") {
                        e = format!("{{\n{e}\n}}");
                    }
                    s.push_str(&format!("let v{k} = {e}\n"));
                }
                1 => {
                    let e = self.expr(depth.min(1));
                    s.push_str(&format!("expect Some(v{k}) = {e}\n"));
                }
                2 if self.src.chance(1, 3) => {
                    let call = format!("{}({})", self.ident(), self.ident());
                    match self.src.below(3) {
                        0 => s.push_str(&format!("let v{k} <- {call}\n")),
                        1 => s.push_str(&format!("expect True <- {call}\n")),
                        _ => s.push_str(&format!("expect Some(v{k}) <- {call}\n")),
                    }
                }
                2 => {
                    let e = self.ident();
                    s.push_str(&format!("trace @\"t\": {e}\n"));
                }
                _ => {
                    let e = self.expr(depth.min(1));
                    s.push_str(&format!("let (p{k}, _) = {e}\n"));
                }
            }
        }
        s.push_str(&self.expr(depth));
        s
    }

    fn module(&mut self) -> String {
        let mut s = String::new();
        if self.src.chance(1, 3) {
            s.push_str("use aiken/builtin\nuse foo/bar.{Baz, qux}\n\n");
        }
        if self.src.chance(1, 3) {
            s.push_str("pub type Foo {\n  Foo { i: Int, b: Bool, c: ByteArray }\n}\n\n");
        }
        if self.src.chance(1, 4) {
            s.push_str(&format!("const k = {}\n\n", self.literal()));
        }
        let n = 1 + self.src.below(2);
        for k in 0..n {
            let depth = 1 + self.src.below(4);
            let kind = self.src.below(6);
            match kind {
                0 => s.push_str(&format!("test t{k}() {{\n{}\n}}\n\n", self.body(depth))),
                1 => s.push_str(&format!("validator v{k} {{\n  spend(d: Option<Data>, r: Data, o: Data, tx: Data) {{\n{}\n  }}\n\n  else(_) {{\n    fail\n  }}\n}}\n\n", self.body(depth))),
                _ => s.push_str(&format!("pub fn f{k}(a: Int, b: Int, c: Bool, d: Bool, xs: List<Int>) {{\n{}\n}}\n\n", self.body(depth))),
            }
        }
        s
    }
}

/// Insert comments at line boundaries.
fn add_comments(src: &mut Src, text: &str) -> String {
    let lines: Vec<&str> = text.lines().collect();
    let mut out = String::new();
    if src.chance(1, 4) {
        out.push_str("//// module comment\n\n");
    }
    for (i, l) in lines.iter().enumerate() {
        let indent: String = l.chars().take_while(|c| *c == ' ').collect();
        let starts_def = l.starts_with("pub fn") || l.starts_with("fn ") || l.starts_with("test ") || l.starts_with("pub type") || l.starts_with("validator") || l.starts_with("const ");
        if starts_def && src.chance(1, 3) {
            out.push_str("/// documentation\n");
        } else if !l.trim().is_empty() && !l.trim_start().starts_with(['}', ')', ']', '|']) && src.chance(1, 8) && i > 0 {
            out.push_str(&format!("{indent}// note {i}\n"));
        }
        out.push_str(l);
        // end-of-line comments after code (excluded while the finding
        // `formatter:trailing-comment-not-idempotent` was open; a fixed probe still watches it)
        if src.chance(1, 25) && !l.trim().is_empty() && !l.contains('"') {
            out.push_str(" // trailing");
        }
        out.push('\n');
    }
    out
}

fn walk(dir: &Path, out: &mut Vec<PathBuf>) {
    let Ok(rd) = std::fs::read_dir(dir) else { return };
    let mut entries: Vec<_> = rd.filter_map(|e| e.ok()).map(|e| e.path()).collect();
    entries.sort();
    for p in entries {
        if p.is_dir() {
            if p.file_name().and_then(|n| n.to_str()) != Some("build") {
                walk(&p, out);
            }
        } else if p.extension().and_then(|e| e.to_str()) == Some("ak") {
            out.push(p);
        }
    }
}

pub fn run(cx: &mut Cx) -> String {
    let tier = cx.tier;
    // (a) shipped sources
    if !cx.is_replay() || cx.replay_input("shipped-file").is_some() {
        let replay = cx.replay_input("shipped-file");
        let mut files = vec![];
        walk(Path::new("/repo/examples"), &mut files);
        walk(Path::new("/repo/benchmarks"), &mut files);
        for (k, f) in files.iter().enumerate() {
            let input = json!({"file": f.display().to_string()});
            if let Some(r) = &replay {
                if *r != input {
                    continue;
                }
            } else if !cx.mine(k as u64) {
                continue;
            }
            let Ok(text) = std::fs::read_to_string(f) else { continue };
            cx.direct("shipped-file", &input, |st| roundtrip(&text, st, "shipped"));
        }
    }
    // probe for the recorded known finding
    if !cx.is_replay() && cx.worker == 0 {
        let probe = "test t0() {\n  or {\n    0,\n    0, // trailing\n  } |> a(0 + 0)\n}\n";
        cx.direct("known-finding-probe:trailing-comment", &json!({"source": probe}), |st| match roundtrip(probe, st, "probe") {
            Err(f) if f.signature == "formatting-not-idempotent" => Err(Failure::new(KNOWN_TRAILING, f.detail)),
            other => other,
        });
    }
    // (b) typed generator
    let cfg = AikCfg { trace_weight: 6, ..AikCfg::default() };
    cx.shrink_iters = 0;
    cx.prop("typed-modules", tier.of(6_000, 150_000), 3000, |src, st| {
        let case = c01::gen_case(src, &cfg, 0);
        let with_comments = src.chance(1, 2);
        let text = if with_comments { add_comments(src, &case.source) } else { case.source.clone() };
        match roundtrip(&text, st, "typed-generator") {
            Ok(()) => Ok(()),
            Err(f) => {
                // shrink on the syntax tree (without the inserted comments) when the plain module
                // fails the same way
                let mut scratch = Stats::scratch();
                let same = |m: &crate::gen_::aiken_ast::Module, scratch: &mut Stats| {
                    let Ok(s) = no_panic(|| crate::gen_::aiken_ast::print_module(m)) else { return None };
                    match roundtrip(&s, scratch, "typed-generator") {
                        Err(g) if g.signature == f.signature => Some(g),
                        _ => None,
                    }
                };
                if same(&case.module, &mut scratch).is_none() {
                    return Err(f);
                }
                let small = crate::gen_::aiken_shrink::shrink_module(&case.module, 1500, |m| same(m, &mut Stats::scratch()).is_some());
                Err(same(&small, &mut scratch).unwrap_or(f))
            }
        }
    });
    // (c) surface grammar
    cx.shrink_iters = 3000;
    cx.prop("surface-grammar", tier.of(40_000, 1_000_000), 600, |src, st| {
        let mut g = G { src, fresh: 0 };
        let text = g.module();
        let text = if g.src.chance(1, 2) { add_comments(g.src, &text) } else { text };
        roundtrip(&text, st, "surface-grammar")
    });
    RULE.to_string()
}

//! C09 — builds are deterministic.
//! Metamorphic: the bytes of a compiled program do not depend on what the same code generator
//! instance compiled before (history), on cloning the generator, on repeating the build in the
//! same process (fresh randomly keyed hash maps), nor on the worker process.
use crate::aik::{self, Proj};
use crate::engine::*;
use crate::gen_::aiken_ast::print_module;
use crate::gen_::aiken_gen::{AikCfg, Gen};
use aiken_lang::ast::{ModuleKind, TraceLevel, Tracing};
use aiken_lang::plutus_version::PlutusVersion;
use serde_json::json;

pub const ASSUMPTIONS: &[&str] = &[
    "the file-system discovery order of `Project::aiken_files` cannot be permuted from user space; that slice of the quantifier is not covered (module registration order is, through re-checking the module from scratch in every build)",
    "byte equality is on `Program::to_hex()` of the de Bruijn form (what ends up in plutus.json) and on the printed named program",
    "thread-count independence is judged at the project level in C17 (same results for every pool size); here the process dimension is covered by 16 worker processes compiling the same fixed corpus and the supervisor comparing their digests",
];

pub const RULE: &str = "generated modules (see C01) with 3-4 exported functions that share data types, helpers, constants and textually identical expect lines, plus a validator; a history = a sequence of up to 6 compilations (functions and the validator, with repetitions, optionally on a clone of the generator) on one CodeGenerator instance, followed by the target; the target's bytes must equal those from a fresh instance in a fresh build of the same source, under silent and verbose tracing. Non-trivial = the history is non-empty, the target program has at least 50 binders and mentions a module constant or an expect cast; distinct by (source, history, target).";

struct Build {
    proj: Proj,
    names: Vec<String>,
}

fn fresh_build(source: &str, names: &[String], tracing: Tracing) -> Result<Build, String> {
    let mut proj = Proj::new();
    proj.add_module("m", ModuleKind::Validator, source, tracing).map_err(|e| format!("{e:?}"))?;
    Ok(Build { proj, names: names.to_vec() })
}

/// compile item `k` (functions first, then the validator) and return (hex, pretty)
fn compile_item(b: &Build, g: &mut aiken_lang::gen_uplc::CodeGenerator<'_>, k: usize) -> Result<(String, String), String> {
    let program = if k < b.names.len() {
        aik::compile_fn(&b.proj, g, 0, &b.names[k]).ok_or("missing function")?
    } else {
        let v = b.proj.validators(0).first().cloned().ok_or("missing validator")?;
        g.generate(v, "m")
    };
    let pretty = program.to_pretty();
    let db: uplc::ast::Program<uplc::ast::DeBruijn> = program.try_into().map_err(|e| format!("{e:?}"))?;
    Ok((db.to_hex().map_err(|e| format!("{e:?}"))?, pretty))
}

fn judge(src: &mut Src, st: &mut Stats) -> CheckResult {
    st.eval();
    let cfg = AikCfg { cast_weight: 12, expect_weight: 6, trace_weight: 4, max_helpers: 3, ..AikCfg::default() };
    let mut g = Gen::new(src, cfg);
    let _ = g.module();
    let mut names = vec!["entry".to_string()];
    let extra = 2 + g.src.below(2);
    for k in 0..extra {
        let n = format!("entry{}", k + 1);
        g.another_entry(&n);
        names.push(n);
    }
    let module = std::mem::take(&mut g.m);
    let src: &mut Src = g.src;
    let mut source = print_module(&module);
    source.push_str("validator v {\n  spend(_d: Option<Data>, r: Data, _o: Data, _tx: Data) {\n    expect n: Int = r\n    expect xs: List<Int> = entry1_arg(n)\n    n >= 0 || xs == []\n  }\n\n  else(_) {\n    fail\n  }\n}\n\nfn entry1_arg(n: Int) -> Data {\n  let d: Data = [n, n + 1]\n  d\n}\n");
    // textually identical `expect` lines shared between the exported functions, in varying
    // subsets and orders (their trace messages become shared helper definitions under verbose
    // tracing, which is generator state that must not leak between programs)
    source.push_str("\nfn shared_d() -> Data {\n  let d: Data = 1\n  d\n}\n");
    let pool = ["  expect q1: Int = shared_d()\n", "  expect q2: ByteArray = shared_d()\n", "  expect q3: List<Int> = shared_d()\n", "  expect Some(q4) = Some(shared_d())\n"];
    for n in &names {
        let header = format!("pub fn {n}(");
        if let Some(at) = source.find(&header) {
            if let Some(brace) = source[at..].find("{\n") {
                let k = src.below(4);
                let mut lines = String::new();
                let mut used = [false; 4];
                for _ in 0..k {
                    let j = src.below(pool.len());
                    if !used[j] {
                        used[j] = true;
                        lines.push_str(pool[j]);
                    }
                }
                source.insert_str(at + brace + 2, &lines);
            }
        }
    }
    let tracing = if src.chance(2, 3) { Tracing::All(TraceLevel::Verbose) } else { Tracing::All(TraceLevel::Silent) };
    let nitems = names.len() + 1;
    let target = src.below(nitems);
    let hist_len = src.below(7);
    let history: Vec<(usize, bool)> = (0..hist_len).map(|_| (src.below(nitems), src.chance(1, 5))).collect();
    let input = json!({"source": source, "items": names, "history": history.iter().map(|(k, c)| format!("{}{}", if *c { "clone:" } else { "" }, k)).collect::<Vec<_>>(), "target": target, "tracing": format!("{tracing:?}")});

    // reference: fresh build, fresh generator
    let r = no_panic(|| -> Result<(String, String), String> {
        let b = fresh_build(&source, &names, tracing)?;
        let mut gen0 = b.proj.generator(PlutusVersion::V3, tracing);
        compile_item(&b, &mut gen0, target)
    })
    .map_err(|p| panic_failure("compile", p, input.clone()));
    let reference = match r {
        Ok(Ok(x)) => x,
        Ok(Err(e)) => {
            st.class(&format!("skipped:{}", e.chars().take(30).collect::<String>()));
            return Ok(());
        }
        Err(_) => {
            st.class("skipped:compiler-panic(judged-by-C10)");
            return Ok(());
        }
    };
    // a second, independent build in the same process (fresh hash maps) with the history
    let got = no_panic(|| -> Result<(String, String), String> {
        let b = fresh_build(&source, &names, tracing)?;
        let mut gen1 = b.proj.generator(PlutusVersion::V3, tracing);
        for (k, on_clone) in &history {
            if *on_clone {
                let mut c = gen1.clone();
                let _ = compile_item(&b, &mut c, *k)?;
            } else {
                let _ = compile_item(&b, &mut gen1, *k)?;
            }
        }
        compile_item(&b, &mut gen1, target)
    })
    .map_err(|p| panic_failure("compile-with-history", p, input.clone()))?
    .map_err(|e| Failure::new("history-makes-compilation-fail", json!({"input": input, "error": e})))?;
    if got.0 != reference.0 {
        let (a, b): (Vec<&str>, Vec<&str>) = (reference.1.lines().collect(), got.1.lines().collect());
        let first = a.iter().zip(&b).position(|(x, y)| x != y).unwrap_or(a.len().min(b.len()));
        let ctx = |l: &Vec<&str>| l[first.saturating_sub(3)..(first + 4).min(l.len())].join(" | ");
        return Err(Failure::new("bytes-depend-on-generator-history", json!({"input": input, "fresh_len": reference.0.len(), "with_history_len": got.0.len(), "fresh_program_around_first_difference": ctx(&a), "with_history_around_first_difference": ctx(&b)})));
    }
    st.class(if history.is_empty() { "history:empty" } else { "history:non-empty" });
    let binders = reference.1.matches("(lam").count();
    if !history.is_empty() && binders >= 50 {
        st.nontrivial(&(source.as_str(), format!("{history:?}"), target));
        st.sample(|| json!({"items": names, "history": input["history"], "target": target, "binders": binders, "hex_len": reference.0.len()}));
    }
    Ok(())
}

/// Fixed corpus compiled by every worker process: the supervisor cannot compare across workers,
/// so each worker compares with digests that are a pure function of the sources (computed twice
/// in-process) and records them as a class name; a difference between processes shows up as two
/// digest classes for one source in the merged evidence and is checked here through a side file.
fn cross_process(cx: &mut Cx) {
    let sources = [
        "pub type T { A  B(Int)  C { x: Int, y: ByteArray } }\n\nconst k: List<Int> = [1, 2, 3]\n\nfn len(xs: List<a>) -> Int {\n  when xs is {\n    [] -> 0\n    [_, ..r] -> 1 + len(r)\n  }\n}\n\npub fn entry(d: Data, t: T) -> Int {\n  expect xs: List<Int> = d\n  when t is {\n    A -> len(xs) + len(k)\n    B(n) -> n\n    C { x, .. } -> x\n  }\n}\n",
        "pub fn entry(a: Int, b: Option<(Int, ByteArray)>) -> Data {\n  let r: Data = when b is {\n    Some((n, bs)) -> (n + a, bs)\n    None -> (a, #\"\")\n  }\n  r\n}\n",
    ];
    for (i, s) in sources.iter().enumerate() {
        let input = json!({"fixed_source": i});
        let dir = cx.workdir.clone();
        let seed = cx.seed;
        cx.direct("cross-process", &input, |st| {
            st.eval();
            let mut hexes = vec![];
            for tracing in [Tracing::All(TraceLevel::Verbose), Tracing::All(TraceLevel::Silent)] {
                for _ in 0..2 {
                    let b = fresh_build(s, &["entry".to_string()], tracing).map_err(|e| Failure::new("fixed-source-rejected", json!({"error": e})))?;
                    let mut g = b.proj.generator(PlutusVersion::V3, tracing);
                    hexes.push(compile_item(&b, &mut g, 0).map_err(|e| Failure::new("fixed-source-rejected", json!({"error": e})))?.0);
                }
            }
            if hexes[0] != hexes[1] || hexes[2] != hexes[3] {
                return Err(Failure::new("bytes-differ-between-two-builds-in-one-process", json!({"input": input})));
            }
            // compare with what other worker processes of this run wrote
            let digest = format!("{:016x}", hash_of(&hexes));
            let file = dir.join(format!("seed{seed}-src{i}"));
            match std::fs::read_to_string(&file) {
                Ok(other) if other.trim() != digest => {
                    return Err(Failure::new("bytes-differ-between-processes", json!({"input": input, "this_process": digest, "another_process": other.trim()})));
                }
                Ok(_) => {}
                Err(_) => {
                    let _ = std::fs::write(&file, &digest);
                }
            }
            st.class("cross-process:agree");
            st.nontrivial(&(i, "cross-process"));
            Ok(())
        });
    }
}

pub fn run(cx: &mut Cx) -> String {
    let tier = cx.tier;
    if !cx.is_replay() {
        cross_process(cx);
    }
    cx.shrink_iters = 200;
    cx.prop("generator-histories", tier.of(5_000, 120_000), 3000, judge);
    RULE.to_string()
}

//! C06 — well-typed programs cannot go wrong.
//! Validity predicate on the machine error of every run of a type-checked generated program on
//! arguments of the declared types: structural errors mean the type checker and the code generator
//! disagree about a representation.
use crate::aik::{self, Outcome};
use crate::engine::*;
use crate::gen_::aiken_gen::AikCfg;
use crate::props::c01::{self, Case, CompileOutcome, Expected};
use aiken_lang::ast::{TraceLevel, Tracing};
use serde_json::json;

pub const ASSUMPTIONS: &[&str] = &[
    "allowed run-time failures: EvaluationFailure (fail, todo, failed expect), DivideByZero, DeserialisationError and EmptyList (failed Data cast / list expect under silent tracing), budget exhaustion, and builtin domain errors (index out of bounds, cons of a non-byte, ...)",
    "forbidden (structural) failures: TypeMismatch, ListTypeMismatch, PairTypeMismatch, NotAConstant, NonFunctionalApplication, NonPolymorphicInstantiation, OpenTermEvaluated, MissingCaseBranch, NonConstrScrutinized, UnexpectedBuiltinTermArgument, BuiltinTermArgumentExpected, MachineNeverReachedDone, InvalidStepKind; and a compiled program with a free variable",
    "DeserialisationError is additionally forbidden when the reference interpreter says the run performs no failing Data cast (it then reveals a wrong representation rather than a failed cast)",
    "arguments are values of the declared parameter types in the documented Data encoding; arbitrary Data only where the parameter type is Data",
];

pub const RULE: &str = "generated modules as in C01 with the weights shifted to the representation boundary (generic helpers instantiated at Bool/Int/records/lists, Data up- and down-casts, soft casts, pairs and lists of pairs, records holding Bool), compiled under silent and verbose tracing and run on 8 argument tuples of the declared types. Non-trivial = the run crossed a generic call or a Data cast and either returned a value or failed with an allowed error after >= 8 reference steps; distinct by (source, arguments).";

pub const FORBIDDEN: &[&str] = &[
    "TypeMismatch",
    "ListTypeMismatch",
    "PairTypeMismatch",
    "NotAConstant",
    "NonFunctionalApplication",
    "NonPolymorphicInstantiation",
    "OpenTermEvaluated",
    "MissingCaseBranch",
    "NonConstrScrutinized",
    "UnexpectedBuiltinTermArgument",
    "BuiltinTermArgumentExpected",
    "MachineNeverReachedDone",
    "InvalidStepKind",
];

pub fn judge_case(case: &Case, tracing: Tracing, st: &mut Stats) -> CheckResult {
    st.eval();
    let compiled = match c01::compile_entry(&case.source, tracing) {
        CompileOutcome::Ok(c) => c,
        CompileOutcome::Rejected(_) => {
            st.class("generator:rejected-by-checker");
            return Ok(());
        }
        CompileOutcome::Panic(_) => {
            st.class("skipped:compiler-panic(judged-by-C10)");
            return Ok(());
        }
        CompileOutcome::FreeUnique(e) => {
            return Err(Failure::new("compiled-program-has-free-variable", json!({"error": e, "input": {"source": case.source, "args": []}, "arg_index": 0})));
        }
    };
    for (arg_index, args) in case.args.iter().enumerate() {
        let Some(data) = c01::args_to_data(&case.module, &case.entry, args) else { continue };
        let pd: Vec<uplc::PlutusData> = data.iter().map(|d| d.to_plutus()).collect();
        let input = json!({"source": case.source, "args": data.iter().map(|d| d.show()).collect::<Vec<_>>(), "tracing": format!("{tracing:?}")});
        let (out, _, _) = no_panic(|| aik::eval_with_args(&compiled.program, &pd)).map_err(|p| panic_failure("eval", p, input.clone()))?;
        st.evals(1);
        let (exp, feat) = c01::model_run(&case.module, &case.entry, args, c01::FUEL);
        match &out {
            Outcome::Value(_) => st.class("run:value"),
            Outcome::Error(k, detail) => {
                st.class(&format!("run:error:{k}"));
                if FORBIDDEN.contains(&k.as_str()) {
                    return Err(Failure::new(format!("structural-error:{k}"), json!({"input": input, "arg_index": arg_index, "error": detail, "reference": format!("{exp:?}")})));
                }
                if k == "DeserialisationError" || k == "EmptyList" {
                    // legitimate only as the failure channel of a Data cast / list expect the
                    // reference also sees failing
                    if matches!(exp, Expected::Value(_)) {
                        return Err(Failure::new(format!("representation-error:{k}"), json!({"input": input, "arg_index": arg_index, "error": detail, "reference": format!("{exp:?}")})));
                    }
                }
            }
        }
        let crossed = feat.generic_call > 0 || feat.data_cast > 0;
        let nontrivial = crossed && (matches!(out, Outcome::Value(_)) || feat.steps >= 8) && !matches!(exp, Expected::Skip(_));
        if nontrivial {
            st.nontrivial(&(case.source.as_str(), format!("{data:?}")));
            st.sample(|| json!({"source": case.source, "args": data.iter().map(|d| d.show()).collect::<Vec<_>>(), "tracing": format!("{tracing:?}"), "outcome": match &out { Outcome::Value(t) => t.to_pretty().chars().take(200).collect::<String>(), Outcome::Error(k, _) => format!("error {k}") }}));
        }
    }
    Ok(())
}

pub fn run(cx: &mut Cx) -> String {
    let tier = cx.tier;
    cx.shrink_iters = 0;
    let cfg = AikCfg { cast_weight: 14, abort_weight: 2, trace_weight: 1, max_adts: 3, max_helpers: 4, ..AikCfg::default() };
    for (name, tracing) in [("typed-runs-silent", Tracing::All(TraceLevel::Silent)), ("typed-runs-verbose", Tracing::All(TraceLevel::Verbose))] {
        cx.prop(name, tier.of(8_000, 200_000), 3000, |src, st| {
            let case = c01::gen_case(src, &cfg, 8);
            c01::judge_and_shrink(case, st, &|c, st| judge_case(c, tracing, st))
        });
    }
    // focus: the same generic helpers instantiated at plain lists and at associative lists
    // (`List<Pair<k, v>>` is a map at the Data level) within one program
    let cfg2 = AikCfg { pairs_bias: true, cast_weight: 8, abort_weight: 1, trace_weight: 0, expect_weight: 1, closure_weight: 0, max_adts: 1, max_helpers: 2, ..AikCfg::default() };
    for (name, tracing) in [("pairs-and-lists-silent", Tracing::All(TraceLevel::Silent)), ("pairs-and-lists-verbose", Tracing::All(TraceLevel::Verbose))] {
        cx.prop(name, tier.of(4_000, 100_000), 3000, |src, st| {
            let case = c01::gen_case(src, &cfg2, 8);
            c01::judge_and_shrink(case, st, &|c, st| judge_case(c, tracing, st))
        });
    }
    RULE.to_string()
}

//! C06 — well-typed programs cannot go wrong.
//! Validity predicate on the machine error of every run of a type-checked generated program on
//! arguments of the declared types: structural errors mean the type checker and the code generator
//! disagree about a representation.
use crate::aik::{self, Outcome};
use crate::engine::*;
use crate::gen_::aiken_gen::AikCfg;
use crate::props::c01::{self, Case, CompileOutcome, Expected};
use aiken_lang::ast::{TraceLevel, Tracing};
use serde_json::json;

pub const ASSUMPTIONS: &[&str] = &[
    "allowed run-time failures: EvaluationFailure (fail, todo, failed expect), DivideByZero, DeserialisationError and EmptyList (failed Data cast / list expect under silent tracing), budget exhaustion, and builtin domain errors (index out of bounds, cons of a non-byte, ...)",
    "forbidden (structural) failures: TypeMismatch, ListTypeMismatch, PairTypeMismatch, NotAConstant, NonFunctionalApplication, NonPolymorphicInstantiation, OpenTermEvaluated, MissingCaseBranch, NonConstrScrutinized, UnexpectedBuiltinTermArgument, BuiltinTermArgumentExpected, MachineNeverReachedDone, InvalidStepKind; and a compiled program with a free variable",
    "DeserialisationError is additionally forbidden when the reference interpreter says the run performs no failing Data cast (it then reveals a wrong representation rather than a failed cast)",
    "arguments are values of the declared parameter types in the documented Data encoding; arbitrary Data only where the parameter type is Data",
];

pub const RULE: &str = "generated modules as in C01 with the weights shifted to the representation boundary (generic helpers instantiated at Bool/Int/records/lists, Data up- and down-casts, soft casts, pairs and lists of pairs, records holding Bool), compiled under silent and verbose tracing and run on 8 argument tuples of the declared types. Non-trivial = the run crossed a generic call or a Data cast and either returned a value or failed with an allowed error after >= 8 reference steps; distinct by (source, arguments).";

pub const FORBIDDEN: &[&str] = &[
    "TypeMismatch",
    "ListTypeMismatch",
    "PairTypeMismatch",
    "NotAConstant",
    "NonFunctionalApplication",
    "NonPolymorphicInstantiation",
    "OpenTermEvaluated",
    "MissingCaseBranch",
    "NonConstrScrutinized",
    "UnexpectedBuiltinTermArgument",
    "BuiltinTermArgumentExpected",
    "MachineNeverReachedDone",
    "InvalidStepKind",
];

pub fn judge_case(case: &Case, tracing: Tracing, st: &mut Stats) -> CheckResult {
    st.eval();
    let compiled = match c01::compile_entry(&case.source, tracing) {
        CompileOutcome::Ok(c) => c,
        CompileOutcome::Rejected(_) => {
            st.class("generator:rejected-by-checker");
            return Ok(());
        }
        CompileOutcome::Panic(_) => {
            st.class("skipped:compiler-panic(judged-by-C10)");
            return Ok(());
        }
        CompileOutcome::FreeUnique(e) => {
            return Err(Failure::new("compiled-program-has-free-variable", json!({"error": e, "input": {"source": case.source, "args": []}, "arg_index": 0})));
        }
    };
    for (arg_index, args) in case.args.iter().enumerate() {
        let Some(data) = c01::args_to_data(&case.module, &case.entry, args) else { continue };
        let pd: Vec<uplc::PlutusData> = data.iter().map(|d| d.to_plutus()).collect();
        let input = json!({"source": case.source, "args": data.iter().map(|d| d.show()).collect::<Vec<_>>(), "tracing": format!("{tracing:?}")});
        let (out, _, _) = no_panic(|| aik::eval_with_args(&compiled.program, &pd)).map_err(|p| panic_failure("eval", p, input.clone()))?;
        st.evals(1);
        let (exp, feat) = c01::model_run(&case.module, &case.entry, args, c01::FUEL);
        match &out {
            Outcome::Value(_) => st.class("run:value"),
            Outcome::Error(k, detail) => {
                st.class(&format!("run:error:{k}"));
                if FORBIDDEN.contains(&k.as_str()) {
                    return Err(Failure::new(format!("structural-error:{k}"), json!({"input": input, "arg_index": arg_index, "error": detail, "reference": format!("{exp:?}")})));
                }
                if k == "DeserialisationError" || k == "EmptyList" {
                    // legitimate only as the failure channel of a Data cast / list expect the
                    // reference also sees failing
                    if matches!(exp, Expected::Value(_)) {
                        return Err(Failure::new(format!("representation-error:{k}"), json!({"input": input, "arg_index": arg_index, "error": detail, "reference": format!("{exp:?}")})));
                    }
                }
            }
        }
        let crossed = feat.generic_call > 0 || feat.data_cast > 0;
        let nontrivial = crossed && (matches!(out, Outcome::Value(_)) || feat.steps >= 8) && !matches!(exp, Expected::Skip(_));
        if nontrivial {
            st.nontrivial(&(case.source.as_str(), format!("{data:?}")));
            st.sample(|| json!({"source": case.source, "args": data.iter().map(|d| d.show()).collect::<Vec<_>>(), "tracing": format!("{tracing:?}"), "outcome": match &out { Outcome::Value(t) => t.to_pretty().chars().take(200).collect::<String>(), Outcome::Error(k, _) => format!("error {k}") }}));
        }
    }
    Ok(())
}

/// values of a few representation classes, as Aiken text: (type, two sample expressions over `a: Int`)
const INSTANCES: &[(&str, &str, &str)] = &[
    ("Int", "a", "a + 1"),
    ("ByteArray", "#\"00\"", "#\"ff01\""),
    ("Bool", "a > 0", "False"),
    ("List<Int>", "[a, 2]", "[]"),
    ("(Int, ByteArray)", "(a, #\"\")", "(2, #\"aa\")"),
    ("Option<Int>", "Some(a)", "None"),
    ("Pairs<Int, Int>", "[Pair(a, 1)]", "[]"),
    ("Data", "builtin.i_data(a)", "builtin.b_data(#\"\")"),
];

/// A constructor of a generic type used as a function value must behave like the lambda that
/// calls it (`map(xs, Some)` = `map(xs, fn(x) { Some(x) })`), and neither may go wrong.
fn judge_ctor_as_function(src: &mut Src, st: &mut Stats) -> CheckResult {
    st.eval();
    let (ty, v1, v2) = *src.pick(INSTANCES);
    let (ty2, w1, _) = *src.pick(INSTANCES);
    let decls = "use aiken/builtin\n\npub type Box<a> {\n  Box(Int, a)\n}\n\npub type Rec<a> {\n  Rec { k: Int, v: a }\n}\n\npub type Twice<a, b> {\n  TwiceA(a, b)\n  TwiceB\n}\n\nfn map(xs: List<a>, f: fn(a) -> b) -> List<b> {\n  when xs is {\n    [] -> []\n    [x, ..r] -> [f(x), ..map(r, f)]\n  }\n}\n\nfn apply1(f: fn(a) -> b, x: a) -> b {\n  f(x)\n}\n\nfn apply2(f: fn(a, b) -> c, x: a, y: b) -> c {\n  f(x, y)\n}\n";
    // (expression using the constructor as a value, the same with an explicit lambda)
    let (direct, eta): (String, String) = match src.below(7) {
        0 => (format!("map([{v1}, {v2}], Some)"), format!("map([{v1}, {v2}], fn(x) {{ Some(x) }})")),
        1 => (format!("apply1(Some, {v1})"), format!("apply1(fn(x) {{ Some(x) }}, {v1})")),
        2 => (format!("apply2(Box, a, {v1})"), format!("apply2(fn(k, v) {{ Box(k, v) }}, a, {v1})")),
        3 => (format!("apply2(Rec, a, {v1})"), format!("apply2(fn(k, v) {{ Rec {{ k, v }} }}, a, {v1})")),
        4 => (format!("apply2(TwiceA, {v1}, {w1})"), format!("apply2(fn(x, y) {{ TwiceA(x, y) }}, {v1}, {w1})")),
        5 => (format!("{{\n    let mk = TwiceA\n    mk({v1}, {w1})\n  }}"), format!("{{\n    let mk = fn(x, y) {{ TwiceA(x, y) }}\n    mk({v1}, {w1})\n  }}")),
        _ => (format!("{{\n    let mk = if a > 100 {{\n      Some\n    }} else {{\n      Some\n    }}\n    mk({v2})\n  }}"), format!("Some({v2})")),
    };
    let _ = ty2;
    let tracing = if src.bool() { Tracing::All(TraceLevel::Silent) } else { Tracing::All(TraceLevel::Verbose) };
    let program = |e: &str| format!("{decls}\npub fn entry(a: Int) -> Data {{\n  let r = {e}\n  let d: Data = r\n  d\n}}\n");
    let (s1, s2) = (program(&direct), program(&eta));
    let input = json!({"source": s1, "instantiated_at": ty, "tracing": format!("{tracing:?}")});
    let compile = |s: &str| match c01::compile_entry(s, tracing) {
        CompileOutcome::Ok(c) => Ok(Some(c)),
        CompileOutcome::Rejected(e) => {
            if std::env::var("VERIF_SHOW_REJECTS").is_ok() {
                eprintln!("{s}\n{e:?}");
            }
            Ok(None)
        }
        CompileOutcome::Panic((msg, loc)) => Err(Failure::new(panic_signature("compile", &msg, &loc), json!({"panic": msg, "at": loc, "input": input}))),
        CompileOutcome::FreeUnique(e) => Err(Failure::new("compiled-program-has-free-variable", json!({"error": e, "input": input}))),
    };
    let (Some(c1), Some(c2)) = (compile(&s1)?, compile(&s2)?) else {
        st.class("constructor-values:rejected-by-checker");
        return Ok(());
    };
    for a in [0i64, 5] {
        let args = vec![uplc::ast::Data::integer(a.into())];
        let (o1, _, _) = aik::eval_with_args(&c1.program, &args);
        let (o2, _, _) = aik::eval_with_args(&c2.program, &args);
        if let Outcome::Error(k, detail) = &o1 {
            let sig = if FORBIDDEN.contains(&k.as_str()) { format!("structural-error:{k}") } else { format!("constructor-value-fails:{k}") };
            return Err(Failure::new(sig, json!({"input": input, "argument": a, "error": detail})));
        }
        let show = |o: &Outcome| match o {
            Outcome::Value(t) => t.to_pretty(),
            Outcome::Error(k, _) => format!("error {k}"),
        };
        if show(&o1) != show(&o2) {
            return Err(Failure::new("constructor-value-differs-from-its-lambda", json!({"input": input, "argument": a, "as_value": show(&o1), "as_lambda": show(&o2), "lambda_source": s2})));
        }
    }
    st.class("constructor-values:agree");
    st.nontrivial(&s1);
    Ok(())
}

/// Known finding: `expect` lets a function value change its parameter types.
pub const KNOWN_FN_CAST: &str = "typing-hole:expect-casts-function-argument-types";

pub const FN_CAST_SOURCE: &str = "fn inc(x: Int) -> Int {\n  x + 1\n}\n\npub fn entry(a: Int) -> Int {\n  let d: Data = a\n  expect f: fn(Data) -> Int = inc\n  f(d)\n}\n";

fn probe_fn_cast(st: &mut Stats) -> CheckResult {
    st.eval();
    let input = json!({"source": FN_CAST_SOURCE, "args": ["I 1"]});
    match c01::compile_entry(FN_CAST_SOURCE, Tracing::All(TraceLevel::Silent)) {
        CompileOutcome::Ok(c) => {
            let (out, _, _) = aik::eval_with_args(&c.program, &[uplc::ast::Data::integer(1.into())]);
            match out {
                Outcome::Error(k, detail) if FORBIDDEN.contains(&k.as_str()) => Err(Failure::new(KNOWN_FN_CAST, json!({"input": input, "error": detail}))),
                _ => Ok(()),
            }
        }
        // rejected by the checker: the hole is closed
        _ => Ok(()),
    }
}

pub fn run(cx: &mut Cx) -> String {
    let tier = cx.tier;
    cx.shrink_iters = 0;
    let cfg = AikCfg { cast_weight: 14, abort_weight: 2, trace_weight: 1, max_adts: 3, max_helpers: 4, ..AikCfg::default() };
    for (name, tracing) in [("typed-runs-silent", Tracing::All(TraceLevel::Silent)), ("typed-runs-verbose", Tracing::All(TraceLevel::Verbose))] {
        cx.prop(name, tier.of(8_000, 200_000), 3000, |src, st| {
            let case = c01::gen_case(src, &cfg, 8);
            c01::judge_and_shrink(case, st, &|c, st| judge_case(c, tracing, st))
        });
    }
    // focus: the same generic helpers instantiated at plain lists and at associative lists
    // (`List<Pair<k, v>>` is a map at the Data level) within one program
    let cfg2 = AikCfg { pairs_bias: true, cast_weight: 8, abort_weight: 1, trace_weight: 0, expect_weight: 1, closure_weight: 0, max_adts: 1, max_helpers: 2, ..AikCfg::default() };
    for (name, tracing) in [("pairs-and-lists-silent", Tracing::All(TraceLevel::Silent)), ("pairs-and-lists-verbose", Tracing::All(TraceLevel::Verbose))] {
        cx.prop(name, tier.of(4_000, 100_000), 3000, |src, st| {
            let case = c01::gen_case(src, &cfg2, 8);
            c01::judge_and_shrink(case, st, &|c, st| judge_case(c, tracing, st))
        });
    }
    cx.prop("constructors-as-functions", tier.of(6_000, 150_000), 40, judge_ctor_as_function);
    if !cx.is_replay() && cx.worker == 0 {
        cx.direct("known-finding-probe:expect-casts-function-arguments", &json!({"source": FN_CAST_SOURCE}), probe_fn_cast);
    }
    RULE.to_string()
}

//! R-CEK: reference evaluator for UPLC written from the Plutus Core specification (big-step,
//! environment based), with builtin application rules, constr/case (incl. case on constants for the
//! variant that allows it), full discharge of the result, and step/builtin-call accounting.
//!
//! Nothing here calls into `uplc::machine`.
use crate::gen_::uplc::T;
use crate::model::builtins::{self as mb, BRes};
use crate::model::mconst::MC;
use std::rc::Rc;
use uplc::builtins::DefaultFunction as F;

#[derive(Debug, Clone, Copy, PartialEq, Eq)]
pub enum Variant {
    A,
    B,
    C,
    D,
    E,
}

impl Variant {
    /// language (1,2,3) x protocol major version -> variant, per the ledger's rules:
    /// V1/V2: A before Chang (pv < 9), B from Chang, D from pv 11; V3: C before pv 11, E from pv 11.
    pub fn of(lang: u8, pv: u16) -> Variant {
        match (lang, pv) {
            (1 | 2, p) if p >= 11 => Variant::D,
            (1 | 2, p) if p >= 9 => Variant::B,
            (1 | 2, _) => Variant::A,
            (_, p) if p >= 11 => Variant::E,
            _ => Variant::C,
        }
    }
    pub fn case_on_constants(self) -> bool {
        self == Variant::E
    }
}

#[derive(Debug, Clone)]
pub enum V {
    Con(Rc<MC>),
    Lam(Rc<T>, Env),
    Delay(Rc<T>, Env),
    Constr(usize, Vec<V>),
    Builtin { f: F, forces: u32, args: Vec<V> },
}

#[derive(Debug, Clone)]
pub enum Env {
    Nil,
    Cons(Rc<(V, Env)>),
}

impl Env {
    fn push(&self, v: V) -> Env {
        Env::Cons(Rc::new((v, self.clone())))
    }
    /// 1-based lookup
    fn get(&self, mut i: usize) -> Option<&V> {
        if i == 0 {
            return None;
        }
        let mut e = self;
        loop {
            match e {
                Env::Nil => return None,
                Env::Cons(c) => {
                    if i == 1 {
                        return Some(&c.0);
                    }
                    i -= 1;
                    e = &c.1;
                }
            }
        }
    }
}

#[derive(Debug, Clone, PartialEq)]
pub enum Stop {
    /// evaluation failure (the specification has a single failure)
    Fail(&'static str),
    /// the reference gave up: fuel/depth exhausted
    Fuel,
    /// the term uses something the reference does not model (a builtin outside its table, BLS…)
    Unsupported,
}

#[derive(Debug, Clone, Default)]
pub struct Counters {
    /// machine steps by kind: const, var, lam, apply, delay, force, builtin, constr, case
    pub steps: [u64; 9],
    /// saturated builtin calls in evaluation order, with their (model) arguments
    pub calls: Vec<(F, Vec<V>)>,
    pub max_env_distance: usize,
    pub partial_builtin_values: u64,
    pub case_on_const: u64,
    pub constr_case: u64,
    pub forced_builtin: u64,
    pub logs: Vec<String>,
}

impl Counters {
    pub fn total_steps(&self) -> u64 {
        self.steps.iter().sum()
    }
}

pub const K_CONST: usize = 0;
pub const K_VAR: usize = 1;
pub const K_LAM: usize = 2;
pub const K_APPLY: usize = 3;
pub const K_DELAY: usize = 4;
pub const K_FORCE: usize = 5;
pub const K_BUILTIN: usize = 6;
pub const K_CONSTR: usize = 7;
pub const K_CASE: usize = 8;

pub struct Machine {
    pub variant: Variant,
    pub fuel: u64,
    pub max_depth: usize,
    pub counters: Counters,
    pub record_calls: bool,
}

impl Machine {
    pub fn new(variant: Variant) -> Machine {
        Machine {
            variant,
            fuel: 20_000,
            max_depth: 700,
            counters: Counters::default(),
            record_calls: false,
        }
    }

    pub fn run(&mut self, t: &T) -> Result<V, Stop> {
        self.eval(t, &Env::Nil, 0)
    }

    fn step(&mut self, kind: usize) -> Result<(), Stop> {
        if self.fuel == 0 {
            return Err(Stop::Fuel);
        }
        self.fuel -= 1;
        self.counters.steps[kind] += 1;
        Ok(())
    }

    fn eval(&mut self, t: &T, env: &Env, depth: usize) -> Result<V, Stop> {
        if depth > self.max_depth {
            return Err(Stop::Fuel);
        }
        match t {
            T::Var(i) => {
                self.step(K_VAR)?;
                if *i > self.counters.max_env_distance {
                    self.counters.max_env_distance = *i;
                }
                env.get(*i).cloned().ok_or(Stop::Fail("free variable"))
            }
            T::Con(c) => {
                self.step(K_CONST)?;
                match MC::from_constant(c) {
                    Some(mc) => Ok(V::Con(Rc::new(mc))),
                    None => Err(Stop::Unsupported),
                }
            }
            T::Lam(b) => {
                self.step(K_LAM)?;
                Ok(V::Lam(b.clone(), env.clone()))
            }
            T::Delay(b) => {
                self.step(K_DELAY)?;
                Ok(V::Delay(b.clone(), env.clone()))
            }
            T::Builtin(f) => {
                self.step(K_BUILTIN)?;
                Ok(V::Builtin {
                    f: *f,
                    forces: 0,
                    args: vec![],
                })
            }
            T::Error => Err(Stop::Fail("error term")),
            T::Force(b) => {
                self.step(K_FORCE)?;
                let v = self.eval(b, env, depth + 1)?;
                self.force(v, depth)
            }
            T::App(f, a) => {
                self.step(K_APPLY)?;
                let fv = self.eval(f, env, depth + 1)?;
                let av = self.eval(a, env, depth + 1)?;
                self.apply(fv, av, depth)
            }
            T::Constr(tag, fields) => {
                self.step(K_CONSTR)?;
                let mut vs = Vec::with_capacity(fields.len());
                // fields are evaluated left to right
                for f in fields {
                    vs.push(self.eval(f, env, depth + 1)?);
                }
                Ok(V::Constr(*tag, vs))
            }
            T::Case(scrut, branches) => {
                self.step(K_CASE)?;
                let sv = self.eval(scrut, env, depth + 1)?;
                let (tag, args): (usize, Vec<V>) = match sv {
                    V::Constr(tag, fields) => {
                        self.counters.constr_case += 1;
                        (tag, fields)
                    }
                    V::Con(c) if self.variant.case_on_constants() => {
                        self.counters.case_on_const += 1;
                        let n = branches.len();
                        let con = |m: MC| V::Con(Rc::new(m));
                        match &*c {
                            MC::Unit => {
                                if n != 1 {
                                    return Err(Stop::Fail("case on unit needs exactly one branch"));
                                }
                                (0, vec![])
                            }
                            MC::Bool(b) => {
                                if n == 0 || n > 2 {
                                    return Err(Stop::Fail("case on bool needs one or two branches"));
                                }
                                (if *b { 1 } else { 0 }, vec![])
                            }
                            MC::Int(i) => {
                                use num_traits::ToPrimitive;
                                match i.to_usize() {
                                    Some(k) if k < n => (k, vec![]),
                                    _ => return Err(Stop::Fail("case on integer out of range")),
                                }
                            }
                            MC::List(ty, items) => {
                                if n == 0 || n > 2 {
                                    return Err(Stop::Fail("case on list needs one or two branches"));
                                }
                                if items.is_empty() {
                                    (1, vec![])
                                } else {
                                    (
                                        0,
                                        vec![
                                            con(items[0].clone()),
                                            con(MC::List(ty.clone(), items[1..].to_vec())),
                                        ],
                                    )
                                }
                            }
                            MC::Pair(_, _, a, b) => {
                                if n != 1 {
                                    return Err(Stop::Fail("case on pair needs exactly one branch"));
                                }
                                (0, vec![con((**a).clone()), con((**b).clone())])
                            }
                            _ => return Err(Stop::Fail("case on a constant that cannot be scrutinised")),
                        }
                    }
                    _ => return Err(Stop::Fail("case on non-constr")),
                };
                let Some(branch) = branches.get(tag) else {
                    return Err(Stop::Fail("missing case branch"));
                };
                let mut f = self.eval(branch, env, depth + 1)?;
                for a in args {
                    f = self.apply(f, a, depth)?;
                }
                Ok(f)
            }
        }
    }

    fn force(&mut self, v: V, depth: usize) -> Result<V, Stop> {
        match v {
            V::Delay(b, env) => self.eval(&b, &env, depth + 1),
            V::Builtin { f, forces, args } => {
                let Some((nforces, arity)) = mb::signature(f) else {
                    return Err(Stop::Unsupported);
                };
                // all type instantiations come first
                if forces < nforces && args.is_empty() {
                    self.counters.forced_builtin += 1;
                    self.saturate(f, forces + 1, args, nforces, arity)
                } else {
                    Err(Stop::Fail("builtin forced where a term argument was expected"))
                }
            }
            _ => Err(Stop::Fail("force of non-delay")),
        }
    }

    fn apply(&mut self, fv: V, av: V, depth: usize) -> Result<V, Stop> {
        match fv {
            V::Lam(body, env) => self.eval(&body, &env.push(av), depth + 1),
            V::Builtin { f, forces, mut args } => {
                let Some((nforces, arity)) = mb::signature(f) else {
                    return Err(Stop::Unsupported);
                };
                if forces < nforces {
                    return Err(Stop::Fail("builtin applied where a force was expected"));
                }
                if args.len() >= arity {
                    return Err(Stop::Fail("builtin over-applied"));
                }
                args.push(av);
                self.saturate(f, forces, args, nforces, arity)
            }
            _ => Err(Stop::Fail("application of non-function")),
        }
    }

    fn saturate(&mut self, f: F, forces: u32, args: Vec<V>, nforces: u32, arity: usize) -> Result<V, Stop> {
        if forces == nforces && args.len() == arity {
            if self.record_calls {
                self.counters.calls.push((f, args.clone()));
            }
            match mb::call(f, &args, self.variant, &mut self.counters.logs) {
                BRes::Ok(v) => Ok(v),
                BRes::Fail(why) => Err(Stop::Fail(why)),
                BRes::Unsupported => Err(Stop::Unsupported),
            }
        } else {
            self.counters.partial_builtin_values += 1;
            Ok(V::Builtin { f, forces, args })
        }
    }
}

/// Read a value back as a closed term: captured variables are substituted, also under
/// `constr` and `case`.
pub fn discharge(v: &V) -> T {
    match v {
        V::Con(c) => T::Con(Rc::new(c.to_constant())),
        V::Lam(body, env) => T::Lam(Rc::new(subst(body, env, 1))),
        V::Delay(body, env) => T::Delay(Rc::new(subst(body, env, 0))),
        V::Constr(tag, fields) => T::Constr(*tag, fields.iter().map(discharge).collect()),
        V::Builtin { f, forces, args } => {
            let mut t = T::Builtin(*f);
            for _ in 0..*forces {
                t = t.force();
            }
            for a in args {
                t = t.app(discharge(a));
            }
            t
        }
    }
}

fn subst(t: &T, env: &Env, bound: usize) -> T {
    match t {
        T::Var(i) => {
            if *i <= bound {
                T::Var(*i)
            } else {
                match env.get(*i - bound) {
                    Some(v) => discharge(v),
                    None => T::Var(*i),
                }
            }
        }
        T::Lam(b) => T::Lam(Rc::new(subst(b, env, bound + 1))),
        T::Delay(b) => T::Delay(Rc::new(subst(b, env, bound))),
        T::Force(b) => T::Force(Rc::new(subst(b, env, bound))),
        T::App(f, a) => T::App(Rc::new(subst(f, env, bound)), Rc::new(subst(a, env, bound))),
        T::Constr(tag, fs) => T::Constr(*tag, fs.iter().map(|f| subst(f, env, bound)).collect()),
        T::Case(s, bs) => T::Case(
            Rc::new(subst(s, env, bound)),
            bs.iter().map(|b| subst(b, env, bound)).collect(),
        ),
        T::Con(_) | T::Builtin(_) | T::Error => t.clone(),
    }
}

/// Structural equality of two discharged terms with constants compared as model constants
/// (so that e.g. Data is compared as abstract data, not by CBOR encoding details).
pub fn term_eq(a: &T, b: &T) -> bool {
    match (a, b) {
        (T::Var(i), T::Var(j)) => i == j,
        (T::Lam(x), T::Lam(y)) | (T::Delay(x), T::Delay(y)) | (T::Force(x), T::Force(y)) => term_eq(x, y),
        (T::App(f, x), T::App(g, y)) => term_eq(f, g) && term_eq(x, y),
        (T::Con(x), T::Con(y)) => match (MC::from_constant(x), MC::from_constant(y)) {
            (Some(p), Some(q)) => p == q,
            _ => x == y,
        },
        (T::Builtin(f), T::Builtin(g)) => f == g,
        (T::Error, T::Error) => true,
        (T::Constr(t1, f1), T::Constr(t2, f2)) => {
            t1 == t2 && f1.len() == f2.len() && f1.iter().zip(f2).all(|(x, y)| term_eq(x, y))
        }
        (T::Case(s1, b1), T::Case(s2, b2)) => {
            term_eq(s1, s2) && b1.len() == b2.len() && b1.iter().zip(b2).all(|(x, y)| term_eq(x, y))
        }
        _ => false,
    }
}

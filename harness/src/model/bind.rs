//! M-BIND: independent binder resolution for named terms.
use crate::gen_::uplc::T;
use std::rc::Rc;
use uplc::ast::{Name, Term};

/// Resolve a named term into de Bruijn distances using `key` as binder identity. Free occurrences
/// become `Var(0)` and are counted in `free`.
pub fn resolve<K: PartialEq>(t: &Term<Name>, key: &dyn Fn(&Name) -> K, scope: &mut Vec<K>, free: &mut usize) -> T {
    match t {
        Term::Var(n) => {
            let k = key(n);
            match scope.iter().rev().position(|b| *b == k) {
                Some(p) => T::Var(p + 1),
                None => {
                    *free += 1;
                    T::Var(0)
                }
            }
        }
        Term::Lambda { parameter_name, body } => {
            scope.push(key(parameter_name));
            let b = resolve(body, key, scope, free);
            scope.pop();
            T::Lam(Rc::new(b))
        }
        Term::Apply { function, argument } => T::App(
            Rc::new(resolve(function, key, scope, free)),
            Rc::new(resolve(argument, key, scope, free)),
        ),
        Term::Delay(b) => T::Delay(Rc::new(resolve(b, key, scope, free))),
        Term::Force(b) => T::Force(Rc::new(resolve(b, key, scope, free))),
        Term::Constant(c) => T::Con(c.clone()),
        Term::Builtin(f) => T::Builtin(*f),
        Term::Error => T::Error,
        Term::Constr { tag, fields } => T::Constr(*tag, fields.iter().map(|f| resolve(f, key, scope, free)).collect()),
        Term::Case { constr, branches } => T::Case(
            Rc::new(resolve(constr, key, scope, free)),
            branches.iter().map(|f| resolve(f, key, scope, free)).collect(),
        ),
    }
}

pub fn resolve_by_unique(t: &Term<Name>) -> (T, usize) {
    let mut free = 0;
    let r = resolve(t, &|n: &Name| isize::from(n.unique), &mut vec![], &mut free);
    (r, free)
}

/// Free variables resolved by text (for open terms printed and re-parsed: the parser interns by text).
pub fn resolve_by_text_keep_free(t: &Term<Name>) -> (T, Vec<String>) {
    fn go(t: &Term<Name>, scope: &mut Vec<String>, free: &mut Vec<String>) -> T {
        match t {
            Term::Var(n) => match scope.iter().rev().position(|b| *b == n.text) {
                Some(p) => T::Var(p + 1),
                None => {
                    free.push(n.text.clone());
                    T::Var(0)
                }
            },
            Term::Lambda { parameter_name, body } => {
                scope.push(parameter_name.text.clone());
                let b = go(body, scope, free);
                scope.pop();
                T::Lam(Rc::new(b))
            }
            Term::Apply { function, argument } => T::App(Rc::new(go(function, scope, free)), Rc::new(go(argument, scope, free))),
            Term::Delay(b) => T::Delay(Rc::new(go(b, scope, free))),
            Term::Force(b) => T::Force(Rc::new(go(b, scope, free))),
            Term::Constant(c) => T::Con(c.clone()),
            Term::Builtin(f) => T::Builtin(*f),
            Term::Error => T::Error,
            Term::Constr { tag, fields } => T::Constr(*tag, fields.iter().map(|f| go(f, scope, free)).collect()),
            Term::Case { constr, branches } => T::Case(Rc::new(go(constr, scope, free)), branches.iter().map(|f| go(f, scope, free)).collect()),
        }
    }
    let mut free = vec![];
    let r = go(t, &mut vec![], &mut free);
    (r, free)
}

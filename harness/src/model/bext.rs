//! Denotations of the builtins outside model::builtins, written from the Plutus builtin
//! specification (CIP-121 integer/bytestring conversions, CIP-122/123 bitwise operations,
//! CIP-109 modular exponentiation, dropList, serialiseData) over model constants.
use crate::model::mconst::{D, MC};
use num_bigint::{BigInt, Sign};
use num_integer::Integer;
use num_traits::{One, Signed, ToPrimitive, Zero};
use uplc::builtins::DefaultFunction as F;

#[derive(Debug, Clone, PartialEq)]
pub enum Ext {
    Ok(MC),
    Fail(&'static str),
    /// the specification's formula gives this value, the reference implementation fails because an
    /// integer argument does not fit a machine word: both are accepted
    Either(MC),
    /// not modelled
    Unknown,
}

pub const MAX_SIZE: usize = 8192;

fn bits_of(b: &[u8]) -> usize {
    b.len() * 8
}

/// bit `i` in the specification's indexing: bit 0 is the least significant bit of the last byte
fn get_bit(b: &[u8], i: usize) -> bool {
    let byte = b[b.len() - 1 - i / 8];
    (byte >> (i % 8)) & 1 == 1
}

fn set_bit(b: &mut [u8], i: usize, v: bool) {
    let n = b.len();
    let byte = &mut b[n - 1 - i / 8];
    if v {
        *byte |= 1 << (i % 8);
    } else {
        *byte &= !(1 << (i % 8));
    }
}

pub fn int_to_bytes_be(i: &BigInt) -> Vec<u8> {
    if i.is_zero() { vec![] } else { i.to_bytes_be().1 }
}

fn mod_inverse(a: &BigInt, m: &BigInt) -> Option<BigInt> {
    // extended Euclid on (a mod m, m)
    let (mut old_r, mut r) = (a.mod_floor(m), m.clone());
    let (mut old_s, mut s) = (BigInt::one(), BigInt::zero());
    while !r.is_zero() {
        let q = old_r.div_floor(&r);
        let nr = &old_r - &q * &r;
        old_r = std::mem::replace(&mut r, nr);
        let ns = &old_s - &q * &s;
        old_s = std::mem::replace(&mut s, ns);
    }
    if old_r.is_one() { Some(old_s.mod_floor(m)) } else { None }
}

fn mod_pow(base: &BigInt, exp: &BigInt, m: &BigInt) -> BigInt {
    let mut result = BigInt::one().mod_floor(m);
    let mut b = base.mod_floor(m);
    let mut e = exp.clone();
    while e.is_positive() {
        if e.is_odd() {
            result = (&result * &b).mod_floor(m);
        }
        b = (&b * &b).mod_floor(m);
        e >>= 1;
    }
    result
}

// CBOR encoding of Data as `serialiseData` specifies it (the encoding of the Haskell
// `Codec.Serialise` instance for Data): constructors 0..6 as tags 121..127, 7..127 as tags
// 1280..1400, others as tag 102 [ix, fields]; lists indefinite unless empty; maps definite;
// integers as CBOR ints when they fit 64 bits, else bignums; byte strings in 64-byte chunks.
fn cbor_head(major: u8, n: u64, out: &mut Vec<u8>) {
    let m = major << 5;
    if n < 24 {
        out.push(m | n as u8);
    } else if n < 0x100 {
        out.push(m | 24);
        out.push(n as u8);
    } else if n < 0x10000 {
        out.push(m | 25);
        out.extend_from_slice(&(n as u16).to_be_bytes());
    } else if n < 0x1_0000_0000 {
        out.push(m | 26);
        out.extend_from_slice(&(n as u32).to_be_bytes());
    } else {
        out.push(m | 27);
        out.extend_from_slice(&n.to_be_bytes());
    }
}

fn cbor_bytes(b: &[u8], out: &mut Vec<u8>) {
    if b.len() <= 64 {
        cbor_head(2, b.len() as u64, out);
        out.extend_from_slice(b);
    } else {
        out.push(0x5f);
        for c in b.chunks(64) {
            cbor_head(2, c.len() as u64, out);
            out.extend_from_slice(c);
        }
        out.push(0xff);
    }
}

fn cbor_list(xs: &[D], out: &mut Vec<u8>) {
    if xs.is_empty() {
        out.push(0x80);
    } else {
        out.push(0x9f);
        for x in xs {
            cbor_data(x, out);
        }
        out.push(0xff);
    }
}

pub fn cbor_data(d: &D, out: &mut Vec<u8>) {
    match d {
        D::I(i) => {
            if let Some(u) = i.to_u64() {
                cbor_head(0, u, out);
            } else if let Some(n) = (-(i.clone()) - BigInt::one()).to_u64().filter(|_| i.is_negative()) {
                cbor_head(1, n, out);
            } else if i.is_negative() {
                out.push(0xc3);
                cbor_bytes(&(-(i.clone()) - BigInt::one()).to_bytes_be().1, out);
            } else {
                out.push(0xc2);
                cbor_bytes(&i.to_bytes_be().1, out);
            }
        }
        D::B(b) => cbor_bytes(b, out),
        D::L(xs) => cbor_list(xs, out),
        D::M(kvs) => {
            cbor_head(5, kvs.len() as u64, out);
            for (k, v) in kvs {
                cbor_data(k, out);
                cbor_data(v, out);
            }
        }
        D::C(ix, fs) => {
            if *ix < 7 {
                cbor_head(6, 121 + ix, out);
                cbor_list(fs, out);
            } else if *ix < 128 {
                cbor_head(6, 1280 + (ix - 7), out);
                cbor_list(fs, out);
            } else {
                cbor_head(6, 102, out);
                out.push(0x82);
                cbor_head(0, *ix, out);
                cbor_list(fs, out);
            }
        }
    }
}

pub fn call_ext(f: F, a: &[MC]) -> Ext {
    use F::*;
    use MC::*;
    match (f, a) {
        (IntegerToByteString, [Bool(big_endian), Int(width), Int(input)]) => {
            if input.is_negative() {
                return Ext::Fail("integerToByteString: negative input");
            }
            if width.is_negative() {
                return Ext::Fail("integerToByteString: negative width");
            }
            let Some(w) = width.to_usize().filter(|w| *w <= MAX_SIZE) else {
                return Ext::Fail("integerToByteString: width above 8192");
            };
            let mut be = int_to_bytes_be(input);
            if w == 0 {
                if be.len() > MAX_SIZE {
                    return Ext::Fail("integerToByteString: input needs more than 8192 bytes");
                }
            } else {
                if be.len() > w {
                    return Ext::Fail("integerToByteString: input does not fit the width");
                }
                let mut padded = vec![0u8; w - be.len()];
                padded.extend_from_slice(&be);
                be = padded;
            }
            if !*big_endian {
                be.reverse();
            }
            Ext::Ok(Bytes(be))
        }
        (ByteStringToInteger, [Bool(big_endian), Bytes(b)]) => {
            let i = if *big_endian { BigInt::from_bytes_be(Sign::Plus, b) } else { BigInt::from_bytes_le(Sign::Plus, b) };
            Ext::Ok(Int(i))
        }
        (AndByteString | OrByteString | XorByteString, [Bool(pad), Bytes(x), Bytes(y)]) => {
            let op = |p: u8, q: u8| match f {
                AndByteString => p & q,
                OrByteString => p | q,
                _ => p ^ q,
            };
            let (short, long) = if x.len() <= y.len() { (x, y) } else { (y, x) };
            let mut out: Vec<u8> = short.iter().zip(long.iter()).map(|(p, q)| op(*p, *q)).collect();
            if *pad {
                // the shorter argument is extended at the end with the operation's identity
                out.extend_from_slice(&long[short.len()..]);
            }
            Ext::Ok(Bytes(out))
        }
        (ComplementByteString, [Bytes(b)]) => Ext::Ok(Bytes(b.iter().map(|x| !x).collect())),
        (ReadBit, [Bytes(b), Int(i)]) => match i.to_usize() {
            Some(ix) if ix < bits_of(b) => Ext::Ok(Bool(get_bit(b, ix))),
            _ => Ext::Fail("readBit: index out of bounds"),
        },
        (WriteBits, [Bytes(b), List(crate::gen_::consts::CTy::Int, ixs), Bool(v)]) => {
            let mut out = b.clone();
            for ix in ixs {
                let Int(i) = ix else { return Ext::Fail("writeBits: index list") };
                match i.to_usize() {
                    Some(k) if k < bits_of(b) => set_bit(&mut out, k, *v),
                    _ => return Ext::Fail("writeBits: index out of bounds"),
                }
            }
            Ext::Ok(Bytes(out))
        }
        (ReplicateByte, [Int(n), Int(byte)]) => {
            if n.is_negative() {
                return Ext::Fail("replicateByte: negative size");
            }
            let Some(k) = n.to_usize().filter(|k| *k <= MAX_SIZE) else {
                return Ext::Fail("replicateByte: size above 8192");
            };
            match byte.to_u8() {
                Some(x) => Ext::Ok(Bytes(vec![x; k])),
                None => Ext::Fail("replicateByte: not a byte"),
            }
        }
        (ShiftByteString, [Bytes(b), Int(k)]) => {
            let n = bits_of(b) as i128;
            let out = match k.to_i128().filter(|s| *s > -(1i128 << 100) && *s < (1i128 << 100)) {
                Some(s) if s.abs() < n => {
                    let mut out = vec![0u8; b.len()];
                    for i in 0..n {
                        // positive shift moves bits towards higher indices (the most significant end)
                        let from = i - s;
                        if from >= 0 && from < n && get_bit(b, from as usize) {
                            set_bit(&mut out, i as usize, true);
                        }
                    }
                    out
                }
                _ => vec![0u8; b.len()],
            };
            if k.bits() > 63 { Ext::Either(Bytes(out)) } else { Ext::Ok(Bytes(out)) }
        }
        (RotateByteString, [Bytes(b), Int(k)]) => {
            if b.is_empty() {
                return if k.bits() > 63 { Ext::Either(Bytes(vec![])) } else { Ext::Ok(Bytes(vec![])) };
            }
            let n = BigInt::from(bits_of(b));
            let s = k.mod_floor(&n).to_usize().unwrap();
            let nb = bits_of(b);
            let mut out = vec![0u8; b.len()];
            for i in 0..nb {
                if get_bit(b, i) {
                    set_bit(&mut out, (i + s) % nb, true);
                }
            }
            if k.bits() > 63 { Ext::Either(Bytes(out)) } else { Ext::Ok(Bytes(out)) }
        }
        (CountSetBits, [Bytes(b)]) => Ext::Ok(Int(BigInt::from(b.iter().map(|x| x.count_ones() as u64).sum::<u64>()))),
        (FindFirstSetBit, [Bytes(b)]) => {
            for i in 0..bits_of(b) {
                if get_bit(b, i) {
                    return Ext::Ok(Int(BigInt::from(i)));
                }
            }
            Ext::Ok(Int(BigInt::from(-1)))
        }
        (ExpModInteger, [Int(b), Int(e), Int(m)]) => {
            if !m.is_positive() {
                return Ext::Fail("expModInteger: modulus not positive");
            }
            // the reference implementation bounds its arguments to 8192-byte numbers; beyond that
            // failing is accepted as well as the mathematical value
            let huge = b.bits() > 8190 || e.bits() > 8190 || m.bits() > 8190;
            let wrap = |v: MC| if huge { Ext::Either(v) } else { Ext::Ok(v) };
            if m.is_one() {
                return wrap(Int(BigInt::zero()));
            }
            if e.is_negative() {
                match mod_inverse(b, m) {
                    Some(inv) => wrap(Int(mod_pow(&inv, &-e.clone(), m))),
                    None => Ext::Fail("expModInteger: base not invertible"),
                }
            } else if e.bits() > 20_000 {
                Ext::Unknown
            } else {
                wrap(Int(mod_pow(b, e, m)))
            }
        }
        (DropList, [Int(n), List(t, xs)]) => {
            let k = if n.is_negative() { 0 } else { n.to_usize().unwrap_or(usize::MAX).min(xs.len()) };
            let out = List(t.clone(), xs[k..].to_vec());
            if n.bits() > 63 { Ext::Either(out) } else { Ext::Ok(out) }
        }
        (SerialiseData, [Data(d)]) => {
            let mut out = vec![];
            cbor_data(d, &mut out);
            Ext::Ok(Bytes(out))
        }
        (SliceByteString, [Int(s), Int(k), Bytes(b)]) => {
            let n = b.len();
            let start = if s.is_negative() { 0 } else { s.to_usize().unwrap_or(usize::MAX).min(n) };
            let len = if k.is_negative() { 0 } else { k.to_usize().unwrap_or(usize::MAX).min(n - start) };
            let out = Bytes(b[start..start + len].to_vec());
            if s.bits() > 63 || k.bits() > 63 { Ext::Either(out) } else { Ext::Ok(out) }
        }
        (IndexByteString, [Bytes(b), Int(i)]) => match i.to_usize() {
            Some(ix) if ix < b.len() => Ext::Ok(Int(BigInt::from(b[ix]))),
            _ => Ext::Fail("indexByteString: out of bounds"),
        },
        (ConstrData, [Int(i), List(crate::gen_::consts::CTy::Data, fields)]) => {
            let fs: Option<Vec<D>> = fields.iter().map(|m| if let Data(d) = m { Some(d.clone()) } else { None }).collect();
            let Some(fs) = fs else { return Ext::Fail("constrData: fields") };
            match i.to_u64() {
                Some(ix) => Ext::Ok(Data(D::C(ix, fs))),
                // the specification's constructor index is an unbounded integer; this
                // toolchain's Data holds a u64: failing is accepted, anything else is not
                None => Ext::Fail("constrData: index outside 0..2^64 (accepted as failure)"),
            }
        }
        _ => Ext::Unknown,
    }
}

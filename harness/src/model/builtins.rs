//! Builtin signatures and denotations written from the Plutus Core specification (appendix
//! "Built-in types and functions", batches 1-6). Only the cheap, deterministic builtins are
//! modelled here; hashing, signatures, BLS and the bitwise family are judged in C04 against the
//! Python model and answer `Unsupported` here.
use crate::gen_::consts::CTy;
use crate::model::cek::{V, Variant};
use crate::model::mconst::{D, MC};
use num_bigint::BigInt;
use num_traits::{Signed, ToPrimitive, Zero};
use std::rc::Rc;
use uplc::builtins::DefaultFunction as F;

pub enum BRes {
    Ok(V),
    Fail(&'static str),
    Unsupported,
}

/// (number of type instantiations = forces, number of term arguments), from the type signatures in
/// the specification. `None` for builtins this table does not know.
pub fn signature(f: F) -> Option<(u32, usize)> {
    use F::*;
    Some(match f {
        AddInteger | SubtractInteger | MultiplyInteger | DivideInteger | QuotientInteger
        | RemainderInteger | ModInteger | EqualsInteger | LessThanInteger | LessThanEqualsInteger => (0, 2),
        AppendByteString | ConsByteString | IndexByteString | EqualsByteString | LessThanByteString
        | LessThanEqualsByteString => (0, 2),
        SliceByteString => (0, 3),
        LengthOfByteString => (0, 1),
        Sha2_256 | Sha3_256 | Blake2b_256 | Blake2b_224 | Keccak_256 | Ripemd_160 => (0, 1),
        VerifyEd25519Signature | VerifyEcdsaSecp256k1Signature | VerifySchnorrSecp256k1Signature => (0, 3),
        AppendString | EqualsString => (0, 2),
        EncodeUtf8 | DecodeUtf8 => (0, 1),
        IfThenElse => (1, 3),
        ChooseUnit => (1, 2),
        Trace => (1, 2),
        FstPair | SndPair => (2, 1),
        ChooseList => (2, 3),
        MkCons => (1, 2),
        HeadList | TailList | NullList => (1, 1),
        ChooseData => (1, 6),
        ConstrData => (0, 2),
        MapData | ListData | IData | BData | UnConstrData | UnMapData | UnListData | UnIData | UnBData => (0, 1),
        EqualsData => (0, 2),
        SerialiseData => (0, 1),
        MkPairData => (0, 2),
        MkNilData | MkNilPairData => (0, 1),
        Bls12_381_G1_Add | Bls12_381_G1_ScalarMul | Bls12_381_G1_Equal | Bls12_381_G1_HashToGroup
        | Bls12_381_G2_Add | Bls12_381_G2_ScalarMul | Bls12_381_G2_Equal | Bls12_381_G2_HashToGroup
        | Bls12_381_MillerLoop | Bls12_381_MulMlResult | Bls12_381_FinalVerify
        | Bls12_381_G1_MultiScalarMul | Bls12_381_G2_MultiScalarMul => (0, 2),
        Bls12_381_G1_Neg | Bls12_381_G1_Compress | Bls12_381_G1_Uncompress | Bls12_381_G2_Neg
        | Bls12_381_G2_Compress | Bls12_381_G2_Uncompress => (0, 1),
        IntegerToByteString => (0, 3),
        ByteStringToInteger => (0, 2),
        AndByteString | OrByteString | XorByteString => (0, 3),
        ComplementByteString | CountSetBits | FindFirstSetBit => (0, 1),
        ReadBit | ReplicateByte | ShiftByteString | RotateByteString => (0, 2),
        WriteBits => (0, 3),
        ExpModInteger => (0, 3),
        DropList => (1, 2),
    })
}

fn con(m: MC) -> BRes {
    BRes::Ok(V::Con(Rc::new(m)))
}

fn as_con(v: &V) -> Option<&MC> {
    match v {
        V::Con(c) => Some(c),
        _ => None,
    }
}

macro_rules! arg {
    ($v:expr, $pat:path) => {
        match as_con($v) {
            Some($pat(x)) => x,
            _ => return BRes::Fail("builtin argument of the wrong type"),
        }
    };
}

fn floor_div_mod(a: &BigInt, b: &BigInt) -> (BigInt, BigInt) {
    // truncated division first, then correct towards negative infinity
    let q = a / b;
    let r = a - &q * b;
    if !r.is_zero() && (r.is_negative() != b.is_negative()) {
        (q - 1, r + b)
    } else {
        (q, r)
    }
}

pub fn fits_i64(i: &BigInt) -> bool {
    i.to_i64().is_some()
}

pub fn call(f: F, args: &[V], variant: Variant, logs: &mut Vec<String>) -> BRes {
    use F::*;
    match f {
        AddInteger => con(MC::Int(arg!(&args[0], MC::Int) + arg!(&args[1], MC::Int))),
        SubtractInteger => con(MC::Int(arg!(&args[0], MC::Int) - arg!(&args[1], MC::Int))),
        MultiplyInteger => con(MC::Int(arg!(&args[0], MC::Int) * arg!(&args[1], MC::Int))),
        DivideInteger | ModInteger | QuotientInteger | RemainderInteger => {
            let a = arg!(&args[0], MC::Int);
            let b = arg!(&args[1], MC::Int);
            if b.is_zero() {
                return BRes::Fail("division by zero");
            }
            let (fq, fr) = floor_div_mod(a, b);
            let tq = a / b; // num-bigint truncates toward zero
            let tr = a - &tq * b;
            con(MC::Int(match f {
                DivideInteger => fq,
                ModInteger => fr,
                QuotientInteger => tq,
                _ => tr,
            }))
        }
        EqualsInteger => con(MC::Bool(arg!(&args[0], MC::Int) == arg!(&args[1], MC::Int))),
        LessThanInteger => con(MC::Bool(arg!(&args[0], MC::Int) < arg!(&args[1], MC::Int))),
        LessThanEqualsInteger => con(MC::Bool(arg!(&args[0], MC::Int) <= arg!(&args[1], MC::Int))),
        AppendByteString => {
            let mut a = arg!(&args[0], MC::Bytes).clone();
            a.extend_from_slice(arg!(&args[1], MC::Bytes));
            con(MC::Bytes(a))
        }
        ConsByteString => {
            let c = arg!(&args[0], MC::Int);
            let bs = arg!(&args[1], MC::Bytes);
            let byte: u8 = match variant {
                // V3 semantics: the integer must be a byte
                Variant::C | Variant::E => match c.to_u8() {
                    Some(b) => b,
                    None => return BRes::Fail("consByteString: not a byte"),
                },
                // V1/V2 semantics: reduced modulo 256
                _ => {
                    let (_, r) = floor_div_mod(c, &BigInt::from(256));
                    r.to_u8().unwrap()
                }
            };
            let mut out = vec![byte];
            out.extend_from_slice(bs);
            con(MC::Bytes(out))
        }
        SliceByteString => {
            let s = arg!(&args[0], MC::Int);
            let k = arg!(&args[1], MC::Int);
            let bs = arg!(&args[2], MC::Bytes);
            if !fits_i64(s) || !fits_i64(k) {
                // specification formula vs reference implementation's Int bound: see C04
                return BRes::Unsupported;
            }
            let n = bs.len() as i128;
            let start = (s.to_i128().unwrap()).max(0).min(n);
            let len = (k.to_i128().unwrap()).max(0).min(n - start);
            con(MC::Bytes(bs[start as usize..(start + len) as usize].to_vec()))
        }
        LengthOfByteString => con(MC::Int(BigInt::from(arg!(&args[0], MC::Bytes).len()))),
        IndexByteString => {
            let bs = arg!(&args[0], MC::Bytes);
            let i = arg!(&args[1], MC::Int);
            match i.to_usize() {
                Some(ix) if ix < bs.len() => con(MC::Int(BigInt::from(bs[ix]))),
                _ => BRes::Fail("indexByteString: out of bounds"),
            }
        }
        EqualsByteString => con(MC::Bool(arg!(&args[0], MC::Bytes) == arg!(&args[1], MC::Bytes))),
        LessThanByteString => con(MC::Bool(arg!(&args[0], MC::Bytes) < arg!(&args[1], MC::Bytes))),
        LessThanEqualsByteString => con(MC::Bool(arg!(&args[0], MC::Bytes) <= arg!(&args[1], MC::Bytes))),
        AppendString => {
            let mut a = arg!(&args[0], MC::Str).clone();
            a.push_str(arg!(&args[1], MC::Str));
            con(MC::Str(a))
        }
        EqualsString => con(MC::Bool(arg!(&args[0], MC::Str) == arg!(&args[1], MC::Str))),
        EncodeUtf8 => con(MC::Bytes(arg!(&args[0], MC::Str).as_bytes().to_vec())),
        DecodeUtf8 => match String::from_utf8(arg!(&args[0], MC::Bytes).clone()) {
            Ok(s) => con(MC::Str(s)),
            Err(_) => BRes::Fail("decodeUtf8: invalid"),
        },
        IfThenElse => {
            let c = arg!(&args[0], MC::Bool);
            BRes::Ok(if *c { args[1].clone() } else { args[2].clone() })
        }
        ChooseUnit => {
            match as_con(&args[0]) {
                Some(MC::Unit) => {}
                _ => return BRes::Fail("chooseUnit: not unit"),
            }
            BRes::Ok(args[1].clone())
        }
        Trace => {
            let s = arg!(&args[0], MC::Str);
            logs.push(s.clone());
            BRes::Ok(args[1].clone())
        }
        FstPair | SndPair => match as_con(&args[0]) {
            Some(MC::Pair(_, _, a, b)) => con(if f == FstPair { (**a).clone() } else { (**b).clone() }),
            _ => BRes::Fail("not a pair"),
        },
        ChooseList => match as_con(&args[0]) {
            Some(MC::List(_, xs)) => BRes::Ok(if xs.is_empty() { args[1].clone() } else { args[2].clone() }),
            _ => BRes::Fail("not a list"),
        },
        MkCons => {
            let Some(x) = as_con(&args[0]) else {
                return BRes::Fail("mkCons: not a constant");
            };
            match as_con(&args[1]) {
                Some(MC::List(t, xs)) => {
                    if x.ty() != *t {
                        return BRes::Fail("mkCons: element type differs from list type");
                    }
                    let mut out = vec![x.clone()];
                    out.extend(xs.iter().cloned());
                    con(MC::List(t.clone(), out))
                }
                _ => BRes::Fail("not a list"),
            }
        }
        HeadList => match as_con(&args[0]) {
            Some(MC::List(_, xs)) => match xs.first() {
                Some(x) => con(x.clone()),
                None => BRes::Fail("headList: empty"),
            },
            _ => BRes::Fail("not a list"),
        },
        TailList => match as_con(&args[0]) {
            Some(MC::List(t, xs)) => {
                if xs.is_empty() {
                    BRes::Fail("tailList: empty")
                } else {
                    con(MC::List(t.clone(), xs[1..].to_vec()))
                }
            }
            _ => BRes::Fail("not a list"),
        },
        NullList => match as_con(&args[0]) {
            Some(MC::List(_, xs)) => con(MC::Bool(xs.is_empty())),
            _ => BRes::Fail("not a list"),
        },
        DropList => {
            let n = arg!(&args[0], MC::Int);
            match as_con(&args[1]) {
                Some(MC::List(t, xs)) => {
                    if !fits_i64(n) {
                        return BRes::Unsupported;
                    }
                    let k = n.to_i64().unwrap().max(0) as usize;
                    let k = k.min(xs.len());
                    con(MC::List(t.clone(), xs[k..].to_vec()))
                }
                _ => BRes::Fail("not a list"),
            }
        }
        ChooseData => {
            let d = arg!(&args[0], MC::Data);
            BRes::Ok(
                match d {
                    D::C(..) => &args[1],
                    D::M(..) => &args[2],
                    D::L(..) => &args[3],
                    D::I(..) => &args[4],
                    D::B(..) => &args[5],
                }
                .clone(),
            )
        }
        ConstrData => {
            let i = arg!(&args[0], MC::Int);
            let fields = match as_con(&args[1]) {
                Some(MC::List(CTy::Data, xs)) => xs,
                _ => return BRes::Fail("constrData: not a list of data"),
            };
            // Data's constructor index is an unbounded Integer in the specification; the tag
            // ranges representable by this toolchain are 0..2^64. Outside: see C04.
            let Some(ix) = i.to_u64() else {
                return BRes::Unsupported;
            };
            let fs = fields
                .iter()
                .map(|m| match m {
                    MC::Data(d) => d.clone(),
                    _ => unreachable!(),
                })
                .collect();
            con(MC::Data(D::C(ix, fs)))
        }
        MapData => match as_con(&args[0]) {
            Some(MC::List(CTy::Pair(a, b), xs)) if **a == CTy::Data && **b == CTy::Data => {
                let kvs = xs
                    .iter()
                    .map(|m| match m {
                        MC::Pair(_, _, k, v) => match (&**k, &**v) {
                            (MC::Data(k), MC::Data(v)) => (k.clone(), v.clone()),
                            _ => unreachable!(),
                        },
                        _ => unreachable!(),
                    })
                    .collect();
                con(MC::Data(D::M(kvs)))
            }
            _ => BRes::Fail("mapData: not a list of pairs of data"),
        },
        ListData => match as_con(&args[0]) {
            Some(MC::List(CTy::Data, xs)) => con(MC::Data(D::L(
                xs.iter()
                    .map(|m| match m {
                        MC::Data(d) => d.clone(),
                        _ => unreachable!(),
                    })
                    .collect(),
            ))),
            _ => BRes::Fail("listData: not a list of data"),
        },
        IData => con(MC::Data(D::I(arg!(&args[0], MC::Int).clone()))),
        BData => con(MC::Data(D::B(arg!(&args[0], MC::Bytes).clone()))),
        UnConstrData => match arg!(&args[0], MC::Data) {
            D::C(ix, fs) => con(MC::Pair(
                CTy::Int,
                CTy::List(Box::new(CTy::Data)),
                Box::new(MC::Int(BigInt::from(*ix))),
                Box::new(MC::List(CTy::Data, fs.iter().cloned().map(MC::Data).collect())),
            )),
            _ => BRes::Fail("unConstrData"),
        },
        UnMapData => match arg!(&args[0], MC::Data) {
            D::M(kvs) => con(MC::List(
                CTy::Pair(Box::new(CTy::Data), Box::new(CTy::Data)),
                kvs.iter()
                    .map(|(k, v)| {
                        MC::Pair(
                            CTy::Data,
                            CTy::Data,
                            Box::new(MC::Data(k.clone())),
                            Box::new(MC::Data(v.clone())),
                        )
                    })
                    .collect(),
            )),
            _ => BRes::Fail("unMapData"),
        },
        UnListData => match arg!(&args[0], MC::Data) {
            D::L(xs) => con(MC::List(CTy::Data, xs.iter().cloned().map(MC::Data).collect())),
            _ => BRes::Fail("unListData"),
        },
        UnIData => match arg!(&args[0], MC::Data) {
            D::I(i) => con(MC::Int(i.clone())),
            _ => BRes::Fail("unIData"),
        },
        UnBData => match arg!(&args[0], MC::Data) {
            D::B(b) => con(MC::Bytes(b.clone())),
            _ => BRes::Fail("unBData"),
        },
        EqualsData => con(MC::Bool(arg!(&args[0], MC::Data) == arg!(&args[1], MC::Data))),
        MkPairData => con(MC::Pair(
            CTy::Data,
            CTy::Data,
            Box::new(MC::Data(arg!(&args[0], MC::Data).clone())),
            Box::new(MC::Data(arg!(&args[1], MC::Data).clone())),
        )),
        MkNilData => match as_con(&args[0]) {
            Some(MC::Unit) => con(MC::List(CTy::Data, vec![])),
            _ => BRes::Fail("mkNilData: not unit"),
        },
        MkNilPairData => match as_con(&args[0]) {
            Some(MC::Unit) => con(MC::List(CTy::Pair(Box::new(CTy::Data), Box::new(CTy::Data)), vec![])),
            _ => BRes::Fail("mkNilPairData: not unit"),
        },
        _ => BRes::Unsupported,
    }
}

/// The set of builtins `call` models.
pub fn modelled(f: F) -> bool {
    use F::*;
    matches!(
        f,
        AddInteger | SubtractInteger | MultiplyInteger | DivideInteger | QuotientInteger | RemainderInteger
            | ModInteger | EqualsInteger | LessThanInteger | LessThanEqualsInteger | AppendByteString
            | ConsByteString | SliceByteString | LengthOfByteString | IndexByteString | EqualsByteString
            | LessThanByteString | LessThanEqualsByteString | AppendString | EqualsString | EncodeUtf8
            | DecodeUtf8 | IfThenElse | ChooseUnit | Trace | FstPair | SndPair | ChooseList | MkCons
            | HeadList | TailList | NullList | DropList | ChooseData | ConstrData | MapData | ListData
            | IData | BData | UnConstrData | UnMapData | UnListData | UnIData | UnBData | EqualsData
            | MkPairData | MkNilData | MkNilPairData
    )
}

//! Model constants: the abstract values of UPLC's built-in types, independent of how the crate
//! represents them (in particular `D` is abstract Data, not CBOR-shaped PlutusData).
use crate::gen_::consts::CTy;
use num_bigint::BigInt;
use pallas_primitives::alonzo::{BigInt as PBigInt, PlutusData};
use std::rc::Rc;
use uplc::ast::{Constant, Type};

#[derive(Debug, Clone, PartialEq, Eq, Hash)]
pub enum D {
    I(BigInt),
    B(Vec<u8>),
    L(Vec<D>),
    M(Vec<(D, D)>),
    C(u64, Vec<D>),
}

impl D {
    pub fn from_pd(d: &PlutusData) -> D {
        match d {
            PlutusData::BigInt(PBigInt::Int(i)) => D::I(BigInt::from(i128::from(*i))),
            PlutusData::BigInt(PBigInt::BigUInt(b)) => {
                D::I(BigInt::from_bytes_be(num_bigint::Sign::Plus, b.as_slice()))
            }
            PlutusData::BigInt(PBigInt::BigNInt(b)) => {
                D::I(-BigInt::from_bytes_be(num_bigint::Sign::Plus, b.as_slice()) - 1)
            }
            PlutusData::BoundedBytes(b) => D::B(b.as_slice().to_vec()),
            PlutusData::Array(xs) => D::L(xs.iter().map(D::from_pd).collect()),
            PlutusData::Map(kvs) => D::M(kvs.iter().map(|(k, v)| (D::from_pd(k), D::from_pd(v))).collect()),
            PlutusData::Constr(c) => {
                let ix = match c.tag {
                    121..=127 => c.tag - 121,
                    1280..=1400 => c.tag - 1280 + 7,
                    _ => c.any_constructor.unwrap_or(u64::MAX),
                };
                D::C(ix, c.fields.iter().map(D::from_pd).collect())
            }
        }
    }

    /// The form the toolchain's own constructors build.
    pub fn to_pd(&self) -> PlutusData {
        use uplc::ast::Data;
        match self {
            D::I(i) => Data::integer(i.clone()),
            D::B(b) => Data::bytestring(b.clone()),
            D::L(xs) => Data::list(xs.iter().map(|x| x.to_pd()).collect()),
            D::M(kvs) => Data::map(kvs.iter().map(|(k, v)| (k.to_pd(), v.to_pd())).collect()),
            D::C(ix, fs) => Data::constr(*ix, fs.iter().map(|x| x.to_pd()).collect()),
        }
    }

    pub fn nodes(&self) -> usize {
        match self {
            D::I(_) | D::B(_) => 1,
            D::L(xs) | D::C(_, xs) => 1 + xs.iter().map(|x| x.nodes()).sum::<usize>(),
            D::M(kvs) => 1 + kvs.iter().map(|(k, v)| k.nodes() + v.nodes()).sum::<usize>(),
        }
    }
}

#[derive(Debug, Clone, PartialEq)]
pub enum MC {
    Int(BigInt),
    Bytes(Vec<u8>),
    Str(String),
    Bool(bool),
    Unit,
    Data(D),
    List(CTy, Vec<MC>),
    Pair(CTy, CTy, Box<MC>, Box<MC>),
}

pub fn cty_of_type(t: &Type) -> Option<CTy> {
    Some(match t {
        Type::Bool => CTy::Bool,
        Type::Integer => CTy::Int,
        Type::String => CTy::Str,
        Type::ByteString => CTy::Bytes,
        Type::Unit => CTy::Unit,
        Type::Data => CTy::Data,
        Type::List(t) => CTy::List(Box::new(cty_of_type(t)?)),
        Type::Pair(a, b) => CTy::Pair(Box::new(cty_of_type(a)?), Box::new(cty_of_type(b)?)),
        _ => return None,
    })
}

impl MC {
    pub fn from_constant(c: &Constant) -> Option<MC> {
        Some(match c {
            Constant::Integer(i) => MC::Int(i.clone()),
            Constant::ByteString(b) => MC::Bytes(b.clone()),
            Constant::String(s) => MC::Str(s.clone()),
            Constant::Unit => MC::Unit,
            Constant::Bool(b) => MC::Bool(*b),
            Constant::ProtoList(t, xs) => MC::List(
                cty_of_type(t)?,
                xs.iter().map(MC::from_constant).collect::<Option<Vec<_>>>()?,
            ),
            Constant::ProtoPair(a, b, x, y) => MC::Pair(
                cty_of_type(a)?,
                cty_of_type(b)?,
                Box::new(MC::from_constant(x)?),
                Box::new(MC::from_constant(y)?),
            ),
            Constant::Data(d) => MC::Data(D::from_pd(d)),
            _ => return None,
        })
    }

    pub fn to_constant(&self) -> Constant {
        match self {
            MC::Int(i) => Constant::Integer(i.clone()),
            MC::Bytes(b) => Constant::ByteString(b.clone()),
            MC::Str(s) => Constant::String(s.clone()),
            MC::Bool(b) => Constant::Bool(*b),
            MC::Unit => Constant::Unit,
            MC::Data(d) => Constant::Data(d.to_pd()),
            MC::List(t, xs) => Constant::ProtoList(t.to_type(), xs.iter().map(|x| x.to_constant()).collect()),
            MC::Pair(a, b, x, y) => Constant::ProtoPair(
                a.to_type(),
                b.to_type(),
                Rc::new(x.to_constant()),
                Rc::new(y.to_constant()),
            ),
        }
    }

    pub fn ty(&self) -> CTy {
        match self {
            MC::Int(_) => CTy::Int,
            MC::Bytes(_) => CTy::Bytes,
            MC::Str(_) => CTy::Str,
            MC::Bool(_) => CTy::Bool,
            MC::Unit => CTy::Unit,
            MC::Data(_) => CTy::Data,
            MC::List(t, _) => CTy::List(Box::new(t.clone())),
            MC::Pair(a, b, _, _) => CTy::Pair(Box::new(a.clone()), Box::new(b.clone())),
        }
    }
}

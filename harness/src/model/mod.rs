pub mod builtins;
pub mod cek;
pub mod mconst;

pub mod builtins;
pub mod cek;
pub mod mconst;
pub mod blake2b;
pub mod bind;
pub mod interp;
pub mod bext;

//! R-AIKEN: a strict, environment-based reference interpreter for the mini-Aiken AST, written
//! from the language reference: left-to-right strict evaluation, first-match `when`, floor `/`
//! and `%`, short-circuit `&&`/`||`, structural `==`, aborts for `fail`/`todo`/failed `expect`/
//! partial builtins. Values cross the program boundary as PlutusData in the documented encoding.
use crate::gen_::aiken_ast::*;
use num_bigint::{BigInt, Sign};
use num_integer::Integer;
use num_traits::{Signed, ToPrimitive, Zero};
use pallas_primitives::alonzo::{BigInt as PBigInt, PlutusData};
use std::{collections::HashMap, rc::Rc};

/// PlutusData in normal form (no definite/indefinite distinction, one integer form).
#[derive(Clone, Debug, PartialEq, Eq, Hash)]
pub enum D {
    I(BigInt),
    B(Vec<u8>),
    L(Vec<D>),
    M(Vec<(D, D)>),
    C(u64, Vec<D>),
}

impl D {
    pub fn show(&self) -> String {
        match self {
            D::I(i) => format!("I {i}"),
            D::B(b) => format!("B #{}", hex::encode(b)),
            D::L(xs) => format!("List [{}]", xs.iter().map(|x| x.show()).collect::<Vec<_>>().join(", ")),
            D::M(kvs) => format!("Map [{}]", kvs.iter().map(|(k, v)| format!("({}, {})", k.show(), v.show())).collect::<Vec<_>>().join(", ")),
            D::C(t, fs) => format!("Constr {t} [{}]", fs.iter().map(|x| x.show()).collect::<Vec<_>>().join(", ")),
        }
    }

    pub fn from_plutus(d: &PlutusData) -> D {
        match d {
            PlutusData::BigInt(i) => D::I(match i {
                PBigInt::Int(i) => BigInt::from(i128::from(*i)),
                PBigInt::BigUInt(b) => BigInt::from_bytes_be(Sign::Plus, b),
                PBigInt::BigNInt(b) => -(BigInt::from_bytes_be(Sign::Plus, b) + BigInt::from(1)),
            }),
            PlutusData::BoundedBytes(b) => D::B(b.to_vec()),
            PlutusData::Array(xs) => D::L(xs.iter().map(D::from_plutus).collect()),
            PlutusData::Map(kvs) => D::M(kvs.iter().map(|(k, v)| (D::from_plutus(k), D::from_plutus(v))).collect()),
            PlutusData::Constr(c) => {
                let tag = match c.any_constructor {
                    Some(t) => t,
                    None if c.tag >= 121 && c.tag <= 127 => c.tag - 121,
                    None if c.tag >= 1280 => c.tag - 1280 + 7,
                    None => c.tag,
                };
                D::C(tag, c.fields.iter().map(D::from_plutus).collect())
            }
        }
    }

    /// The form the toolchain itself builds.
    pub fn to_plutus(&self) -> PlutusData {
        match self {
            D::I(i) => uplc::ast::Data::integer(i.clone()),
            D::B(b) => uplc::ast::Data::bytestring(b.clone()),
            D::L(xs) => uplc::ast::Data::list(xs.iter().map(|x| x.to_plutus()).collect()),
            D::M(kvs) => uplc::ast::Data::map(kvs.iter().map(|(k, v)| (k.to_plutus(), v.to_plutus())).collect()),
            D::C(t, fs) => uplc::ast::Data::constr(*t, fs.iter().map(|x| x.to_plutus()).collect()),
        }
    }

    pub fn nodes(&self) -> usize {
        match self {
            D::I(_) | D::B(_) => 1,
            D::L(xs) | D::C(_, xs) => 1 + xs.iter().map(|x| x.nodes()).sum::<usize>(),
            D::M(kvs) => 1 + kvs.iter().map(|(k, v)| k.nodes() + v.nodes()).sum::<usize>(),
        }
    }
}

#[derive(Clone)]
pub enum V {
    Int(BigInt),
    Bool(bool),
    Bytes(Vec<u8>),
    Unit,
    List(Vec<V>),
    Tuple(Vec<V>),
    Pair(Box<V>, Box<V>),
    Con(usize, usize, Vec<V>),
    Data(D),
    Fun(Rc<Fun>),
}

pub enum Fun {
    Lam { params: Vec<String>, body: E, env: Env },
    Named(String),
    Capture { f: String, args: Vec<Option<V>> },
}

impl std::fmt::Debug for V {
    fn fmt(&self, f: &mut std::fmt::Formatter<'_>) -> std::fmt::Result {
        match self {
            V::Int(i) => write!(f, "{i}"),
            V::Bool(b) => write!(f, "{b}"),
            V::Bytes(b) => write!(f, "#{}", hex::encode(b)),
            V::Unit => write!(f, "Void"),
            V::List(xs) => write!(f, "{xs:?}"),
            V::Tuple(xs) => write!(f, "Tuple{xs:?}"),
            V::Pair(a, b) => write!(f, "Pair({a:?}, {b:?})"),
            V::Con(a, c, fs) => {
                if *a == OPT {
                    if *c == 0 { write!(f, "Some({:?})", fs[0]) } else { write!(f, "None") }
                } else {
                    write!(f, "T{a}.C{c}{fs:?}")
                }
            }
            V::Data(d) => write!(f, "Data({})", d.show()),
            V::Fun(_) => write!(f, "<fn>"),
        }
    }
}

#[derive(Clone, Default)]
pub struct Env(Option<Rc<EnvNode>>);

pub struct EnvNode {
    name: String,
    val: V,
    next: Env,
}

impl Env {
    pub fn bind(&self, name: &str, val: V) -> Env {
        Env(Some(Rc::new(EnvNode { name: name.to_string(), val, next: self.clone() })))
    }
    pub fn get(&self, name: &str) -> Option<&V> {
        let mut cur = &self.0;
        while let Some(n) = cur {
            if n.name == name {
                return Some(&n.val);
            }
            cur = &n.next.0;
        }
        None
    }
}

#[derive(Debug, Clone, PartialEq, Eq)]
pub enum Stop {
    /// the source semantics aborts (reason for diagnostics only)
    Abort(&'static str),
    Fuel,
    /// the model declines to judge this construct on this input
    Unsupported(&'static str),
}

#[derive(Default, Debug, Clone)]
pub struct Features {
    pub when_multi: u32,
    pub max_rec_depth: u32,
    pub higher_order: u32,
    pub data_cast: u32,
    pub record_update: u32,
    pub erased_let: u32,
    pub short_circuit: u32,
    pub generic_call: u32,
    pub traced: u32,
    pub steps: u64,
}

pub struct Interp<'a> {
    pub m: &'a Module,
    pub fns: HashMap<&'a str, &'a FnDecl>,
    pub consts: HashMap<&'a str, &'a ConstDecl>,
    pub fuel: u64,
    pub feat: Features,
    depth: u32,
}

pub fn equal(a: &V, b: &V) -> Result<bool, Stop> {
    Ok(match (a, b) {
        (V::Int(x), V::Int(y)) => x == y,
        (V::Bool(x), V::Bool(y)) => x == y,
        (V::Bytes(x), V::Bytes(y)) => x == y,
        (V::Unit, V::Unit) => true,
        (V::List(x), V::List(y)) | (V::Tuple(x), V::Tuple(y)) => {
            if x.len() != y.len() {
                return Ok(false);
            }
            for (p, q) in x.iter().zip(y) {
                if !equal(p, q)? {
                    return Ok(false);
                }
            }
            true
        }
        (V::Pair(a1, b1), V::Pair(a2, b2)) => equal(a1, a2)? && equal(b1, b2)?,
        (V::Con(_, c1, f1), V::Con(_, c2, f2)) => {
            if c1 != c2 || f1.len() != f2.len() {
                return Ok(false);
            }
            for (p, q) in f1.iter().zip(f2) {
                if !equal(p, q)? {
                    return Ok(false);
                }
            }
            true
        }
        (V::Data(x), V::Data(y)) => x == y,
        (V::Fun(_), _) | (_, V::Fun(_)) => return Err(Stop::Unsupported("equality on functions")),
        _ => return Err(Stop::Unsupported("equality on values of different shapes")),
    })
}

/// syntactic free occurrence of variable `x` in `e`
pub fn occurs(x: &str, e: &E) -> bool {
    fn pat_binds(p: &Pat, x: &str) -> bool {
        match p {
            Pat::Var(v) => v == x,
            Pat::As(p, v) => v == x || pat_binds(p, x),
            Pat::Tuple(ps) => ps.iter().any(|p| pat_binds(p, x)),
            Pat::Pair(a, b) => pat_binds(a, x) || pat_binds(b, x),
            Pat::List(ps, tail) => ps.iter().any(|p| pat_binds(p, x)) || matches!(tail, Some(Some(t)) if t == x),
            Pat::Ctor { args, .. } => args.iter().any(|p| pat_binds(p, x)),
            _ => false,
        }
    }
    match e {
        E::Var(v) => v == x,
        E::Int(..) | E::Bool(_) | E::Bytes(..) | E::Unit | E::Fail(_) | E::Todo(_) | E::Const(_) => false,
        E::Bin(_, a, b) | E::Pair(a, b) => occurs(x, a) || occurs(x, b),
        E::Neg(a) | E::Not(a) | E::TupleIx(a, _) | E::PairIx(a, _) | E::Field(a, _, _) | E::TraceIfFalse(a) | E::ToData(a, _) | E::Trace(_, a) => occurs(x, a),
        E::If(bs, els) => bs.iter().any(|(c, b)| occurs(x, c) || occurs(x, b)) || occurs(x, els),
        E::When(s, cl) => occurs(x, s) || cl.iter().any(|(p, b)| !pat_binds(p, x) && occurs(x, b)),
        E::Let(p, _, v, b) | E::Expect(p, _, v, b) => occurs(x, v) || (!pat_binds(p, x) && occurs(x, b)),
        E::ExpectData(n, _, v, b) => occurs(x, v) || (n != x && occurs(x, b)),
        E::IfIs(v, n, _, a, b) => occurs(x, v) || (n != x && occurs(x, a)) || occurs(x, b),
        E::Call(_, args) | E::Tuple(args) | E::AndOr(_, args) | E::Builtin(_, args) | E::Ctor { args, .. } => args.iter().any(|a| occurs(x, a)),
        E::Pipe(f, _, rest) => occurs(x, f) || rest.iter().any(|a| occurs(x, a)),
        E::Apply(f, args) => occurs(x, f) || args.iter().any(|a| occurs(x, a)),
        E::Lam(ps, _, b) => !ps.iter().any(|(n, _)| n == x) && occurs(x, b),
        E::Capture(_, args) => args.iter().flatten().any(|a| occurs(x, a)),
        E::List(es, t) => es.iter().any(|a| occurs(x, a)) || t.as_ref().is_some_and(|t| occurs(x, t)),
        E::Update { base, sets, .. } => occurs(x, base) || sets.iter().any(|(_, v)| occurs(x, v)),
    }
}

/// Abort reason of a failed `expect x: T = data` where T is Int / ByteArray / a list and the
/// data is of another kind altogether (the check `unIData` / `unBData` / `unListData` /
/// `unMapData` performs).
pub const CAST_PRIM_KIND: &str = "expect: data is not of the primitive kind of the type";

pub fn prim_kind_mismatch(d: &D, t: &Ty) -> bool {
    match t {
        Ty::Int => !matches!(d, D::I(_)),
        Ty::Bytes => !matches!(d, D::B(_)),
        Ty::List(e) if matches!(**e, Ty::Pair(..)) => !matches!(d, D::M(_)),
        Ty::List(_) | Ty::Tuple(_) | Ty::Pair(..) => !matches!(d, D::L(_)),
        _ => false,
    }
}

pub fn floor_div(a: &BigInt, b: &BigInt) -> BigInt {
    a.div_floor(b)
}

pub fn floor_mod(a: &BigInt, b: &BigInt) -> BigInt {
    a.mod_floor(b)
}

impl<'a> Interp<'a> {
    pub fn new(m: &'a Module, fuel: u64) -> Self {
        Interp {
            m,
            fns: m.fns.iter().map(|f| (f.name.as_str(), f)).collect(),
            consts: m.consts.iter().map(|c| (c.name.as_str(), c)).collect(),
            fuel,
            feat: Features::default(),
            depth: 0,
        }
    }

    fn tick(&mut self) -> Result<(), Stop> {
        self.feat.steps += 1;
        if self.fuel == 0 {
            return Err(Stop::Fuel);
        }
        self.fuel -= 1;
        Ok(())
    }

    pub fn call_named(&mut self, name: &str, args: Vec<V>) -> Result<V, Stop> {
        let f = *self.fns.get(name).ok_or(Stop::Unsupported("unknown function"))?;
        if f.params.len() != args.len() {
            return Err(Stop::Unsupported("arity"));
        }
        let mut env = Env::default();
        for ((n, _), v) in f.params.iter().zip(args) {
            env = env.bind(n, v);
        }
        self.depth += 1;
        if self.depth > 180 {
            self.depth -= 1;
            return Err(Stop::Fuel);
        }
        self.feat.max_rec_depth = self.feat.max_rec_depth.max(self.depth);
        if f.tyvars > 0 {
            self.feat.generic_call += 1;
        }
        let r = self.eval(&f.body, &env);
        self.depth -= 1;
        r
    }

    pub fn apply(&mut self, f: &V, args: Vec<V>) -> Result<V, Stop> {
        let V::Fun(f) = f else {
            return Err(Stop::Unsupported("apply non-function"));
        };
        self.feat.higher_order += 1;
        match &**f {
            Fun::Lam { params, body, env } => {
                if params.len() != args.len() {
                    return Err(Stop::Unsupported("arity"));
                }
                let mut env = env.clone();
                for (n, v) in params.iter().zip(args) {
                    env = env.bind(n, v);
                }
                self.depth += 1;
                if self.depth > 180 {
                    self.depth -= 1;
                    return Err(Stop::Fuel);
                }
                let r = self.eval(body, &env);
                self.depth -= 1;
                r
            }
            Fun::Named(n) => self.call_named(n, args),
            Fun::Capture { f, args: slots } => {
                let mut it = args.into_iter();
                let full: Vec<V> = slots
                    .iter()
                    .map(|s| match s {
                        Some(v) => Ok(v.clone()),
                        None => it.next().ok_or(Stop::Unsupported("capture arity")),
                    })
                    .collect::<Result<_, _>>()?;
                self.call_named(f, full)
            }
        }
    }

    pub fn matches(&mut self, p: &Pat, v: &V, env: &mut Env) -> Result<bool, Stop> {
        Ok(match (p, v) {
            (Pat::Var(x), v) => {
                *env = env.bind(x, v.clone());
                true
            }
            (Pat::Discard, _) => true,
            (Pat::As(p, x), v) => {
                if self.matches(p, v, env)? {
                    *env = env.bind(x, v.clone());
                    true
                } else {
                    false
                }
            }
            (Pat::Int(i), V::Int(j)) => i == j,
            (Pat::Bytes(a), V::Bytes(b)) => a == b,
            (Pat::Bool(a), V::Bool(b)) => a == b,
            (Pat::Tuple(ps), V::Tuple(vs)) if ps.len() == vs.len() => {
                for (p, v) in ps.iter().zip(vs) {
                    if !self.matches(p, v, env)? {
                        return Ok(false);
                    }
                }
                true
            }
            (Pat::Pair(pa, pb), V::Pair(a, b)) => self.matches(pa, a, env)? && self.matches(pb, b, env)?,
            (Pat::List(ps, tail), V::List(vs)) => {
                match tail {
                    None if ps.len() != vs.len() => return Ok(false),
                    Some(_) if vs.len() < ps.len() => return Ok(false),
                    _ => {}
                }
                for (p, v) in ps.iter().zip(vs) {
                    if !self.matches(p, v, env)? {
                        return Ok(false);
                    }
                }
                if let Some(Some(t)) = tail {
                    *env = env.bind(t, V::List(vs[ps.len()..].to_vec()));
                }
                true
            }
            (Pat::Ctor { ctor, args, .. }, V::Con(_, c, fs)) => {
                if ctor != c {
                    return Ok(false);
                }
                if args.len() > fs.len() {
                    return Err(Stop::Unsupported("pattern arity"));
                }
                for (p, v) in args.iter().zip(fs) {
                    if !self.matches(p, v, env)? {
                        return Ok(false);
                    }
                }
                true
            }
            _ => return Err(Stop::Unsupported("pattern / value shape")),
        })
    }

    pub fn eval(&mut self, e: &E, env: &Env) -> Result<V, Stop> {
        self.tick()?;
        match e {
            E::Int(i, _) => Ok(V::Int(i.clone())),
            E::Bool(b) => Ok(V::Bool(*b)),
            E::Bytes(b, _) => Ok(V::Bytes(b.clone())),
            E::Unit => Ok(V::Unit),
            E::Var(x) => match env.get(x) {
                Some(v) => Ok(v.clone()),
                None if self.fns.contains_key(x.as_str()) => Ok(V::Fun(Rc::new(Fun::Named(x.clone())))),
                None => Err(Stop::Unsupported("unbound variable")),
            },
            E::Const(c) => {
                let d = *self.consts.get(c.as_str()).ok_or(Stop::Unsupported("unknown constant"))?;
                self.eval(&d.value, &Env::default())
            }
            E::Bin(op, l, r) => self.binop(*op, l, r, env),
            E::Neg(x) => match self.eval(x, env)? {
                V::Int(i) => Ok(V::Int(-i)),
                _ => Err(Stop::Unsupported("neg")),
            },
            E::Not(x) => match self.eval(x, env)? {
                V::Bool(b) => Ok(V::Bool(!b)),
                _ => Err(Stop::Unsupported("not")),
            },
            E::If(branches, els) => {
                for (c, b) in branches {
                    match self.eval(c, env)? {
                        V::Bool(true) => return self.eval(b, env),
                        V::Bool(false) => {}
                        _ => return Err(Stop::Unsupported("if condition")),
                    }
                }
                self.eval(els, env)
            }
            E::When(s, clauses) => {
                let v = self.eval(s, env)?;
                if clauses.len() >= 2 {
                    self.feat.when_multi += 1;
                }
                for (p, b) in clauses {
                    let mut env2 = env.clone();
                    if self.matches(p, &v, &mut env2)? {
                        return self.eval(b, &env2);
                    }
                }
                Err(Stop::Unsupported("no clause matched (the checker should have rejected this)"))
            }
            E::Let(p, _, v, b) => {
                // the type checker erases `let x = ..` bindings whose variable is never used
                if let Pat::Var(x) = p {
                    if !occurs(x, b) {
                        self.feat.erased_let += 1;
                        return self.eval(b, env);
                    }
                }
                if matches!(p, Pat::Discard) {
                    self.feat.erased_let += 1;
                    return self.eval(b, env);
                }
                let v = self.eval(v, env)?;
                let mut env2 = env.clone();
                if !self.matches(p, &v, &mut env2)? {
                    return Err(Stop::Unsupported("let pattern did not match"));
                }
                self.eval(b, &env2)
            }
            E::Expect(p, _, v, b) => {
                let v = self.eval(v, env)?;
                let mut env2 = env.clone();
                if !self.matches(p, &v, &mut env2)? {
                    return Err(Stop::Abort("expect"));
                }
                self.eval(b, &env2)
            }
            E::ExpectData(x, t, v, b) => {
                let V::Data(d) = self.eval(v, env)? else {
                    return Err(Stop::Unsupported("expect from non-data"));
                };
                self.feat.data_cast += 1;
                match self.from_data(&d, t) {
                    Some(v) => self.eval(b, &env.bind(x, v)),
                    None => Err(Stop::Abort(if prim_kind_mismatch(&d, t) { CAST_PRIM_KIND } else { "expect: data does not have the shape of the type" })),
                }
            }
            E::ToData(x, from) => {
                let v = self.eval(x, env)?;
                self.feat.data_cast += 1;
                Ok(V::Data(self.to_data(&v, from)?))
            }
            E::IfIs(v, x, t, a, b) => {
                let V::Data(d) = self.eval(v, env)? else {
                    return Err(Stop::Unsupported("if-is on non-data"));
                };
                self.feat.data_cast += 1;
                match self.from_data(&d, t) {
                    Some(v) => self.eval(a, &env.bind(x, v)),
                    None => self.eval(b, env),
                }
            }
            E::Call(f, args) => {
                let mut vs = Vec::with_capacity(args.len());
                for a in args {
                    vs.push(self.eval(a, env)?);
                }
                if let Some(fv) = env.get(f) {
                    let fv = fv.clone();
                    return self.apply(&fv, vs);
                }
                self.call_named(f, vs)
            }
            E::Pipe(first, f, rest) => {
                let mut vs = vec![self.eval(first, env)?];
                for a in rest {
                    vs.push(self.eval(a, env)?);
                }
                self.call_named(f, vs)
            }
            E::Apply(f, args) => {
                let fv = self.eval(f, env)?;
                let mut vs = Vec::with_capacity(args.len());
                for a in args {
                    vs.push(self.eval(a, env)?);
                }
                self.apply(&fv, vs)
            }
            E::Lam(params, _, body) => Ok(V::Fun(Rc::new(Fun::Lam {
                params: params.iter().map(|p| p.0.clone()).collect(),
                body: (**body).clone(),
                env: env.clone(),
            }))),
            E::Capture(f, args) => {
                // `f(a, _, c)` is sugar for `fn(hole) { f(a, hole, c) }`: the other arguments are
                // evaluated each time the resulting function is called, not when it is created
                let hole = "__capture_hole";
                let full: Vec<E> = args.iter().map(|a| a.clone().unwrap_or_else(|| E::Var(hole.to_string()))).collect();
                Ok(V::Fun(Rc::new(Fun::Lam { params: vec![hole.to_string()], body: E::Call(f.clone(), full), env: env.clone() })))
            }
            E::Tuple(es) => {
                let mut vs = vec![];
                for a in es {
                    vs.push(self.eval(a, env)?);
                }
                Ok(V::Tuple(vs))
            }
            E::TupleIx(t, i) => match self.eval(t, env)? {
                V::Tuple(vs) if *i < vs.len() => Ok(vs[*i].clone()),
                _ => Err(Stop::Unsupported("tuple index")),
            },
            E::Pair(a, b) => Ok(V::Pair(Box::new(self.eval(a, env)?), Box::new(self.eval(b, env)?))),
            E::PairIx(p, i) => match self.eval(p, env)? {
                V::Pair(a, b) => Ok(if *i == 0 { *a } else { *b }),
                _ => Err(Stop::Unsupported("pair index")),
            },
            E::List(es, tail) => {
                let mut vs = vec![];
                for a in es {
                    vs.push(self.eval(a, env)?);
                }
                if let Some(t) = tail {
                    match self.eval(t, env)? {
                        V::List(rest) => vs.extend(rest),
                        _ => return Err(Stop::Unsupported("list tail")),
                    }
                }
                Ok(V::List(vs))
            }
            E::Ctor { adt, ctor, args, .. } => {
                let mut vs = vec![];
                for a in args {
                    vs.push(self.eval(a, env)?);
                }
                Ok(V::Con(*adt, *ctor, vs))
            }
            E::Field(b, _, f) => match self.eval(b, env)? {
                V::Con(_, _, fs) if *f < fs.len() => Ok(fs[*f].clone()),
                _ => Err(Stop::Unsupported("field access")),
            },
            E::Update { base, sets, .. } => {
                self.feat.record_update += 1;
                // the record is evaluated first, then the new field values in source order
                let V::Con(a, c, mut fs) = self.eval(base, env)? else {
                    return Err(Stop::Unsupported("record update"));
                };
                for (f, v) in sets {
                    let v = self.eval(v, env)?;
                    if *f >= fs.len() {
                        return Err(Stop::Unsupported("record update field"));
                    }
                    fs[*f] = v;
                }
                Ok(V::Con(a, c, fs))
            }
            E::Fail(_) => Err(Stop::Abort("fail")),
            E::Todo(_) => Err(Stop::Abort("todo")),
            E::Trace(_, b) => {
                self.feat.traced += 1;
                self.eval(b, env)
            }
            E::TraceIfFalse(x) => {
                self.feat.traced += 1;
                self.eval(x, env)
            }
            E::AndOr(is_and, es) => {
                for (i, x) in es.iter().enumerate() {
                    match self.eval(x, env)? {
                        V::Bool(b) => {
                            if b != *is_and {
                                if i + 1 < es.len() {
                                    self.feat.short_circuit += 1;
                                }
                                return Ok(V::Bool(b));
                            }
                        }
                        _ => return Err(Stop::Unsupported("and/or operand")),
                    }
                }
                Ok(V::Bool(*is_and))
            }
            E::Builtin(b, args) => {
                let mut vs = vec![];
                for a in args {
                    vs.push(self.eval(a, env)?);
                }
                self.builtin(*b, vs)
            }
        }
    }

    fn binop(&mut self, op: Op, l: &E, r: &E, env: &Env) -> Result<V, Stop> {
        match op {
            Op::And | Op::Or => {
                let V::Bool(a) = self.eval(l, env)? else {
                    return Err(Stop::Unsupported("logical operand"));
                };
                if (op == Op::And && !a) || (op == Op::Or && a) {
                    self.feat.short_circuit += 1;
                    return Ok(V::Bool(a));
                }
                match self.eval(r, env)? {
                    V::Bool(b) => Ok(V::Bool(b)),
                    _ => Err(Stop::Unsupported("logical operand")),
                }
            }
            Op::Eq | Op::Neq => {
                let a = self.eval(l, env)?;
                let b = self.eval(r, env)?;
                let eq = equal(&a, &b)?;
                Ok(V::Bool(if op == Op::Eq { eq } else { !eq }))
            }
            _ => {
                let (V::Int(a), V::Int(b)) = (self.eval(l, env)?, self.eval(r, env)?) else {
                    return Err(Stop::Unsupported("arithmetic operand"));
                };
                Ok(match op {
                    Op::Add => V::Int(a + b),
                    Op::Sub => V::Int(a - b),
                    Op::Mul => {
                        if a.bits() + b.bits() > 200_000 {
                            return Err(Stop::Fuel);
                        }
                        V::Int(a * b)
                    }
                    Op::Div => {
                        if b.is_zero() {
                            return Err(Stop::Abort("division by zero"));
                        }
                        V::Int(floor_div(&a, &b))
                    }
                    Op::Mod => {
                        if b.is_zero() {
                            return Err(Stop::Abort("modulo by zero"));
                        }
                        V::Int(floor_mod(&a, &b))
                    }
                    Op::Lt => V::Bool(a < b),
                    Op::Le => V::Bool(a <= b),
                    Op::Gt => V::Bool(a > b),
                    Op::Ge => V::Bool(a >= b),
                    _ => unreachable!(),
                })
            }
        }
    }

    fn builtin(&mut self, b: Bi, vs: Vec<V>) -> Result<V, Stop> {
        use V::*;
        let bad = Err(Stop::Unsupported("builtin arguments"));
        Ok(match (b, vs.as_slice()) {
            (Bi::AppendBytes, [Bytes(a), Bytes(b)]) => Bytes([a.as_slice(), b.as_slice()].concat()),
            (Bi::LengthBytes, [Bytes(a)]) => Int(a.len().into()),
            (Bi::IndexBytes, [Bytes(a), Int(i)]) => match i.to_usize() {
                Some(i) if i < a.len() => Int(a[i].into()),
                _ => return Err(Stop::Abort("index_bytearray out of bounds")),
            },
            (Bi::SliceBytes, [Int(start), Int(len), Bytes(a)]) => {
                // sliceByteString: clamps; skip = max(start,0), take = max(len,0)
                let n = a.len();
                let s = if start.is_negative() { 0 } else { start.to_usize().unwrap_or(usize::MAX).min(n) };
                let l = if len.is_negative() { 0 } else { len.to_usize().unwrap_or(usize::MAX).min(n - s) };
                if start.bits() > 62 || len.bits() > 62 {
                    return Err(Stop::Unsupported("slice with integers beyond 64 bits"));
                }
                Bytes(a[s..s + l].to_vec())
            }
            (Bi::ConsBytes, [Int(c), Bytes(a)]) => {
                // PlutusV3: the byte must be in 0..=255
                match c.to_u8() {
                    Some(c) => {
                        let mut v = vec![c];
                        v.extend_from_slice(a);
                        Bytes(v)
                    }
                    None => return Err(Stop::Abort("cons_bytearray: not a byte")),
                }
            }
            (Bi::LessThanBytes, [Bytes(a), Bytes(b)]) => Bool(a < b),
            (Bi::HeadList, [List(xs)]) => match xs.first() {
                Some(x) => x.clone(),
                None => return Err(Stop::Abort("head of empty list")),
            },
            (Bi::TailList, [List(xs)]) => {
                if xs.is_empty() {
                    return Err(Stop::Abort("tail of empty list"));
                }
                List(xs[1..].to_vec())
            }
            (Bi::NullList, [List(xs)]) => Bool(xs.is_empty()),
            (Bi::QuotientInteger, [Int(a), Int(b)]) => {
                if b.is_zero() {
                    return Err(Stop::Abort("quotient by zero"));
                }
                Int(a / b)
            }
            (Bi::RemainderInteger, [Int(a), Int(b)]) => {
                if b.is_zero() {
                    return Err(Stop::Abort("remainder by zero"));
                }
                Int(a % b)
            }
            (Bi::Sha2 | Bi::Blake2b | Bi::IntToBytes | Bi::BytesToInt, _) => return Err(Stop::Unsupported("builtin not modelled")),
            _ => return bad,
        })
    }

    // --------------------------------------------------------------------------------------------
    // Data encoding (language reference: "Data" / blueprint encoding table)

    pub fn to_data(&self, v: &V, t: &Ty) -> Result<D, Stop> {
        Ok(match (v, t) {
            (V::Int(i), Ty::Int) => D::I(i.clone()),
            (V::Bytes(b), Ty::Bytes) => D::B(b.clone()),
            (V::Bool(b), Ty::Bool) => D::C(*b as u64, vec![]),
            (V::Unit, Ty::Unit) => D::C(0, vec![]),
            (V::Data(d), Ty::Data) => d.clone(),
            (V::List(xs), Ty::List(et)) => {
                if let Ty::Pair(a, b) = &**et {
                    let mut kvs = vec![];
                    for x in xs {
                        let V::Pair(k, v) = x else { return Err(Stop::Unsupported("to_data: pair list")) };
                        kvs.push((self.to_data(k, a)?, self.to_data(v, b)?));
                    }
                    D::M(kvs)
                } else {
                    D::L(xs.iter().map(|x| self.to_data(x, et)).collect::<Result<_, _>>()?)
                }
            }
            (V::Tuple(xs), Ty::Tuple(ts)) if xs.len() == ts.len() => D::L(xs.iter().zip(ts).map(|(x, t)| self.to_data(x, t)).collect::<Result<_, _>>()?),
            (V::Pair(a, b), Ty::Pair(ta, tb)) => D::L(vec![self.to_data(a, ta)?, self.to_data(b, tb)?]),
            (V::Con(_, c, fs), Ty::Opt(t)) => {
                if *c == 0 {
                    D::C(0, vec![self.to_data(&fs[0], t)?])
                } else {
                    D::C(1, vec![])
                }
            }
            (V::Con(_, c, fs), Ty::Adt(a, targs)) => {
                let tys = self.m.adts[*a].field_tys(*c, targs);
                if tys.len() != fs.len() {
                    return Err(Stop::Unsupported("to_data: constructor arity"));
                }
                D::C(self.m.adts[*a].tag(*c), fs.iter().zip(&tys).map(|(x, t)| self.to_data(x, t)).collect::<Result<_, _>>()?)
            }
            _ => return Err(Stop::Unsupported("to_data: value / type mismatch")),
        })
    }

    /// Does `d` have the shape of `t`? If so, the value.
    pub fn from_data(&self, d: &D, t: &Ty) -> Option<V> {
        Some(match (d, t) {
            (D::I(i), Ty::Int) => V::Int(i.clone()),
            (D::B(b), Ty::Bytes) => V::Bytes(b.clone()),
            (D::C(0, fs), Ty::Bool) if fs.is_empty() => V::Bool(false),
            (D::C(1, fs), Ty::Bool) if fs.is_empty() => V::Bool(true),
            (D::C(0, fs), Ty::Unit) if fs.is_empty() => V::Unit,
            (d, Ty::Data) => V::Data(d.clone()),
            (D::M(kvs), Ty::List(et)) => {
                let Ty::Pair(a, b) = &**et else { return None };
                V::List(kvs.iter().map(|(k, v)| Some(V::Pair(Box::new(self.from_data(k, a)?), Box::new(self.from_data(v, b)?)))).collect::<Option<_>>()?)
            }
            (D::L(xs), Ty::List(et)) => {
                if matches!(&**et, Ty::Pair(..)) {
                    return None;
                }
                V::List(xs.iter().map(|x| self.from_data(x, et)).collect::<Option<_>>()?)
            }
            (D::L(xs), Ty::Tuple(ts)) if xs.len() == ts.len() => V::Tuple(xs.iter().zip(ts).map(|(x, t)| self.from_data(x, t)).collect::<Option<_>>()?),
            (D::L(xs), Ty::Pair(a, b)) if xs.len() == 2 => V::Pair(Box::new(self.from_data(&xs[0], a)?), Box::new(self.from_data(&xs[1], b)?)),
            (D::C(0, fs), Ty::Opt(t)) if fs.len() == 1 => V::Con(OPT, 0, vec![self.from_data(&fs[0], t)?]),
            (D::C(1, fs), Ty::Opt(_)) if fs.is_empty() => V::Con(OPT, 1, vec![]),
            (D::C(tag, fs), Ty::Adt(a, targs)) => {
                let decl = &self.m.adts[*a];
                let c = decl.ctor_of_tag(*tag)?;
                let tys = decl.field_tys(c, targs);
                if tys.len() != fs.len() {
                    return None;
                }
                V::Con(*a, c, fs.iter().zip(&tys).map(|(x, t)| self.from_data(x, t)).collect::<Option<_>>()?)
            }
            _ => return None,
        })
    }
}

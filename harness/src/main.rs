#![allow(dead_code, unused_mut, unreachable_patterns)]
//! vcheck <ID> <quick|thorough> [--replay FILE]      supervisor
//! vcheck --worker <ID> <tier> <idx> <n> <workdir> [--replay FILE]
mod engine;
mod props;
pub mod aik;
pub mod gen_;
pub mod model;

use engine::*;
use serde_json::{Value as J, json};
use std::{
    collections::{BTreeMap, HashSet},
    path::{Path, PathBuf},
    process::{Command, Stdio},
    sync::{Arc, Mutex, atomic::AtomicU64, atomic::Ordering},
    time::{Duration, Instant},
};

fn root() -> PathBuf {
    std::env::var("VERIF_ROOT")
        .map(PathBuf::from)
        .unwrap_or_else(|_| PathBuf::from("/verif"))
}

fn seed() -> u64 {
    std::env::var("VERIF_SEED")
        .ok()
        .and_then(|s| s.trim().parse::<i128>().ok())
        .map(|v| v as u64)
        .unwrap_or(0)
}

fn main() {
    let args: Vec<String> = std::env::args().collect();
    if args.len() >= 2 && args[1] == "--worker" {
        std::process::exit(worker(&args[2..]));
    }
    if args.len() >= 3 && args[1] == "--fmt" {
        // debugging aid: format an Aiken source file and print the result
        let text = std::fs::read_to_string(&args[2]).expect("readable file");
        match aiken_lang::parser::module(&text, aiken_lang::ast::ModuleKind::Lib) {
            Ok((module, extra)) => {
                let mut out = String::new();
                aiken_lang::format::pretty(&mut out, module, extra, &text);
                print!("{out}");
                std::process::exit(0);
            }
            Err(errs) => {
                eprintln!("does not parse: {errs:?}");
                std::process::exit(1);
            }
        }
    }
    if args.len() >= 3 && args[1] == "--aik" {
        std::process::exit(aik_debug(&args[2..]));
    }
    if args.len() < 3 {
        eprintln!("usage: vcheck <ID> <quick|thorough> [--replay FILE]");
        std::process::exit(2);
    }
    std::process::exit(supervisor(&args[1..]));
}

fn load_replay(p: &Path) -> Option<Replay> {
    let s = std::fs::read_to_string(p).ok()?;
    let j: J = serde_json::from_str(&s).ok()?;
    Some(Replay {
        check: j["check"].as_str().unwrap_or("").to_string(),
        choices: j["choices"].as_array().map(|a| {
            a.iter()
                .map(|v| v.as_u64().unwrap_or(0) as u32)
                .collect::<Vec<u32>>()
        }),
        input: j["input"].clone(),
    })
}

fn parse_tier(s: &str) -> Tier {
    match s {
        "thorough" => Tier::Thorough,
        _ => Tier::Quick,
    }
}

// ------------------------------------------------------------------------------------------------

fn worker(args: &[String]) -> i32 {
    let id = args[0].clone();
    let tier = parse_tier(&args[1]);
    let idx: usize = args[2].parse().unwrap();
    let n: usize = args[3].parse().unwrap();
    let workdir = PathBuf::from(&args[4]);
    let replay = if args.len() >= 7 && args[5] == "--replay" {
        match load_replay(Path::new(&args[6])) {
            Some(r) => Some(r),
            None => {
                eprintln!("cannot read replay file {}", args[6]);
                return 2;
            }
        }
    } else {
        None
    };

    install_panic_hook();

    let progress = Arc::new(Progress {
        counter: AtomicU64::new(0),
        current: Mutex::new((String::new(), vec![])),
    });

    let hang_secs: u64 = std::env::var("VERIF_HANG_SECS")
        .ok()
        .and_then(|s| s.parse().ok())
        .unwrap_or(300);

    // watchdog thread: no progress for hang_secs => dump the current case and exit 3
    {
        let progress = progress.clone();
        let workdir = workdir.clone();
        let id = id.clone();
        std::thread::spawn(move || {
            let mut last = 0u64;
            let mut since = Instant::now();
            loop {
                std::thread::sleep(Duration::from_millis(500));
                let c = progress.counter.load(Ordering::Relaxed);
                if c != last {
                    last = c;
                    since = Instant::now();
                } else if since.elapsed() > Duration::from_secs(hang_secs) {
                    let cur = progress.current.lock().map(|g| g.clone()).unwrap_or_default();
                    let j = json!({"property": id, "check": cur.0, "choices": cur.1, "input": J::Null, "hang_secs": hang_secs});
                    let _ = std::fs::write(workdir.join(format!("hang-{idx}.json")), j.to_string());
                    eprintln!("worker {idx}: no progress for {hang_secs}s in check {}", cur.0);
                    std::process::exit(3);
                }
            }
        });
    }

    let mut cx = Cx {
        property: id.clone(),
        tier,
        seed: seed(),
        worker: idx,
        nworkers: n,
        root: root(),
        workdir: workdir.clone(),
        stats: Stats::default(),
        known: load_known(&root()),
        known_hits: BTreeMap::new(),
        violations: vec![],
        replay,
        progress,
        crashy: false,
        notes: vec![],
        shrink_iters: 3000,
    };

    // run the property on a thread with the same stack size as a main thread (8 MiB), so that
    // stack-overflow behaviour matches what a CLI user would see.
    let (cx, rule) = std::thread::Builder::new()
        .stack_size(8 * 1024 * 1024)
        .spawn(move || {
            // regression tier: replays of earlier (fixed) findings, run first by worker 0
            if cx.replay.is_none() && cx.worker == 0 {
                let dir = cx.root.join("replays").join("regress");
                let mut files: Vec<_> = std::fs::read_dir(&dir)
                    .map(|d| d.filter_map(|e| e.ok()).map(|e| e.path()).collect())
                    .unwrap_or_default();
                files.sort();
                for f in files {
                    let name = f.file_name().unwrap().to_string_lossy().to_string();
                    if !name.starts_with(&format!("{}-", cx.property)) || !name.ends_with(".json") {
                        continue;
                    }
                    if let Some(r) = load_replay(&f) {
                        cx.replay = Some(r);
                        let _ = props::run(&mut cx);
                        cx.replay = None;
                        cx.stats.class("regression-replays");
                    }
                }
            }
            let rule = props::run(&mut cx);
            (cx, rule)
        })
        .unwrap()
        .join()
        .unwrap_or_else(|_| {
            eprintln!("worker {idx}: property thread panicked outside a case");
            std::process::exit(2);
        });

    let out = json!({
        "stats": cx.stats.to_json(),
        "known_hits": cx.known_hits,
        "violations": cx.violations.iter().map(|(s, p)| json!({"signature": s, "replay": p})).collect::<Vec<_>>(),
        "notes": cx.notes,
        "rule": rule,
    });
    std::fs::write(workdir.join(format!("out-{idx}.json")), out.to_string()).unwrap();
    if cx.violations.is_empty() { 0 } else { 1 }
}

// ------------------------------------------------------------------------------------------------

fn supervisor(args: &[String]) -> i32 {
    let id = args[0].clone();
    let tier = parse_tier(&args[1]);
    let replay: Option<String> = if args.len() >= 4 && args[2] == "--replay" {
        Some(args[3].clone())
    } else {
        None
    };
    if !props::ALL.contains(&id.as_str()) {
        eprintln!("unknown property {id}");
        return 2;
    }
    let start = Instant::now();
    let root = root();
    let workdir = root.join("work").join(format!("{}-{}", id, std::process::id()));
    let _ = std::fs::remove_dir_all(&workdir);
    std::fs::create_dir_all(&workdir).unwrap();

    let n: usize = if replay.is_some() {
        1
    } else {
        std::env::var("VERIF_WORKERS")
            .ok()
            .and_then(|s| s.parse().ok())
            .unwrap_or_else(|| props::workers(&id, tier))
    };
    let exe = std::env::current_exe().unwrap();
    let mut children = vec![];
    for i in 0..n {
        let mut c = Command::new(&exe);
        c.arg("--worker")
            .arg(&id)
            .arg(tier.name())
            .arg(i.to_string())
            .arg(n.to_string())
            .arg(&workdir);
        if let Some(r) = &replay {
            c.arg("--replay").arg(r);
        }
        c.stdin(Stdio::null());
        children.push((i, c.spawn().expect("spawn worker")));
    }

    let mut exit = 0;
    let mut crashed: Vec<(usize, String)> = vec![];
    let mut hung: Vec<usize> = vec![];
    for (i, mut ch) in children {
        let st = ch.wait().expect("wait");
        match st.code() {
            Some(0) => {}
            Some(1) => exit = exit.max(1),
            Some(3) => hung.push(i),
            Some(134) => crashed.push((i, "abort".to_string())),
            Some(c) => {
                eprintln!("worker {i} exited with code {c}: infrastructure problem");
                if exit == 0 {
                    exit = 2;
                }
            }
            None => {
                use std::os::unix::process::ExitStatusExt;
                crashed.push((i, format!("signal {}", st.signal().unwrap_or(0))));
            }
        }
    }

    // merge
    let mut evaluations = 0u64;
    let mut nontrivial: HashSet<u64> = HashSet::new();
    let mut classes: BTreeMap<String, u64> = BTreeMap::new();
    let mut samples: Vec<J> = vec![];
    let mut known_hits: BTreeMap<String, u64> = BTreeMap::new();
    let mut violations: Vec<J> = vec![];
    let mut notes: Vec<String> = vec![];
    let mut rule = String::new();
    let mut exhaustive: Option<bool> = None;
    for i in 0..n {
        let p = workdir.join(format!("out-{i}.json"));
        let Ok(s) = std::fs::read_to_string(&p) else {
            continue;
        };
        let j: J = serde_json::from_str(&s).unwrap_or(J::Null);
        evaluations += j["stats"]["evaluations"].as_u64().unwrap_or(0);
        for h in j["stats"]["nontrivial"].as_array().into_iter().flatten() {
            nontrivial.insert(h.as_u64().unwrap_or(0));
        }
        for (k, v) in j["stats"]["classes"].as_object().into_iter().flatten() {
            *classes.entry(k.clone()).or_insert(0) += v.as_u64().unwrap_or(0);
        }
        for s in j["stats"]["samples"].as_array().into_iter().flatten() {
            if samples.len() < 16 && (i < 2 || samples.len() < 8) {
                samples.push(s.clone());
            }
        }
        if let Some(b) = j["stats"]["exhaustive"].as_bool() {
            exhaustive = Some(exhaustive.unwrap_or(true) && b);
        }
        for (k, v) in j["known_hits"].as_object().into_iter().flatten() {
            *known_hits.entry(k.clone()).or_insert(0) += v.as_u64().unwrap_or(0);
        }
        for v in j["violations"].as_array().into_iter().flatten() {
            violations.push(v.clone());
        }
        for v in j["notes"].as_array().into_iter().flatten() {
            notes.push(format!("w{i}: {}", v.as_str().unwrap_or("")));
        }
        if rule.is_empty() {
            rule = j["rule"].as_str().unwrap_or("").to_string();
        }
    }

    // workers killed by a signal / hung: confirm in a fresh child before reporting
    let termination_property = matches!(id.as_str(), "C10" | "C20");
    for (i, how) in &crashed {
        let side = workdir.join(format!("current-{i}.json"));
        if side.exists() && replay.is_none() {
            let dest = root.join("replays").join(format!(
                "{}-crash-{:016x}.json",
                id,
                hash_of(&std::fs::read_to_string(&side).unwrap_or_default())
            ));
            let _ = std::fs::create_dir_all(dest.parent().unwrap());
            let _ = std::fs::copy(&side, &dest);
            let st = Command::new(&exe)
                .arg(&id)
                .arg(tier.name())
                .arg("--replay")
                .arg(&dest)
                .stdout(Stdio::null())
                .status();
            let confirmed = matches!(st.as_ref().map(|s| s.code()), Ok(Some(1)));
            if confirmed {
                println!("VIOLATION property={} replay={}", id, dest.display());
                println!("  worker {i} died ({how}); the case reproduces in a fresh process");
                violations.push(json!({"signature": format!("crash:{how}"), "replay": dest}));
                exit = exit.max(1);
            } else {
                eprintln!("worker {i} died ({how}) but the case did not reproduce: inconclusive");
                let _ = std::fs::remove_file(&dest);
                if exit == 0 {
                    exit = 2;
                }
            }
        } else if replay.is_some() {
            // replay mode: the process died while re-running the recorded case
            println!("VIOLATION property={} replay={}", id, replay.clone().unwrap());
            println!("  replayed case kills the process ({how})");
            exit = 1;
        } else {
            eprintln!("worker {i} died ({how}) without a recorded case: inconclusive");
            if exit == 0 {
                exit = 2;
            }
        }
    }
    for i in &hung {
        let side = workdir.join(format!("hang-{i}.json"));
        if termination_property && side.exists() && replay.is_none() {
            let dest = root.join("replays").join(format!(
                "{}-hang-{:016x}.json",
                id,
                hash_of(&std::fs::read_to_string(&side).unwrap_or_default())
            ));
            let _ = std::fs::copy(&side, &dest);
            let st = Command::new(&exe)
                .arg(&id)
                .arg(tier.name())
                .arg("--replay")
                .arg(&dest)
                .env("VERIF_HANG_SECS", "1200")
                .stdout(Stdio::null())
                .status();
            // the replay child exits 2 when its own (20x longer) watchdog fires
            if matches!(st.as_ref().map(|s| s.code()), Ok(Some(2))) {
                println!("VIOLATION property={} replay={}", id, dest.display());
                println!("  case does not terminate within 20x the watchdog");
                exit = exit.max(1);
            } else {
                let _ = std::fs::remove_file(&dest);
                if exit == 0 {
                    exit = 2;
                }
            }
        } else {
            eprintln!("worker {i}: watchdog fired; inconclusive");
            if exit == 0 {
                exit = 2;
            }
        }
    }

    for k in load_known(&root) {
        if k.status == "known" && k.property == id {
            if let Some(hits) = known_hits.get(&k.signature) {
                println!("KNOWN-FINDING: property={} {} [{} cases hit it]", id, k.what, hits);
            }
        }
    }

    let wall = start.elapsed().as_secs_f64();
    if replay.is_none() {
        let mut coverage = json!({
            "evaluations": evaluations,
            "distinct_nontrivial": nontrivial.len(),
            "rule": rule,
            "samples": samples,
            "classes": classes,
            "known_finding_hits": known_hits,
            "workers": n,
            "notes": notes,
        });
        if let Some(b) = exhaustive {
            coverage["exhaustive"] = json!(b);
        }
        let ev = json!({
            "property_id": id,
            "tier": tier.name(),
            "seed": seed() as i64,
            "level": "exploration",
            "coverage": coverage,
            "assumptions": props::assumptions(&id),
            "wall_s": wall,
            "violations": violations.len(),
            "exit": exit,
        });
        let p = root.join("evidence").join(format!("{id}.json"));
        let _ = std::fs::create_dir_all(p.parent().unwrap());
        std::fs::write(&p, serde_json::to_string_pretty(&ev).unwrap()).unwrap();
        println!(
            "{id} {}: evaluations={} distinct_nontrivial={} violations={} wall={:.1}s exit={}",
            tier.name(),
            evaluations,
            nontrivial.len(),
            violations.len(),
            wall,
            exit
        );
    } else {
        println!("{id} replay: violations={} exit={}", violations.len(), exit);
    }
    let _ = std::fs::remove_dir_all(&workdir);
    exit
}

#[allow(dead_code)]
fn _unused(_: &Path) {}

/// vcheck --aik FILE [FN [DATA...]]: compile FN (default `entry`) of an Aiken module and evaluate
/// it on the given Data arguments (UPLC data syntax, e.g. `I 5`, `List [I 1]`, `Constr 0 []`).
fn aik_debug(args: &[String]) -> i32 {
    use aiken_lang::ast::{ModuleKind, TraceLevel, Tracing};
    let src = std::fs::read_to_string(&args[0]).expect("read file");
    let name = args.get(1).cloned().unwrap_or("entry".to_string());
    let level = match std::env::var("TRACE").as_deref() {
        Ok("silent") => TraceLevel::Silent,
        Ok("compact") => TraceLevel::Compact,
        _ => TraceLevel::Verbose,
    };
    let tracing = Tracing::All(level);
    let mut proj = aik::Proj::new();
    match proj.add_module("m", ModuleKind::Lib, &src, tracing) {
        Ok(_) => {}
        Err(e) => {
            println!("compile error: {e:?}");
            return 1;
        }
    }
    let mut g = proj.generator(aiken_lang::plutus_version::PlutusVersion::V3, tracing);
    aiken_lang::verif_hooks::start_recording();
    let Some(p) = aik::compile_fn(&proj, &mut g, 0, &name) else {
        println!("no function {name}");
        return 1;
    };
    if std::env::var("SHOW").is_ok() {
        println!("{}", p.to_pretty());
    }
    let data: Vec<uplc::PlutusData> = args[2..]
        .iter()
        .map(|a| match uplc::parser::term(&format!("(con data ({a}))")) {
            Ok(uplc::ast::Term::Constant(c)) => match &*c {
                uplc::ast::Constant::Data(d) => d.clone(),
                _ => panic!("not data"),
            },
            other => panic!("cannot parse data {a}: {other:?}"),
        })
        .collect();
    for pre in aiken_lang::verif_hooks::take_recorded() {
        if std::env::var("SHOWPRE").is_ok() {
            println!("--- pre-optimisation:\n{}", pre.to_pretty());
        }
        let mut interned = pre.clone().clean_up_no_inlines();
        uplc::optimize::interner::CodeGenInterner::new().program(&mut interned);
        match interned.pipe_ndb() {
            Ok(ndb) => {
                let (out, _, _) = aik::eval_with_args(&ndb, &data);
                println!("pre-optimisation outcome: {}", match out { aik::Outcome::Value(t) => t.to_pretty(), aik::Outcome::Error(k, _) => format!("error {k}") });
            }
            Err(e) => println!("pre-optimisation program not convertible: {e}"),
        }
    }
    let ndb = aik::to_ndb(&p).expect("to_ndb");
    let (out, logs, cost) = aik::eval_with_args(&ndb, &data);
    match out {
        aik::Outcome::Value(t) => println!("value: {}", t.to_pretty()),
        aik::Outcome::Error(k, d) => println!("error: {k}: {d}"),
    }
    println!("logs: {logs:?}  cost: {cost:?}");
    0
}

trait PipeNdb {
    fn pipe_ndb(self) -> Result<uplc::ast::Program<uplc::ast::NamedDeBruijn>, String>;
}
impl PipeNdb for uplc::ast::Program<uplc::ast::Name> {
    fn pipe_ndb(self) -> Result<uplc::ast::Program<uplc::ast::NamedDeBruijn>, String> {
        uplc::ast::Program::<uplc::ast::NamedDeBruijn>::try_from(self).map_err(|e| format!("{e:?}"))
    }
}

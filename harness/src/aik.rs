//! In-process Aiken compile pipeline (the path `aiken check` / `aiken export` take):
//! parser::module -> UntypedModule::infer -> register_definitions -> CodeGenerator.
//! Equivalent of the test-only `TestProject` in aiken-project/src/tests/mod.rs.
use aiken_lang::{
    IdGenerator,
    ast::{DataTypeKey, Definition, FunctionAccessKey, ModuleKind, Tracing, TypedDataType, TypedFunction, TypedModule, TypedValidator},
    builtins,
    expr::TypedExpr,
    gen_uplc::CodeGenerator,
    line_numbers::LineNumbers,
    parser,
    plutus_version::PlutusVersion,
    tipo::TypeInfo,
    utils,
};
use indexmap::IndexMap;
use pallas_primitives::conway::Language;
use std::collections::HashMap;
use uplc::{
    PlutusData,
    ast::{Name, NamedDeBruijn, Program, Term},
    machine::cost_model::ExBudget,
};

pub struct Proj {
    pub id_gen: IdGenerator,
    pub functions: IndexMap<FunctionAccessKey, TypedFunction>,
    pub constants: IndexMap<FunctionAccessKey, TypedExpr>,
    pub data_types: IndexMap<DataTypeKey, TypedDataType>,
    pub module_types: HashMap<String, TypeInfo>,
    pub module_sources: HashMap<String, (String, LineNumbers)>,
    pub modules: Vec<TypedModule>,
    pub warnings: usize,
    pub extras: Vec<(ModuleKind, aiken_lang::parser::extra::ModuleExtra)>,
}

#[derive(Debug, Clone)]
pub enum CompileError {
    Parse(String),
    Type(String),
}

impl Proj {
    pub fn new() -> Self {
        let id_gen = IdGenerator::new();
        let mut module_types = HashMap::new();
        module_types.insert("aiken".to_string(), builtins::prelude(&id_gen));
        module_types.insert("aiken/builtin".to_string(), builtins::plutus(&id_gen));
        let functions = builtins::prelude_functions(&id_gen, &module_types);
        let data_types = builtins::prelude_data_types(&id_gen);
        Proj {
            id_gen,
            functions,
            constants: IndexMap::new(),
            data_types,
            module_types,
            module_sources: HashMap::new(),
            modules: vec![],
            warnings: 0,
            extras: vec![],
        }
    }

    /// Parse + type-check + register one module. `tracing` is what the type checker is given
    /// (it rewrites `?` and `expect` messages according to it).
    pub fn add_module(&mut self, name: &str, kind: ModuleKind, source: &str, tracing: Tracing) -> Result<usize, CompileError> {
        let (mut ast, extra) = parser::module(source, kind).map_err(|errs| CompileError::Parse(errs.iter().map(|e| format!("{e:?}")).collect::<Vec<_>>().join("; ").chars().take(600).collect()))?;
        self.extras.push((kind, extra));
        ast.name = name.to_string();
        let mut warnings = vec![];
        let typed = ast
            .infer(&self.id_gen, kind, "test/project", &self.module_types, tracing, &mut warnings, None)
            .map_err(|e| CompileError::Type(format!("{e:?}").chars().take(1200).collect()))?;
        self.warnings += warnings.len();
        typed.register_definitions(&mut self.functions, &mut self.constants, &mut self.data_types);
        self.module_sources.insert(name.to_string(), (source.to_string(), LineNumbers::new(source)));
        self.module_types.insert(name.to_string(), typed.type_info.clone());
        self.modules.push(typed);
        Ok(self.modules.len() - 1)
    }

    pub fn generator(&self, version: PlutusVersion, tracing: Tracing) -> CodeGenerator<'_> {
        CodeGenerator::new(
            version,
            utils::indexmap::as_ref_values(&self.functions),
            utils::indexmap::as_ref_values(&self.constants),
            utils::indexmap::as_ref_values(&self.data_types),
            utils::indexmap::as_str_ref_values(&self.module_types),
            utils::indexmap::as_str_ref_values(&self.module_sources),
            tracing,
        )
    }

    /// The module as `aiken-project` sees it after type checking.
    pub fn checked_module(&self, module: usize) -> aiken_project::module::CheckedModule {
        let name = self.modules[module].name.clone();
        let code = self.module_sources.get(&name).map(|s| s.0.clone()).unwrap_or_default();
        let (kind, extra) = self.extras[module].clone();
        let mut m = aiken_project::module::CheckedModule { kind, extra, name, code, package: "test/project".to_string(), input_path: std::path::PathBuf::new(), ast: self.modules[module].clone() };
        m.attach_doc_and_module_comments();
        m
    }

    pub fn function(&self, module: usize, name: &str) -> Option<&TypedFunction> {
        self.modules[module].definitions().find_map(|d| match d {
            Definition::Fn(f) if f.name == name => Some(f),
            _ => None,
        })
    }

    pub fn tests(&self, module: usize) -> Vec<&TypedFunction> {
        self.modules[module]
            .definitions()
            .filter_map(|d| match d {
                Definition::Test(_) => None,
                _ => None,
            })
            .collect()
    }

    pub fn validators(&self, module: usize) -> Vec<&TypedValidator> {
        self.modules[module]
            .definitions()
            .filter_map(|d| match d {
                Definition::Validator(v) => Some(v),
                _ => None,
            })
            .collect()
    }
}

/// Compile a named function of module 0 the way `aiken export` does.
pub fn compile_fn(proj: &Proj, generator: &mut CodeGenerator<'_>, module: usize, name: &str) -> Option<Program<Name>> {
    let f = proj.function(module, name)?;
    let module_name = proj.modules[module].name.clone();
    Some(generator.generate_raw(&f.body, &f.arguments, &module_name))
}

#[derive(Debug, Clone)]
pub enum Outcome {
    /// evaluation returned this term
    Value(Term<NamedDeBruijn>),
    /// evaluation failed with this machine error (Debug rendering of the variant name)
    Error(String, String),
}

pub fn error_kind(e: &uplc::machine::Error) -> String {
    let s = format!("{e:?}");
    s.split(['(', ' ', '{']).next().unwrap_or("").to_string()
}

/// Apply Data arguments and evaluate under PlutusV3 with an unlimited budget.
pub fn eval_with_args(program: &Program<NamedDeBruijn>, args: &[PlutusData]) -> (Outcome, Vec<String>, ExBudget) {
    let mut p = program.clone();
    for a in args {
        p = p.apply_data(a.clone());
    }
    let r = p.eval_version(ExBudget::max(), &Language::PlutusV3);
    let logs = r.logs();
    let cost = r.cost();
    match r.result() {
        Ok(t) => (Outcome::Value(t), logs, cost),
        Err(e) => (Outcome::Error(error_kind(&e), format!("{e:?}").chars().take(300).collect()), logs, cost),
    }
}

pub fn to_ndb(p: &Program<Name>) -> Result<Program<NamedDeBruijn>, String> {
    Program::<NamedDeBruijn>::try_from(p.clone()).map_err(|e| format!("{e:?}"))
}
